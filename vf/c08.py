"""C08 - render_dependencies only strips markers and inserts tags where documented.

Specification: specs/DepsInsert.tla (layer A: what may happen to a document, written from the
property statement and docs/concepts/advanced/rendering_js_css.md), specs/DepsInsertImpl.tla
(layer B: the marker / placeholder / two-insertion arithmetic of the code, with the deviations of
the current tree as named switches), specs/MC_C08.tla (bounded instance, theorems, B-refines-A,
export), specs/Trace_C08.tla (trace validation on real strings).

spec -> code: TLC enumerates every document of <= N segments over
              {Txt, </head> lc/uc, </body> lc/uc, css placeholder, js placeholder, marker A, marker B},
              checks the theorems and exports each document with the admissible results (token
              sequences).  The harness concretises every document several times (ASCII / non-ASCII /
              look-alike text, end-tag spellings, the real renderings of the two placeholder tags,
              real `<!-- _RENDERED ... -->` comments of real component classes) and runs the real
              render_dependencies() on str / bytes / SafeString in document and fragment mode and the
              real ComponentDependencyMiddleware (HttpResponse html / non-html, StreamingHttpResponse,
              sync and async); result and type must equal the concretised specification result byte
              for byte.  Every mismatch is adjudicated by TLC (Trace_C08): explained exactly by a
              named deviation -> finding key, otherwise VIOLATION.
code -> spec: a seeded random driver builds much longer documents (<= 16 segments, random text,
              more component classes, latin-1 bodies ...), records what the real code returned, and
              TLC validates every record against the same specification on the real strings.

The generated tag blocks (what goes *into* the insertion points) are property C04's business: they
are calibrated from the real output for a marker-only document, by two independent routes
(placeholders and default locations) that must agree.  Real classes: A (js, css, Media), B (js whose
text contains `</head>`), C (css whose text contains `</body>`, non-ASCII), D (no assets).

One thing about the blocks is this property's: "inserting the generated tags" - the texts the tags
are generated from (Component.js -> "an inlined <script> tag", Component.css -> "an inlined <style>
tag", Media entries given as "safe" strings, which "are taken as is") are data and arrive in the block
byte for byte; nothing that is inserted is ever read as a replacement template / format string
(DepsInsert: PayUnits, Carried, InsertedKinds; Trace_C08 clause `payload`).  TLC enumerates and exports
the alphabet of carried texts: every sequence of <= MaxPay units over {`\\n` `\\d` `\\1` `\\g<0>` `\\\\`
`\\f101` `\\201C` `\\0` `\\"` `$1` `%s` `{0}` plain}; for each one a real component class is created whose
js, css and two safe Media tags carry it, and the abstract marker symbol "A" (a component with js, css
and Media) is concretised as class A or as one of these classes, so they meet every document shape
(explicit placeholders / default locations), every input type and the middleware.  The random driver
adds classes with longer payloads (3..6 units).  Whenever a call inserts a block of a kind, every
carried text of that kind must be a contiguous part of the block (hence of the result), and the call
must not raise.  A calibration call that raises is reported as what it is: a call of
render_dependencies on a document of the quantified class (markers, text, two placeholders) that fails.
Not determined / left out: JS / CSS *variables* (get_js_data) reach the tags JSON-encoded - C04's;
Media paths that are not safe strings go through static() / URL quoting - not verbatim; a component
text containing `</script>` / `</style>`, or starting / ending with white space (observation: the
inlined text is stripped) - never generated.

Genuine defects of the current tree are *named deviations* of the layer-B model (DepsInsertImpl):
a failing call is a KNOWN-FINDING only if the observed result equals, character for character, what
the model of a tree with exactly these deviations predicts (Trace_C08 picks the smallest explaining
set; several at once give a composite key joined with `+`):
  offset    -> body-end-before-head-end:js-offset-shifted
  multiattr -> placeholder-multi-id-attrs:left-in-place
  nonutf8   -> non-utf8-bytes:unicode-decode-error
  blocktag  -> end-tag-inside-generated-block:insertion-lands-in-block
Anything else (another shape, or another wrong result on the same shape) is a VIOLATION.

Unspecified zones (not alarmed on / not generated):
  * upper-case end tags `</HEAD>`, `</Body >`: the property says "case variants", the docs only show
    lower case -> the specification admits both readings (ci parameter), bytes must still be kept;
  * `</head x>`, `</head/>`, NBSP / U+2028 before `>`: whether these are end tags is not stated -> never generated;
  * malformed or unknown-class `_RENDERED` comments (the code raises), non-ASCII class names (C04's
    finding), HTML content types other than exactly `text/html[; charset=...]` (`Text/HTML`,
    `application/xhtml+xml`), str subclasses other than SafeString -> never generated;
  * placeholders carrying `data-djc-css-*` attributes come from the undocumented get_css_data()
    hook -> never generated (observation: the code does not recognise them either).
"""
from __future__ import annotations

import asyncio
import json
import os
import random
import re
from typing import Any, Dict, Iterable, List, Optional, Tuple

from . import tlc
from .core import Check, MachineryError, workdir

PID = "C08"
MODES = ("document", "fragment")
TOK_CSS, TOK_JS, TOK_FRAG = -1, -2, -3
ID_SLOT = "\x00"
ID_ALPHABET = "0123456789abcdefghijklmnopqrstuvwxyzABCDEFGHIJKLMNOPQRSTUVWXYZ"

# ---- independent recognisers (written from the docs; used only to make sure a concretised document
# ---- contains exactly the tokens its abstract segments say, never to compute an expectation)
R_END = re.compile(r"</(?:head|body)\s*>", re.I)
R_MARK = re.compile(r"<!--\s*_RENDERED")
R_CSSPH = re.compile(r'<link name="CSS_PLACEHOLDER"[^>]*>')
R_JSPH = re.compile(r'<script name="JS_PLACEHOLDER"[^>]*></script>')
R_MARKER_FULL = re.compile(r"<!-- _RENDERED ([\w]+),(\w{6}),([0-9a-f]*),([0-9a-f]*) -->")

TXT_ASCII = ["alpha", "<div class=\"x\">beta</div>", "gamma delta", "<p>text</p>\n", "  ", "<html><head><title>t</title>",
             "<body id=\"b\">", "<h1>Title</h1>", "x", "<ul><li>1</li></ul>", "<br/>", "<!doctype html>\n"]
TXT_UNI = ["žluťoučký kůň", "日本語テキスト", "🙂 emoji 𝔘", "é", "\u00a0nbsp\u00a0", "<p>ñandú</p>", "Ω≈ç√∫", "кириллица",
           "<span title=\"ü\">ï</span>", "\u2028ls", "a\u0301"]
TXT_SPECIAL = ["<", "%", "{% x %}", "{{ y }}", "100% <b", "&amp; &lt;/head&gt;", "\\", "\"'", "<!--", "-->", "<!-- c -->",
               "", "\n", "\t\r\n", "<<>>", "{#c#}", "$1 \\1 \\g<0>", "%s %(a)s {0}", "]]>", "<script>var s='x';</script>"]
TXT_LOOKALIKE = ["</heads>", "</ head>", "< /head>", "<head>", "<body>", "</header>", "</bodyx>", "</head", "</body",
                 "<\\/head>", "&lt;/body&gt;", "</he ad>", "<//head>", "</head-x>", "</thead>", "</tbody>",
                 "<!-- RENDERED VfDepA_1e038d,a1b2c3,, -->", "<!-- _RENDER x -->", "<!-- rendered -->",
                 "<link name=\"CSS_PLACEHOLDERS\">", "<link name=\"css_placeholder\">", "<link name=\"CSS-PLACEHOLDER\">",
                 "<script name=\"JS_PLACEHOLDER_2\"></script>", "<link rel=\"stylesheet\" href=\"CSS_PLACEHOLDER\">",
                 "&lt;link name=\"CSS_PLACEHOLDER\"&gt;", "<script name=\"JS_PLACEHOLDERS\"></script>",
                 "<script src=\"/static/django_components/django_components.min.js\"></script>",
                 "<script type=\"application/json\" data-djc>{\"loadedCssUrls\": []}</script>", "<style>.x{}</style>"]
TXT_LATIN1 = ["café", "über ß", " ", "naïve </heads>", "ÿþ", "plain"]
END_LC = ["</%s>", "</%s >", "</%s\n>", "</%s\t>", "</%s \r\n >", "</%s\f>"]
END_UC = [("upper", "</%s>"), ("title", "</%s>"), ("upper", "</%s >"), ("swap", "</%s\n>")]

# concrete spellings of the payload units of DepsInsert!PayUnits (the specification is symmetric in them)
UNIT_TEXT = {"txt": "ab", "bs_n": "\\n", "bs_d": "\\d", "bs_1": "\\1", "bs_g0": "\\g<0>", "bs_bs": "\\\\", "bs_f101": "\\f101",
             "bs_201C": "\\201C", "bs_0": "\\0", "bs_q": "\\\"", "dollar": "$1", "pct": "%s", "brace": "{0}"}
JS_WRAP = ['console.log("%s");', "const isNum = (s) => /^%s+$/.test(s);", "var t = '%s'; /* t */", "el.textContent =\n  `%s`;"]
CSS_WRAP = ['.icon::before{content:"%s"}', ".p::after {\n content: '%s'; }", "/* %s */ .q{color:#00f}"]
BLOCK_OF = {"css": 0, "js": 1}

KEYS = {"offset": "body-end-before-head-end:js-offset-shifted",
        "multiattr": "placeholder-multi-id-attrs:left-in-place",
        "nonutf8": "non-utf8-bytes:unicode-decode-error",
        "blocktag": "end-tag-inside-generated-block:insertion-lands-in-block"}


class Calibration(Exception):
    """The generated blocks could not be isolated from a marker-only document.  `case`: the call that
    raised, when it was the real code that raised (a replayable call case)."""
    case: Optional[Dict[str, Any]] = None


# ===================================================================== the real world
class World:
    """Real component classes, real marker comments, real placeholder renderings, calibrated blocks."""

    _inst: Optional["World"] = None

    @classmethod
    def get(cls) -> "World":
        if cls._inst is None:
            cls._inst = World()
        return cls._inst

    def __init__(self) -> None:
        from . import boot
        boot.setup()
        from django.template import Context, Template
        from django.test import RequestFactory
        import django_components.dependencies as dd
        from django_components import Component, registry

        self.dd = dd
        self.request = RequestFactory().get("/")
        self.unavailable: List[str] = []

        class VfDepA(Component):
            template = "<div>A</div>"
            js = "console.log('A');"
            css = ".vf-a{color:red}/* ž */"

            class Media:
                js = ["vf/a.js"]
                css = ["vf/a.css"]

        class VfDepB(Component):
            template = "<span>B</span>"
            js = "console.log(\"B\"); frame.srcdoc = \"<html><head></head><body>B</body></html>\";"

        class VfDepC(Component):
            template = "<i>C</i>"
            css = ".vf-c::after{content:\"ž✓ </body>\"}"

            class Media:
                css = {"print": ["vf/c-print.css"]}

        class VfDepD(Component):
            template = "<b>D</b>"

        class VfPhIn(Component):
            template = "<p>{% component_css_dependencies %}|{% component_js_dependencies %}</p>"

        class VfPhRoot(Component):
            template = "{% component_css_dependencies %}{% component_js_dependencies %}"

        class VfPhOuter(Component):
            template = "{% component 'vf_c08_ph_root' / %}"

        self.classes = {"A": VfDepA, "B": VfDepB, "C": VfDepC, "D": VfDepD}
        self._keep = [VfPhIn, VfPhRoot, VfPhOuter]
        for name, c in [("vf_c08_a", VfDepA), ("vf_c08_b", VfDepB), ("vf_c08_c", VfDepC), ("vf_c08_d", VfDepD),
                        ("vf_c08_ph_in", VfPhIn), ("vf_c08_ph_root", VfPhRoot), ("vf_c08_ph_outer", VfPhOuter)]:
            registry.register(name, c)

        # real marker comments (ids are random per render: replaced by a slot, refilled from the seeded rng)
        self.marker_form: Dict[str, str] = {}
        for label, c in self.classes.items():
            html = Template("{% component '" + "vf_c08_" + label.lower() + "' / %}").render(Context({}))
            m = R_MARKER_FULL.search(html)
            if not m or not m.group(1).startswith(c.__name__):
                raise MachineryError(f"no dependency marker in the rendering of {c.__name__}: {html!r}")
            self.marker_form[label] = html[m.start():m.start(2)] + ID_SLOT + html[m.end(2):m.end()]

        # what the two placeholder tags really render to, in a plain template and inside components
        forms: Dict[Tuple[str, str], List[str]] = {("cssph", "one"): [], ("cssph", "multi"): [],
                                                   ("jsph", "one"): [], ("jsph", "multi"): []}
        sources = [Template("{% component_css_dependencies %}{% component_js_dependencies %}").render(Context({})),
                   VfPhIn.render(render_dependencies=False), VfPhRoot.render(render_dependencies=False),
                   VfPhOuter.render(render_dependencies=False)]
        for html in sources:
            for kind, rx in (("cssph", R_CSSPH), ("jsph", R_JSPH)):
                for m in rx.finditer(html):
                    s = m.group(0)
                    n = len(re.findall(r"data-djc-id-\w{6}", s))
                    form = re.sub(r"(data-djc-id-)\w{6}", lambda k: k.group(1) + ID_SLOT, s)
                    variant = "one" if n <= 1 else "multi"
                    if form not in forms[(kind, variant)]:
                        forms[(kind, variant)].append(form)
        self.ph_forms = forms
        for k, v in forms.items():
            if not v:
                self.unavailable.append(f"placeholder form {k}")
        if not forms[("cssph", "one")] or not forms[("jsph", "one")]:
            raise MachineryError("the placeholder tags render to nothing recognisable")
        self._blocks: Dict[Tuple[str, ...], Any] = {}
        self.calib_mismatch: List[str] = []
        # texts each class contributes verbatim to the block of a kind (the expectation is the text itself)
        self.pay: Dict[str, List[Tuple[str, str]]] = {
            "A": [("js", VfDepA.js), ("css", VfDepA.css)], "B": [("js", VfDepB.js)], "C": [("css", VfDepC.css)], "D": []}
        self.family: List[str] = []          # payload classes of the bounded alphabet (from TLC)
        self.family_long: List[str] = []     # payload classes of the random driver
        self.marker_pool: List[str] = []     # what the abstract marker symbol "A" may be concretised as, besides A

    # ---- payload classes
    def payload_class(self, units: List[str]) -> str:
        """A real component class whose js, css and safe Media tags carry the payload; returns its label."""
        import zlib
        from django.template import Context, Template
        from django.utils.safestring import mark_safe
        from django_components import Component, registry
        label = "P:" + ".".join(units)
        if label in self.classes:
            return label
        text = "".join(UNIT_TEXT[u] for u in units)
        h = zlib.crc32(label.encode())
        ident = "_".join(units) or "empty"
        js = JS_WRAP[h % len(JS_WRAP)].replace("%s", text)
        css = CSS_WRAP[(h >> 8) % len(CSS_WRAP)].replace("%s", text)
        mjs = "<script src=\"/vf/p/%s.js\" data-p='%s'></script>" % (ident, text)
        mcss = "<link href=\"/vf/p/%s.css\" data-p='%s' rel=\"stylesheet\">" % (ident, text)
        pay = [("js", js), ("css", css)]
        body: Dict[str, Any] = {"template": "<u>P</u>", "js": js, "css": css}
        if (h >> 16) % 2:
            body["Media"] = type("Media", (), {"js": [mark_safe(mjs)], "css": [mark_safe(mcss)]})
            pay += [("js", mjs), ("css", mcss)]
        c = type("VfDepP_" + ident, (Component,), body)
        name = "vf_c08_p_" + ident.lower() + "_%08x" % h
        registry.register(name, c)
        html = Template("{% component '" + name + "' / %}").render(Context({}))
        m = R_MARKER_FULL.search(html)
        if not m or not m.group(1).startswith(c.__name__):
            raise MachineryError(f"no dependency marker in the rendering of {c.__name__}: {html!r}")
        self.marker_form[label] = html[m.start():m.start(2)] + ID_SLOT + html[m.end(2):m.end()]
        self.classes[label] = c
        self.pay[label] = pay
        return label

    def install_family(self, payloads: List[List[str]]) -> None:
        self.family = [self.payload_class(list(u)) for u in payloads]

    def pays(self, labels: Tuple[str, ...]) -> List[Tuple[str, str]]:
        out: List[Tuple[str, str]] = []
        for l in dict.fromkeys(labels):
            out += self.pay[l]
        return out

    # ---- concrete texts
    def marker(self, label: str, rid: str) -> str:
        return self.marker_form[label].replace(ID_SLOT, rid)

    def blocks(self, labels: Tuple[str, ...]) -> Tuple[str, str, str]:
        """(css, js, frag) generated for this marker sequence, taken from the real output."""
        if labels in self._blocks:
            if isinstance(self._blocks[labels], Calibration):
                raise self._blocks[labels]
            return self._blocks[labels]
        dd = self.dd
        mseg = [{"t": "marker", "v": l, "s": self.marker(l, "cAL1b%d" % (i % 10))} for i, l in enumerate(labels)]
        ms = "".join(x["s"] for x in mseg)
        sep = "\x02"
        cssph, jsph = self.ph_forms[("cssph", "one")][0].replace(ID_SLOT, "cAL1bp"), self.ph_forms[("jsph", "one")][0].replace(ID_SLOT, "cAL1bq")
        tx = {"t": "txt", "v": "-", "s": sep}
        docs = [("document", mseg + [tx, {"t": "cssph", "v": "one", "s": cssph}, tx, {"t": "jsph", "v": "one", "s": jsph}, tx]),
                ("document", mseg + [tx, {"t": "head", "v": "lc", "s": "</head>"}, tx, {"t": "body", "v": "lc", "s": "</body>"}, tx]),
                ("fragment", mseg)]
        got: List[Any] = []
        for mode, segs in docs:
            try:
                got.append(dd.render_dependencies("".join(x["s"] for x in segs), type=mode))
            except Exception as e:  # the real code failed on a document of the quantified class
                cal = Calibration(f"render_dependencies raised {type(e).__name__}: {str(e)[:120]} on the marker-only "
                                  f"{mode} for markers {labels}")
                cal.case = {"kind": "call", "segs": segs, "mode": mode, "via": "direct", "ity": "str", "enc": "utf-8", "flavour": 0}
                self._blocks[labels] = cal
                raise cal
        a, b, frag = got[0].split(sep), got[1].split(sep), got[2]
        if len(a) != 4:
            raise Calibration(f"blocks not isolated for markers {labels}: {a!r}")
        css, js = a[1], a[2]
        if a[0] or a[3] or len(b) != 4 or b[0] or b[3] or (b[1], b[2]) != (css + "</head>", js + "</body>"):
            # a marker-only document with the two placeholders / with `</head>` and `</body>` must come out
            # as exactly the two blocks at those places: reported as a violation by core(); the blocks of
            # the placeholder route are used to carry on
            self.calib_mismatch.append(f"marker-only document for markers {labels}: with placeholders -> {a!r}, "
                                       f"with default locations -> {b!r}")
        if not isinstance(frag, str):
            raise Calibration(f"fragment block is not a str for markers {labels}: {frag!r}")
        if any(R_MARK.search(x) or R_CSSPH.search(x) or R_JSPH.search(x) for x in (css, js, frag)):
            self.calib_mismatch.append(f"generated blocks contain markers / placeholders for markers {labels}: "
                                       f"{(css, js, frag)!r}")
        self._blocks[labels] = (css, js, frag)
        return self._blocks[labels]


def _rid(rnd: random.Random) -> str:
    return "".join(rnd.choice(ID_ALPHABET) for _ in range(6))


def _spell(how: str, name: str) -> str:
    if how == "upper":
        return name.upper()
    if how == "title":
        return name.title()
    return name[0] + name[1:].upper()


def _random_text(rnd: random.Random) -> str:
    alph = rnd.choice(["abc <>/%{}&;\"'\n=-!", "abéüž日本 <>/", "xyz\U0001F642\U0001D518✓ </", "head/<>bdyo "])
    return "".join(rnd.choice(alph) for _ in range(rnd.randint(1, 24)))


def seg_text(w: World, code: str, rnd: random.Random, style: str) -> Dict[str, str]:
    """One abstract segment -> {t, v, s}.  style: ascii | uni | special | latin1 | mixed."""
    if code == "T":
        if style == "ascii":
            s = rnd.choice(TXT_ASCII)
        elif style == "uni":
            s = rnd.choice(TXT_UNI + TXT_ASCII[:3])
        elif style == "special":
            s = rnd.choice(TXT_SPECIAL + TXT_LOOKALIKE)
        elif style == "latin1":
            s = rnd.choice(TXT_LATIN1)
        else:
            x = rnd.random()
            s = rnd.choice(TXT_ASCII) if x < .25 else rnd.choice(TXT_UNI) if x < .5 else \
                rnd.choice(TXT_SPECIAL + TXT_LOOKALIKE) if x < .8 else _random_text(rnd)
        return {"t": "txt", "v": "-", "s": s}
    if code[0] in "HB":
        name = "head" if code[0] == "H" else "body"
        if code[1] == "l":
            form = END_LC[0] if style == "ascii" else rnd.choice(END_LC)
            return {"t": name, "v": "lc", "s": form % name}
        how, form = rnd.choice(END_UC)
        return {"t": name, "v": "uc", "s": form % _spell(how, name)}
    if code[0] in "CJ":
        kind = "cssph" if code[0] == "C" else "jsph"
        variant = "multi" if code.endswith("m") else "one"
        if not code.endswith("m") and style in ("special", "mixed") and rnd.random() < 0.04:
            variant = "multi"
        forms = w.ph_forms[(kind, variant)] or w.ph_forms[(kind, "one")]
        if not w.ph_forms[(kind, variant)]:
            variant = "one"
        form = forms[0] if style == "ascii" else rnd.choice(forms)
        while ID_SLOT in form:
            form = form.replace(ID_SLOT, _rid(rnd), 1)
        return {"t": kind, "v": variant, "s": form}
    if code[0] == "M":
        label = code[1]
        # the abstract symbol "A" (a component with js, css and Media): class A or one of the payload classes
        if label == "A" and style != "ascii" and w.marker_pool and rnd.random() < 0.5:
            label = rnd.choice(w.marker_pool)
        return {"t": "marker", "v": label, "s": w.marker(label, _rid(rnd))}
    raise MachineryError(f"unknown segment code {code}")


def sane(segs: List[Dict[str, str]]) -> bool:
    """The concatenation contains exactly the tokens the segments say (nothing forms across a boundary)."""
    text = "".join(s["s"] for s in segs)
    want, pos = [], 0
    for s in segs:
        if s["t"] != "txt":
            want.append((pos, pos + len(s["s"]), {"head": "end", "body": "end"}.get(s["t"], s["t"])))
        pos += len(s["s"])
    got = [(m.start(), m.end(), "end") for m in R_END.finditer(text)]
    got += [(m.start(), m.end(), "cssph") for m in R_CSSPH.finditer(text)]
    got += [(m.start(), m.end(), "jsph") for m in R_JSPH.finditer(text)]
    marks = [m.start() for m in R_MARK.finditer(text)]
    if marks != [a for a, _, k in want if k == "marker"]:
        return False
    return sorted(got) == sorted(x for x in want if x[2] != "marker")


def concretise(w: World, codes: List[str], rnd: random.Random, style: str) -> List[Dict[str, str]]:
    for _ in range(50):
        segs = [seg_text(w, c, rnd, style) for c in codes]
        if sane(segs):
            return segs
    raise MachineryError(f"cannot concretise {codes} unambiguously in style {style}")


# ===================================================================== driving the real code
def observe(w: World, segs: List[Dict[str, str]], mode: str, via: str, ity: str, enc: str, flavour: int) -> Dict[str, Any]:
    """Run the real code on the concretised document.  Returns res / out (raw) / oty / same."""
    from django.http import HttpResponse, StreamingHttpResponse
    from django.utils.safestring import SafeString, mark_safe
    from django_components.middleware import ComponentDependencyMiddleware
    dd = w.dd
    text = "".join(s["s"] for s in segs)
    obs: Dict[str, Any] = {"res": "ok", "out": None, "oty": "none", "same": True}
    try:
        if via == "direct":
            x: Any = text if ity == "str" else mark_safe(text) if ity == "safe" else text.encode(enc)
            if mode == "document" and flavour % 2:
                o = dd.render_dependencies(x)             # type= defaults to "document"
            else:
                o = dd.render_dependencies(x, type=mode)
        else:
            body = text.encode(enc)
            cs = "utf-8" if enc == "utf-8" else "iso-8859-1"
            if via == "mw_other":
                ct = ["application/json", f"text/plain; charset={cs}", "text/css", "application/xml", "text/javascript"][flavour % 5]
            else:
                ct = f"text/html; charset={cs}" if (flavour % 3 or enc != "utf-8") else "text/html"
            if via == "mw_stream":
                cut = len(body) // 2
                resp: Any = StreamingHttpResponse(iter([body[:cut], body[cut:]]), content_type=ct)
            else:
                resp = HttpResponse(body, content_type=ct, status=404 if flavour % 5 == 4 else 200)
            before = sorted(resp.items()) + [("status", resp.status_code)]
            if flavour % 4 == 3:
                async def get_response(request):
                    return resp
                r = asyncio.run(ComponentDependencyMiddleware(get_response)(w.request))
            else:
                r = ComponentDependencyMiddleware(lambda request: resp)(w.request)
            obs["same"] = bool(r is resp and sorted(r.items()) + [("status", r.status_code)] == before)
            if isinstance(r, StreamingHttpResponse):
                o = b"".join(r.streaming_content)
            else:
                o = r.content
    except Exception as e:  # the specification never raises
        obs["res"] = "exc:" + type(e).__name__
        obs["detail"] = str(e)[:200]
        return obs
    obs["out"] = o
    obs["oty"] = "safe" if isinstance(o, SafeString) else "str" if type(o) is str else \
        "bytes" if type(o) is bytes else "other:" + type(o).__name__
    return obs


def labels_of(segs: List[Dict[str, str]]) -> Tuple[str, ...]:
    return tuple(s["v"] for s in segs if s["t"] == "marker")


def join_tokens(tokens: List[int], segs: List[Dict[str, str]], blocks: Tuple[str, str, str]) -> str:
    css, js, frag = blocks
    return "".join(segs[t - 1]["s"] if t > 0 else css if t == TOK_CSS else js if t == TOK_JS else frag for t in tokens)


def conforms(obs: Dict[str, Any], expected: Iterable[str], via: str, ity: str, enc: str) -> bool:
    """Byte-for-byte comparison of the observation with the concretised specification results."""
    if obs["res"] != "ok":
        return False
    want_ty = ity if via == "direct" else "bytes"
    if obs["oty"] != want_ty:
        return False
    if via in ("mw_other", "mw_stream") and not obs["same"]:
        return False
    out = obs["out"]
    if want_ty == "bytes":
        return any(out == e.encode(enc) for e in expected)
    return any(out == e for e in expected)


def not_carried(w: World, labels: Tuple[str, ...], blocks: Tuple[str, str, str]) -> set:
    """Block kinds that lack one of the texts the classes contribute verbatim (fast filter; TLC adjudicates)."""
    return {k for k, t in w.pays(labels) if t not in blocks[BLOCK_OF[k]]}


def inserted_kinds(token_lists: Iterable[List[int]]) -> set:
    """Kinds that every admissible result inserts (DepsInsert!InsertedKinds, from the exported results)."""
    lists = list(token_lists)
    return {k for k, tok in (("css", TOK_CSS), ("js", TOK_JS)) if lists and all(tok in t for t in lists)}


# ---- projection to TLC strings: one character per code point (or per byte for non-UTF-8 bodies)
class Projection:
    def __init__(self, bytewise: bool):
        self.bytewise = bytewise
        self.astral: Dict[str, str] = {}

    def s(self, x: Any) -> str:
        if self.bytewise:
            b = x.encode("utf-8") if isinstance(x, str) else x
            return b.decode("latin-1")
        t = x.decode("utf-8") if isinstance(x, bytes) else str(x)
        if any(ord(c) > 0xFFFF or 0xE000 <= ord(c) <= 0xF8FF for c in t):
            t = "".join(self._map(c) for c in t)
        return t

    def _map(self, c: str) -> str:
        if ord(c) <= 0xFFFF and not 0xE000 <= ord(c) <= 0xF8FF:
            return c
        if c not in self.astral:
            self.astral[c] = chr(0xE000 + len(self.astral))
        return self.astral[c]


def trace_record(w: World, tid: int, segs, mode: str, via: str, ity: str, enc: str, obs: Dict[str, Any]) -> Dict[str, Any]:
    """The record of one call for Trace_C08.  Raises Calibration if the blocks cannot be had, unless the
    call itself raised (then the blocks do not matter: the record fails on `raised`)."""
    text = "".join(s["s"] for s in segs)
    is_bytes = not (via == "direct" and ity != "bytes")
    utf8 = True
    if is_bytes:
        try:
            text.encode(enc).decode("utf-8")
        except UnicodeDecodeError:
            utf8 = False
    bytewise = is_bytes and not utf8
    out = obs["out"]
    if is_bytes and not bytewise and isinstance(out, bytes):
        try:
            out.decode("utf-8")
        except UnicodeDecodeError:
            bytewise = True
    p = Projection(bytewise)
    try:
        css, js, frag = w.blocks(labels_of(segs))
    except Calibration:
        if obs["res"] == "ok":
            raise
        css, js, frag = "", "", ""

    def seg_s(s: str) -> str:
        # a latin-1 body: the bytes of a segment are its text encoded in latin-1
        return p.s(s.encode(enc)) if (bytewise and enc != "utf-8") else p.s(s)
    rec = {"id": tid, "mode": mode, "via": via, "ity": ity if via == "direct" else "bytes",
           "segs": [{"t": s["t"], "v": s["v"], "s": seg_s(s["s"])} for s in segs],
           "css": p.s(css), "js": p.s(js), "frag": p.s(frag),
           "jsh": [m.start() for m in re.finditer(r"</head\s*>", p.s(js))],
           "cssb": [m.start() for m in re.finditer(r"</body\s*>", p.s(css))],
           "res": obs["res"], "oty": obs["oty"], "same": bool(obs["same"]), "utf8": utf8,
           "out": "" if out is None else p.s(out) if isinstance(out, (str, bytes)) else repr(out)}
    rec["pay"] = [{"k": k, "s": p.s(t), "at": rec[k].find(p.s(t))} for k, t in w.pays(labels_of(segs))]
    return rec


DEV_ORDER = ["offset", "multiattr", "nonutf8", "blocktag"]


def parse_verdicts(r: tlc.TlcResult, n: int, what: str) -> Dict[int, Tuple[str, str]]:
    """id -> (ACCEPT|DEV|REJECT, finding key | failing clauses).  TLC may wrap long tuples over lines."""
    out: Dict[int, Tuple[str, str]] = {}
    for m in re.finditer(r'<<\s*"(ACCEPT|DEV|REJECT)",\s*(\d+)\s*(?:,\s*\{([^}]*)\}\s*)?>>', r.out):
        kind, tid = m.group(1), int(m.group(2))
        names = sorted(re.findall(r'"(\w+)"', m.group(3) or ""))
        if kind == "DEV":
            if not names or any(x not in KEYS for x in names):
                raise MachineryError(f"{what}: unknown deviation names {names}")
            out[tid] = ("DEV", "+".join(KEYS[x] for x in DEV_ORDER if x in names))
        else:
            out[tid] = (kind, ",".join(names))
    if len(out) != n:
        tail = "\n".join(r.out.splitlines()[-40:])
        raise MachineryError(f"{what}: {len(out)} verdicts for {n} records\n{tail}")
    return out


def tlc_validate(records: List[Dict[str, Any]], what: str, batch: int = 3000) -> Tuple[Dict[int, Tuple[str, str]], int]:
    """Trace_C08 on the records (ids must be 1..n in order)."""
    w = workdir("c08tr")
    verdicts: Dict[int, Tuple[str, str]] = {}
    states = 0
    cfg = w / "trace.cfg"
    cfg.write_text("SPECIFICATION TrSpec\n")
    for k in range(0, len(records), batch):
        part = records[k:k + batch]
        f = w / f"tr_{k}.ndjson"
        tlc.write_ndjson(f, part)
        r = tlc.require_ok(tlc.run("Trace_C08", str(cfg), env={"IN": str(f)}, workers=1), f"Trace_C08 {what}")
        states += r.distinct
        got = parse_verdicts(r, len(part), what)
        if set(got) != {p["id"] for p in part}:
            raise MachineryError(f"{what}: verdict ids do not match record ids")
        verdicts.update(got)
    return verdicts, states


# ===================================================================== spec -> code
def plan_calls(rnd: random.Random, rnd_round: int) -> List[Tuple[str, str, str]]:
    """(mode, via, ity) for one concretisation of one exported document."""
    calls = [("document", "direct", t) for t in ("str", "bytes", "safe")]
    calls.append(("fragment", "direct", ("str", "bytes", "safe")[rnd_round % 3]))
    calls.append(("document", "mw_html", "bytes"))
    calls.append(("document", rnd.choice(["mw_other", "mw_stream"]), "bytes"))
    return calls


STYLES = ["ascii", "uni", "special", "mixed"]


def replay_rows(args) -> Dict[str, Any]:
    """Worker: replay a slice of exported documents on the real code."""
    rows, base, seed, rounds = args
    w = World.get()
    res = {"n": 0, "digests": [], "trivial": 0, "mismatch": [], "samples": [], "calib": [], "pay_calls": 0, "pay_met": set()}
    for k, row in enumerate(rows):
        codes = row["doc"]
        trivial = all(c == "T" for c in codes)
        for rd in range(rounds):
            rnd = random.Random((seed * 1000003 + base + k) * 7 + rd)
            style = STYLES[rd % len(STYLES)]
            segs = concretise(w, codes, rnd, style)
            try:
                blocks = w.blocks(labels_of(segs))
            except Calibration as e:
                res["calib"].append((str(e), e.case))
                continue
            lost = not_carried(w, labels_of(segs), blocks)
            need = inserted_kinds(row["document"]) & lost if lost else set()
            res["pay_calls"] += int(any(l.startswith("P:") for l in labels_of(segs)))
            res["pay_met"].update(l for l in labels_of(segs) if l.startswith("P:"))
            exp = {"document": {join_tokens(t, segs, blocks) for t in row["document"]},
                   "fragment": {join_tokens(t, segs, blocks) for t in row["fragment"]},
                   "pass": {join_tokens(row["pass"], segs, blocks)}}
            for j, (mode, via, ity) in enumerate(plan_calls(rnd, rd)):
                flavour = rnd.randrange(12)
                obs = observe(w, segs, mode, via, ity, "utf-8", flavour)
                e = exp["pass"] if via in ("mw_other", "mw_stream") else exp["document" if via == "mw_html" else mode]
                res["n"] += 1
                if trivial:
                    res["trivial"] += 1
                else:
                    res["digests"].append(f"{'.'.join(codes)}|{rd}|{mode}|{via}|{ity}")
                if not conforms(obs, e, via, ity, "utf-8") or \
                        (need and obs["res"] == "ok" and (via == "mw_html" or (via == "direct" and mode == "document"))):
                    res["mismatch"].append({"segs": segs, "mode": mode, "via": via, "ity": ity, "enc": "utf-8",
                                            "flavour": flavour, "codes": codes})
                elif len(res["samples"]) < 2 and not trivial and rd == 1 and j == 0:
                    res["samples"].append({"doc": codes, "input": "".join(s["s"] for s in segs), "mode": mode,
                                           "type": ity, "output": obs["out"] if isinstance(obs["out"], str) else repr(obs["out"])})
    return res


MAX_PAY = 2      # longest carried text of the exhaustive alphabet, in units (1 + 13 + 169 payloads)


def mc_cfg(path, maxlen: int, export: bool, refine: bool = True, maxpay: int = MAX_PAY) -> None:
    inv = ["Thm_OnlyDocumentedEdits", "Thm_InsertionsDocumented", "Thm_PlaceholderEquivalence", "Thm_ZoneIsNarrow",
           "Thm_PassThrough", "Thm_PayloadSitesDocumented"]
    if refine:
        inv += ["FixedRefines", "RefinesExactlyOutsideDeviations", "Thm_BlocksContiguous"]
    if export:
        inv += ["ExportPayloads", "Export"]
    path.write_text("SPECIFICATION MCSpec\nCONSTANTS\n  MaxLen = %d\n  MaxPay = %d\n  PhVariants = %s\n%s\n" % (
        maxlen, maxpay, '{"one"}' if export else '{"one", "multi"}', "\n".join("INVARIANT " + i for i in inv)))


def adjudicate(chk: Check, w: World, mism: List[Dict[str, Any]], what: str) -> None:
    """Every mismatch goes to TLC: named deviation (-> finding key) or violation."""
    if not mism:
        return
    if chk.silent:
        mism = mism[:400]          # probes: a sample is enough to decide killed / survived
    recs, kept, errs = [], [], []
    for m in mism:
        obs = observe(w, m["segs"], m["mode"], m["via"], m["ity"], m["enc"], m["flavour"])
        try:
            recs.append(trace_record(w, len(recs) + 1, m["segs"], m["mode"], m["via"], m["ity"], m["enc"], obs))
            kept.append(m)
        except Calibration as e:
            errs.append(e)
    calibration_failed(chk, w, errs)
    mism = kept
    if not recs:
        return
    verdicts, _ = tlc_validate(recs, what)
    for i, m in enumerate(mism):
        kind, info = verdicts[i + 1]
        case = {"kind": "call", "segs": m["segs"], "mode": m["mode"], "via": m["via"], "ity": m["ity"],
                "enc": m["enc"], "flavour": m["flavour"]}
        rec = recs[i]
        detail = {"verdict": kind, "info": info, "input": "".join(s["s"] for s in m["segs"]),
                  "observed": rec["out"] if rec["res"] == "ok" else rec["res"], "observed_type": rec["oty"]}
        if kind == "ACCEPT":
            raise MachineryError(f"{what}: harness comparison and TLC disagree on {case}")
        chk.add("mismatches_adjudicated_by_tlc")
        if kind == "DEV":
            chk.add("dev:" + info)
        else:
            chk.add("rejected:" + info)
        chk.violation(case, detail, key=info if kind == "DEV" else None)


def calibration_failed(chk: Check, w: World, errs: Iterable[Calibration]) -> None:
    """The blocks could not be had.  If the real code raised on the calibration document, that call is the
    failing case (adjudicated by TLC like any other call, one batch); otherwise the old calibration violation."""
    seen, cases = set(), []
    for e in errs:
        if str(e) in seen:
            continue
        seen.add(str(e))
        if e.case is None:
            chk.violation({"kind": "calibration"}, str(e))
        elif len(cases) < (3 if chk.silent else 40):
            cases.append((e, e.case))
    recs = []
    for e, case in cases:
        obs = observe(w, case["segs"], case["mode"], case["via"], case["ity"], case["enc"], case["flavour"])
        if obs["res"] == "ok":
            raise MachineryError(f"calibration call raised once and not again: {e}")
        recs.append((trace_record(w, len(recs) + 1, case["segs"], case["mode"], case["via"], case["ity"], case["enc"], obs), obs))
    if not recs:
        return
    verdicts, _ = tlc_validate([r for r, _ in recs], "calibration calls")
    for i, (e, case) in enumerate(cases):
        kind, info = verdicts[i + 1]
        rec, obs = recs[i]
        if kind == "ACCEPT":
            raise MachineryError(f"TLC accepts a call that raised: {e}")
        chk.add("mismatches_adjudicated_by_tlc")
        chk.violation(case, {"verdict": kind, "info": info, "input": "".join(x["s"] for x in case["segs"]),
                             "observed": rec["res"], "observed_detail": obs.get("detail"), "observed_type": rec["oty"]},
                      key=info if kind == "DEV" else None)


_EXPORTS: Dict[int, Tuple[List[Dict[str, Any]], int, int]] = {}
_PAYLOADS: Dict[int, List[List[str]]] = {}


def _read_payloads(path, maxpay: int) -> List[List[str]]:
    rows = tlc.read_ndjson(path)
    if len(rows) != 1 or not rows[0].get("payloads"):
        raise MachineryError(f"payload alphabet not exported: {rows!r:.200}")
    out = []
    for r in rows[0]["payloads"]:
        if r["carried"] != r["units"] or any(u not in UNIT_TEXT for u in r["units"]):
            # the specification carries every payload as it is; anything else here is a harness/spec mismatch
            raise MachineryError(f"payload row the harness cannot concretise: {r}")
        out.append(list(r["units"]))
    out.sort(key=lambda u: (len(u), u))
    if len(out) != sum(len(UNIT_TEXT) ** k for k in range(maxpay + 1)):
        raise MachineryError(f"payload alphabet incomplete: {len(out)} rows")
    return out


def payload_alphabet(maxpay: int = MAX_PAY) -> List[List[str]]:
    """Every carried text of <= maxpay units, from TLC (a run on the empty document if no export has run yet)."""
    if maxpay not in _PAYLOADS:
        wd = workdir("c08pay")
        cfg, out, pay = wd / "pay.cfg", wd / "docs.ndjson", wd / "pay.ndjson"
        mc_cfg(cfg, 0, export=True, refine=False, maxpay=maxpay)
        tlc.require_ok(tlc.run("MC_C08", str(cfg), workers=1, env={"OUT": str(out), "PAY": str(pay)}), "MC_C08 payload export")
        _PAYLOADS[maxpay] = _read_payloads(pay, maxpay)
    return _PAYLOADS[maxpay]


def refinement(chk: Check, maxlen: int, workers: int) -> None:
    """Theorems of layer A and B-refines-A with both placeholder variants in the alphabet (no export)."""
    wd = workdir("c08rf")
    cfg = wd / "refine.cfg"
    mc_cfg(cfg, maxlen, export=False)
    r = tlc.require_ok(tlc.run("MC_C08", str(cfg), workers=workers), "MC_C08 refinement")
    chk.add("states", r.distinct)
    chk.add("transitions", r.generated)
    chk.cov["refinement_documents"] = r.distinct
    chk.cov["refinement_max_len"] = maxlen


def export_docs(maxlen: int) -> Tuple[List[Dict[str, Any]], int, int]:
    """Every document of <= maxlen segments with its admissible results, from TLC."""
    if maxlen not in _EXPORTS:
        wd = workdir("c08mc")
        cfg, out, pay = wd / "export.cfg", wd / "docs.ndjson", wd / "pay.ndjson"
        mc_cfg(cfg, maxlen, export=True, refine=False)
        r = tlc.require_ok(tlc.run("MC_C08", str(cfg), workers=1, env={"OUT": str(out), "PAY": str(pay)}), "MC_C08 export")
        _PAYLOADS.setdefault(MAX_PAY, _read_payloads(pay, MAX_PAY))
        rows = tlc.read_ndjson(out)
        if len(rows) != r.distinct:
            raise MachineryError(f"export incomplete: {len(rows)} rows for {r.distinct} states")
        _EXPORTS[maxlen] = (rows, r.distinct, r.generated)
    return _EXPORTS[maxlen]


def model_check_and_replay(chk: Check, maxlen: int, rounds: int, procs: int) -> None:
    w = World.get()
    rows, distinct, generated = export_docs(maxlen)
    chk.add("states", distinct)
    chk.add("transitions", generated)
    chk.cov["documents_exported"] = len(rows)
    w.install_family(payload_alphabet())
    w.marker_pool = list(w.family)
    chk.cov["payload_classes_exhaustive"] = len(w.family)
    # warm the calibration cache before forking (all marker sequences of the plain classes that occur)
    try:
        for row in rows:
            w.blocks(tuple(c[1] for c in row["doc"] if c[0] == "M"))
    except Calibration as e:
        calibration_failed(chk, w, [e])
        return
    size = max(50, len(rows) // (procs * 6) + 1)
    jobs = [(rows[i:i + size], i, chk.seed, rounds) for i in range(0, len(rows), size)]
    if procs > 1 and len(rows) > 1500:
        import multiprocessing as mp
        with mp.get_context("fork").Pool(procs) as pool:
            results = pool.map(replay_rows, jobs)
    else:
        results = [replay_rows(j) for j in jobs]
    mism: List[Dict[str, Any]] = []
    for res in results:
        chk.evals += res["n"]
        for d in res["digests"]:
            chk._distinct.add(d)
        mism += res["mismatch"]
        for smp in res["samples"]:
            chk.sample({"replayed": smp}, limit=4)
    errs = []
    for res in results:
        for msg, case in res["calib"]:
            cal = Calibration(msg)
            cal.case = case
            errs.append(cal)
    calibration_failed(chk, w, errs)
    chk.add("calls_replayed", sum(x["n"] for x in results))
    chk.add("concretisations_with_payload_classes", sum(x["pay_calls"] for x in results))
    chk.cov["payload_classes_met_in_replay"] = len(set().union(*[x["pay_met"] for x in results]))
    adjudicate(chk, w, mism, "replay mismatches")


# ===================================================================== code -> spec
def random_codes(rnd: random.Random) -> List[str]:
    shape = rnd.random()
    if shape < 0.25:        # a page-like skeleton with noise
        codes = ["T"] + ["M" + rnd.choice("ABCD") for _ in range(rnd.randint(0, 2))] + ["T", "Hl", "T"] + \
                ["M" + rnd.choice("ABCD") for _ in range(rnd.randint(0, 3))] + ["T", "Bl", "T"]
        for _ in range(rnd.randint(0, 4)):
            codes.insert(rnd.randrange(len(codes) + 1), rnd.choice(["T", "Hl", "Bl", "Hu", "Bu", "C", "J", "MA", "MB"]))
        return codes
    n = rnd.choice([0, 1, 2, 3, 5, 7, 9, 11, 13, 16]) if shape < 0.9 else rnd.randint(6, 16)
    weights = [("T", 34), ("Hl", 11), ("Bl", 11), ("Hu", 4), ("Bu", 4), ("C", 6), ("J", 6), ("Cm", 1), ("Jm", 1),
               ("MA", 8), ("MB", 5), ("MC", 5), ("MD", 4)]
    pool = [c for c, k in weights for _ in range(k)]
    return [rnd.choice(pool) for _ in range(n)]


def record_random(w: World, rnd: random.Random, tid: int) -> Tuple[Dict[str, Any], Dict[str, Any]]:
    codes = random_codes(rnd)
    x = rnd.random()
    via = "direct" if x < 0.62 else "mw_html" if x < 0.82 else "mw_other" if x < 0.91 else "mw_stream"
    mode = rnd.choice(MODES) if via == "direct" else "document"
    ity = rnd.choice(["str", "bytes", "safe"]) if via == "direct" else "bytes"
    enc = "utf-8"
    style = rnd.choice(["mixed", "mixed", "special", "uni", "ascii"])
    if ity == "bytes" and rnd.random() < 0.12:
        enc, style = "latin-1", "latin1"
    segs = concretise(w, codes, rnd, style)
    flavour = rnd.randrange(12)
    try:
        w.blocks(labels_of(segs))
    except Calibration as e:
        if e.case is None:
            raise
        # the calibration call raised: that call is the recorded one (a document of the quantified class)
        c = e.case
        segs, mode, via, ity, enc, flavour = c["segs"], c["mode"], c["via"], c["ity"], c["enc"], c["flavour"]
    obs = observe(w, segs, mode, via, ity, enc, flavour)
    rec = trace_record(w, tid, segs, mode, via, ity, enc, obs)
    case = {"kind": "call", "segs": segs, "mode": mode, "via": via, "ity": ity, "enc": enc, "flavour": flavour}
    return rec, case


def validate_random(chk: Check, n: int) -> None:
    w = World.get()
    rnd = random.Random(chk.seed * 6151 + 8)
    # beyond the exhaustive bound: payload classes with longer carried texts
    units = sorted(UNIT_TEXT)
    w.install_family(payload_alphabet())
    w.family_long = [w.payload_class([rnd.choice(units) for _ in range(rnd.randint(MAX_PAY + 1, 6))]) for _ in range(max(12, n // 60))]
    w.marker_pool = w.family + w.family_long * 3
    chk.cov["payload_classes_random"] = len(set(w.family_long))
    recs, cases = [], []
    try:
        for i in range(n):
            rec, case = record_random(w, rnd, i + 1)
            recs.append(rec)
            cases.append(case)
    except Calibration as e:
        calibration_failed(chk, w, [e])
        return
    verdicts, states = tlc_validate(recs, "random traces")
    chk.add("trace_states", states)
    longest = 0
    for i, case in enumerate(cases):
        kind, info = verdicts[i + 1]
        nontrivial = any(s["t"] != "txt" for s in case["segs"])
        chk.count([case["mode"], case["via"], case["ity"], case["enc"], [(s["t"], s["v"], s["s"]) for s in case["segs"]]],
                  nontrivial=nontrivial)
        longest = max(longest, len(case["segs"]))
        if kind == "ACCEPT":
            continue
        rec = recs[i]
        detail = {"verdict": kind, "info": info, "input": "".join(s["s"] for s in case["segs"]),
                  "observed": rec["out"] if rec["res"] == "ok" else rec["res"], "observed_type": rec["oty"]}
        if kind == "DEV":
            chk.add("dev:" + info)
        else:
            chk.add("rejected:" + info)
        chk.violation(case, detail, key=info if kind == "DEV" else None)
    chk.add("traces_validated_against_impl", len(recs))
    chk.add("traces_document_mode_with_carried_texts", sum(1 for r in recs if r["pay"] and r["res"] == "ok" and r["mode"] == "document"
                                                      and r["via"] in ("direct", "mw_html")))
    chk.cov["longest_random_document_segments"] = max(longest, chk.cov.get("longest_random_document_segments", 0))
    for rec in recs[3:60:19]:
        chk.sample({"validated_trace": {k: rec[k] for k in ("mode", "via", "ity", "res", "oty")},
                    "input": "".join(s["s"] for s in rec["segs"])[:300], "out": rec["out"][:300]}, limit=7)


# ===================================================================== entry points
def _procs() -> int:
    try:
        return max(1, min(8, int(os.environ.get("VERIF_PROCS", "6"))))
    except ValueError:
        return 6


def core(chk: Check, maxlen: int, rounds: int, ntraces: int) -> None:
    w = World.get()
    w._blocks.clear()                  # blocks are re-calibrated from the code as it is now
    w.calib_mismatch.clear()
    model_check_and_replay(chk, maxlen, rounds, _procs())
    validate_random(chk, ntraces)
    for msg in w.calib_mismatch[:5]:
        chk.violation({"kind": "calibration"}, msg)


def run(tier: str) -> int:
    import threading
    chk = Check(PID, tier, "model_checking")
    w = World.get()
    quick = tier == "quick"
    # the design-level run (theorems, B refines A) does not touch the code: run it beside the replay
    side = Check(PID, tier, "model_checking", silent=True)
    err: List[BaseException] = []

    def design() -> None:
        try:
            refinement(side, 4 if quick else 5, workers=min(4, _procs()))
        except BaseException as e:  # re-raised in the main thread
            err.append(e)
    th = threading.Thread(target=design)
    th.start()
    try:
        core(chk, maxlen=4 if quick else 5, rounds=3 if quick else 4, ntraces=2500 if quick else 20000)
    finally:
        th.join()
    if err:
        raise err[0]
    for k in ("states", "transitions"):
        chk.add(k, side.cov.get(k, 0))
    chk.cov["refinement_documents"] = side.cov["refinement_documents"]
    chk.cov["refinement_max_len"] = side.cov["refinement_max_len"]
    chk.cov["exhaustive"] = True
    chk.cov["channel_unavailable"] = w.unavailable
    chk.cov["rule"] = ("TLC enumerates every segment sequence of length <= N over the 9-symbol alphabet (theorems of "
                       "DepsInsert on each; layer B vs A on an 11-symbol alphabet with both placeholder variants); "
                       "every exported document is concretised `rounds` times and run through render_dependencies "
                       "(str/bytes/SafeString x document, fragment) and the middleware (html, non-html/streaming); "
                       "the marker symbol A is concretised as class A or as one of the payload classes made from the "
                       "TLC-exported alphabet of carried texts (every sequence of <= 2 units over 13 units: backslash "
                       "escapes, group references, $1 %s {0}, plain), whose js / css / safe Media tags must be in the "
                       "inserted block byte for byte; "
                       "random documents <= 16 segments (payloads <= 6 units) validated by Trace_C08 on the real strings. Non-trivial = the "
                       "document contains at least one end tag, placeholder or marker; distinct = abstract document x "
                       "round x entry point (replay) or hash of the concrete case (traces)")
    chk.assumptions += [
        "the generated CSS/JS/fragment blocks depend only on the sequence of marker classes in the document (they are "
        "calibrated from the real output of a marker-only document; their content is C04's business)",
        "recognition of end tags is either case-sensitive or case-insensitive as a whole (zone: both admitted)",
        "bytes inputs are compared per code point when they are valid UTF-8 and per byte otherwise",
        "the texts a class contributes verbatim are its Component.js, Component.css and its Media entries given as safe "
        "strings (docs: inlined <script> / <style> tag; safe strings are taken as is); the rest of a block is opaque",
    ]
    return chk.finish()


# ===================================================================== selftest
def _patched_tree(diffs: List[str]):
    """Context manager: dependencies.py with the given proposed diffs applied, in-process.  The patched
    source is executed in a scratch namespace and every top-level function / regex / string constant that
    differs is rebound in the live module (functions keep the live module's globals)."""
    import subprocess
    import types
    from contextlib import contextmanager
    from .core import REPO, ROOT

    @contextmanager
    def cm():
        import django_components.dependencies as dd
        wd = workdir("c08fix")
        rel = "src/django_components/dependencies.py"
        (wd / "src/django_components").mkdir(parents=True)
        (wd / rel).write_text((REPO / rel).read_text())
        for d in diffs:
            if not (ROOT / "proposed_fixes" / d).exists():
                continue            # applied to the tree meanwhile (`fixed:` in KNOWN_FINDINGS.txt)
            with open(ROOT / "proposed_fixes" / d) as f:
                p = subprocess.run(["patch", "-s", "-p1", "-d", str(wd)], stdin=f, capture_output=True, text=True)
            if p.returncode != 0:
                raise MachineryError(f"proposed fix {d} does not apply: {p.stdout}{p.stderr}")
        ns = dict(dd.__dict__)
        exec(compile((wd / rel).read_text(), "patched_dependencies.py", "exec"), ns)
        saved = {}
        for name, val in ns.items():
            old = dd.__dict__.get(name)
            if isinstance(val, types.FunctionType) and val.__code__.co_filename == "patched_dependencies.py" \
                    and isinstance(old, types.FunctionType):
                if (val.__code__.co_code, val.__code__.co_consts) != (old.__code__.co_code, old.__code__.co_consts):
                    saved[name] = old
                    setattr(dd, name, types.FunctionType(val.__code__, dd.__dict__, name, val.__defaults__, val.__closure__))
                    getattr(dd, name).__kwdefaults__ = val.__kwdefaults__
            elif isinstance(val, (re.Pattern, str)) and name.isupper() or name == "head_or_body_end_tag_re":
                if val != old:
                    saved[name] = old
                    setattr(dd, name, val)
        try:
            yield sorted(saved)
        finally:
            for name, old in saved.items():
                setattr(dd, name, old)
    return cm


def selftest(tier: str) -> int:
    """(i) corrupted records must be rejected by TLC with the right clause; (ii) in-process mutation
    probes (realistic bugs, never written to /repo) must each be killed; (iii) neutral variants (the
    proposed fixes, the other reading of the upper-case zone) must stay clean."""
    from contextlib import contextmanager
    from .core import run_probes
    w = World.get()
    dd = w.dd
    ok = True

    @contextmanager
    def patch(obj, name, new):
        old = getattr(obj, name)
        setattr(obj, name, new)
        try:
            yield
        finally:
            setattr(obj, name, old)

    def body(chk: Check) -> None:
        core(chk, maxlen=3, rounds=4, ntraces=700)

    # ---- (i) corrupted traces
    rnd = random.Random(808)
    recs, want = [], {}
    w.install_family(payload_alphabet())
    w.marker_pool = list(w.family)
    tries = 0
    while len(recs) < 120:
        tries += 1
        if tries > 20000:
            raise MachineryError("selftest: cannot build the corrupted records")
        rec, case = record_random(w, rnd, len(recs) + 1)
        if rec["res"] != "ok":
            continue
        k = len(recs) % 6
        if k == 5:
            # a carried text whose escapes were processed on the way into the block (block and result alike)
            cand = [(x["k"], x["s"]) for x in rec["pay"] if "\\" in x["s"] and x["at"] >= 0]
            done = False
            for kk, t in cand:
                blk = rec[kk]
                new = blk.replace(t, t.replace("\\", ""))
                if rec["mode"] == "document" and rec["via"] in ("direct", "mw_html") and blk and rec["out"].count(blk) >= 1 \
                        and not any(sg["t"] in ("head", "body") and sg["v"] == "uc" for sg in rec["segs"]):
                    rec["out"] = rec["out"].replace(blk, new)
                    rec[kk] = new
                    for x in rec["pay"]:
                        x["at"] = rec[x["k"]].find(x["s"])
                    done = True
                    break
            if not done:
                continue
            want[rec["id"]] = "payload"
        elif k == 1:
            pos = rnd.randrange(len(rec["out"]) + 1)
            rec["out"] = rec["out"][:pos] + "~" + rec["out"][pos:]
            want[rec["id"]] = "bytes"
        elif k == 2:
            rec["oty"] = {"str": "safe", "safe": "str", "bytes": "str"}[rec["oty"]] if rec["oty"] in ("str", "safe", "bytes") else "str"
            want[rec["id"]] = "type"
        elif k == 3:
            rec["res"] = "exc:ValueError"
            want[rec["id"]] = "raised"
        elif k == 4:
            if rec["via"] not in ("mw_other", "mw_stream"):
                continue
            rec["same"] = False
            want[rec["id"]] = "untouched"
        recs.append(rec)
    verdicts, _ = tlc_validate(recs, "selftest corrupted traces")
    bad = 0
    for rec in recs:
        kind, info = verdicts[rec["id"]]
        clause = want.get(rec["id"])
        if clause is None:
            continue            # uncorrupted: ACCEPT or a known deviation
        if kind == "ACCEPT" or (kind == "REJECT" and clause not in info.split(",")):
            bad += 1
    print(f"selftest {PID}: corrupted records {len(want)}, not rejected with the right clause: {bad}")
    ok = ok and bad == 0 and len(want) > 50

    # ---- (ii) mutation probes
    orig_insert = dd._insert_js_css_to_default_locations
    orig_rd = dd.render_dependencies

    def insert_variant(pick_head: str = "first", pick_body: str = "last", where: str = "before", norm=None):
        def f(html_content, js_content, css_content):
            if css_content is None and js_content is None:
                return None
            if norm:
                html_content = norm(html_content)
            hs = [m for m in dd.head_or_body_end_tag_re.finditer(html_content) if m[0][2:6] == "head"]
            bs = [m for m in dd.head_or_body_end_tag_re.finditer(html_content) if m[0][2:6] == "body"]
            h = (hs[0] if pick_head == "first" else hs[-1]) if hs and css_content is not None else None
            b = (bs[-1] if pick_body == "last" else bs[0]) if bs and js_content is not None else None
            pos = (lambda m: m.start()) if where == "before" else (lambda m: m.end())
            ins = sorted([(pos(h), 0, css_content)] if h else []) + ([(pos(b), 1, js_content)] if b else [])
            if not ins:
                return None
            out = html_content
            for at, _, x in sorted(ins, reverse=True):
                out = out[:at] + x + out[at:]
            return out
        return lambda: patch(dd, "_insert_js_css_to_default_locations", f)

    def regex(name, pattern):
        return lambda: patch(dd, name, re.compile(pattern))

    def wrap_rd(post):
        def rd(content, type="document"):
            return post(content, orig_rd(content, type), type)
        return lambda: patch(dd, "render_dependencies", rd)

    def never_shift():
        def f(html_content, js_content, css_content):
            # "repair" of the offset bug that forgets the ordinary head-before-body case
            out = orig_insert(html_content, None, css_content) or html_content
            bs = [m for m in dd.head_or_body_end_tag_re.finditer(html_content) if m[0][2:6] == "body"]
            if js_content is not None and bs:
                out = out[:bs[-1].start()] + js_content + out[bs[-1].start():]
            return out
        return patch(dd, "_insert_js_css_to_default_locations", f)

    def byte_length_offset():
        def f(html_content, js_content, css_content):
            # index arithmetic in UTF-8 bytes applied to str indices
            if css_content is None or js_content is None:
                return orig_insert(html_content, js_content, css_content)
            out = orig_insert(html_content, None, css_content)
            if out is None:
                return orig_insert(html_content, js_content, None)
            bs = [m for m in dd.head_or_body_end_tag_re.finditer(html_content) if m[0][2:6] == "body"]
            if not bs:
                return out
            at = bs[-1].start() + len(css_content.encode())
            return out[:at] + js_content + out[at:]
        return patch(dd, "_insert_js_css_to_default_locations", f)

    from django.utils.safestring import SafeString, mark_safe

    def mw_variant(pred):
        def pr(self, response):
            if pred(response):
                response.content = dd.render_dependencies(response.content, type="document")
            return response
        return lambda: patch(dd.ComponentDependencyMiddleware, "_process_response", pr)

    from django.http import StreamingHttpResponse

    def mw_streaming():
        def pr(self, response):
            if response.get("Content-Type", "").startswith("text/html"):
                if isinstance(response, StreamingHttpResponse):
                    response.streaming_content = [dd.render_dependencies(b"".join(response.streaming_content))]
                else:
                    response.content = dd.render_dependencies(response.content, type="document")
            return response
        return patch(dd.ComponentDependencyMiddleware, "_process_response", pr)

    ph = dd.PLACEHOLDER_REGEX.pattern.decode()
    cm = dd.COMPONENT_COMMENT_REGEX.pattern.decode()

    class SubOnce:
        """PLACEHOLDER_REGEX whose sub() replaces only the first placeholder of each kind."""
        def __init__(self, rx):
            self.rx, self.pattern = rx, rx.pattern

        def sub(self, fn, content):
            seen = set()

            def f(m):
                kind = b"CSS" if b"CSS_PLACEHOLDER" in m[0] else b"JS"
                if kind in seen:
                    return m[0]
                seen.add(kind)
                return fn(m)
            return self.rx.sub(f, content)

        def __getattr__(self, name):
            return getattr(self.rx, name)

    class HarvestDeduped:
        """COMPONENT_COMMENT_REGEX whose sub() leaves the 2nd, 3rd .. marker of a class in the text."""
        def __init__(self, rx):
            self.rx, self.pattern = rx, rx.pattern

        def sub(self, fn, content):
            seen = set()

            def f(m):
                cls = m.group("data").split(b",")[0]
                if cls in seen:
                    return m[0]
                seen.add(cls)
                return fn(m)
            return self.rx.sub(f, content)

        def __getattr__(self, name):
            return getattr(self.rx, name)
    class SubTemplate:
        """PLACEHOLDER_REGEX whose sub() uses what the callback returns as a replacement *template*
        (what `rx.sub(block, content)` does: escapes and group references in the block are processed)."""
        def __init__(self, rx, how):
            self.rx, self.pattern, self.how = rx, rx.pattern, how

        def sub(self, fn, content):
            if self.how == "expand":
                return self.rx.sub(lambda m: m.expand(fn(m)), content)
            if self.how == "dollar":
                return self.rx.sub(lambda m: re.sub(rb"\$(\d)", lambda d: m[0] if d[1] == b"0" else b"", fn(m)), content)
            return self.rx.sub(lambda m: fn(m).replace(b"%s", b"%").replace(b"{0}", b""), content)

        def __getattr__(self, name):
            return getattr(self.rx, name)
    probes = [
        ("placeholder-sub-block-as-re-template", lambda: patch(dd, "PLACEHOLDER_REGEX", SubTemplate(dd.PLACEHOLDER_REGEX, "expand"))),
        ("placeholder-sub-block-as-dollar-template", lambda: patch(dd, "PLACEHOLDER_REGEX", SubTemplate(dd.PLACEHOLDER_REGEX, "dollar"))),
        ("placeholder-sub-block-as-format-string", lambda: patch(dd, "PLACEHOLDER_REGEX", SubTemplate(dd.PLACEHOLDER_REGEX, "format"))),
        ("css-before-LAST-head", insert_variant(pick_head="last")),
        ("js-before-FIRST-body", insert_variant(pick_body="first")),
        ("css-AFTER-head-end-tag", insert_variant(where="after")),
        ("newlines-normalised", insert_variant(norm=lambda t: t.replace("\r\n", "\n"))),
        ("offset-never-added", never_shift),
        ("offset-in-utf8-bytes", byte_length_offset),
        ("placeholder-regex-eats-trailing-space", regex("PLACEHOLDER_REGEX", ("(?:" + ph + r")\s*").encode())),
        ("placeholder-regex-loose-name", regex("PLACEHOLDER_REGEX", ph.replace('CSS_PLACEHOLDER"', 'CSS_PLACEHOLDER\\w*"').encode())),
        ("marker-regex-eats-trailing-newline", regex("COMPONENT_COMMENT_REGEX", (cm + r"\n?").encode())),
        ("marker-regex-without-underscore", regex("COMPONENT_COMMENT_REGEX", cm.replace("_RENDERED", "_?RENDERED").encode())),
        ("only-first-placeholder-replaced", lambda: patch(dd, "PLACEHOLDER_REGEX", SubOnce(dd.PLACEHOLDER_REGEX))),
        ("repeated-marker-of-a-class-left-in-text", lambda: patch(dd, "COMPONENT_COMMENT_REGEX", HarvestDeduped(dd.COMPONENT_COMMENT_REGEX))),
        ("end-tag-regex-matches-heads", regex("head_or_body_end_tag_re", r"<\/(?:head|body)\w*\s*>")),
        ("str-always-marked-safe", wrap_rd(lambda c, o, t: mark_safe(o) if isinstance(o, str) else o)),
        ("safestring-loses-safety", wrap_rd(lambda c, o, t: str.__str__(o) + "" if isinstance(o, SafeString) else o)),
        ("bytes-returned-as-str", wrap_rd(lambda c, o, t: o.decode() if isinstance(o, bytes) else o)),
        ("output-stripped", wrap_rd(lambda c, o, t: o.strip() if t == "document" else o)),
        ("fragment-script-prepended", wrap_rd(lambda c, o, t: o if t != "fragment" else (
            lambda plain: (o[len(plain):] + plain) if o.startswith(plain) else o)(orig_rd(c.replace(b"_RENDERED", b"_RENDERE") if isinstance(c, bytes) else c, "fragment")))),
        ("lossy-decode", wrap_rd(lambda c, o, t: o.decode("utf-8", "replace").encode("utf-8") if isinstance(o, bytes) else o.encode("ascii", "replace").decode() if False else o)),
        ("middleware-any-text-type", mw_variant(lambda r: not isinstance(r, StreamingHttpResponse) and r.get("Content-Type", "").startswith("text/"))),
        ("middleware-ignores-content-type", mw_variant(lambda r: not isinstance(r, StreamingHttpResponse))),
        ("middleware-rewrites-streaming", mw_streaming),
        ("middleware-fragment-mode", lambda: patch(dd.ComponentDependencyMiddleware, "_process_response",
                                                  lambda self, r: (setattr(r, "content", dd.render_dependencies(r.content, type="fragment")), r)[1]
                                                  if not isinstance(r, StreamingHttpResponse) and r.get("Content-Type", "").startswith("text/html") else r)),
    ]
    rc = run_probes(PID, probes, body)
    ok = ok and rc == 0

    # ---- (iii) neutral variants: code that satisfies the property must not be alarmed on
    F = {"offset": "C08-body-end-before-head-end:js-offset-shifted.diff",
         "multiattr": "C08-placeholder-multi-id-attrs:left-in-place.diff",
         "nonutf8": "C08-non-utf8-bytes:unicode-decode-error.diff",
         "blocktag": "C08-end-tag-inside-generated-block:insertion-lands-in-block.diff",
         "blocktag2": "C08-end-tag-inside-generated-block:insertion-lands-in-block.after-non-utf8-fix.diff"}
    # (the offset repair comes first: the layer-B model of the offset defect is the arithmetic of the current tree)
    # A proposed fix that has been applied to the tree (`fixed:` line in KNOWN_FINDINGS.txt) has no diff file any
    # more: the tree itself is then that neutral variant, and only the diffs still pending are patched in.
    from .core import ROOT
    pending = {k for k, d in F.items() if (ROOT / "proposed_fixes" / d).exists()}
    neutral = [
        ("proposed fix: offset", _patched_tree([F["offset"]]), ["offset"]),
        ("proposed fix: multi-id placeholder", _patched_tree([F["multiattr"]]), ["multiattr"]),
        ("proposed fixes: offset + non-utf8 bytes", _patched_tree([F["offset"], F["nonutf8"]]), ["offset", "nonutf8"]),
        ("proposed fixes: offset + end tag inside block", _patched_tree([F["offset"], F["blocktag"]]), ["offset", "blocktag"]),
        ("all four proposed fixes", _patched_tree([F["offset"], F["multiattr"], F["nonutf8"], F["blocktag2"]]),
         ["offset", "multiattr", "nonutf8", "blocktag"]),
    ]
    all_fixed = neutral[-1][1]

    @contextmanager
    def fixed_and_ci():
        with all_fixed():
            with _ci_end_tags(dd, patch):
                yield
    if not pending:
        neutral = []        # every one of them is the tree as it is (checked above as "unpatched")
    neutral.append(("all fixes + upper-case end tags recognised (the other reading of the zone)", fixed_and_ci,
                    ["offset", "multiattr", "nonutf8", "blocktag"]))
    for name, cmf, gone in neutral:
        chk = Check(PID, "quick", "other", silent=True)
        with cmf():
            body(chk)
        devs = {k: v for k, v in chk.cov.items() if k.startswith("dev:")}
        left = [g for g in (gone or []) if any(KEYS[g] in k.split(":", 1)[1].split("+") for k in devs)]
        state = "clean" if chk.violations == 0 and not left else "ALARMED"
        print(f"  neutral {name}: {state} (violations={chk.violations}, deviations still seen={sorted(devs)})")
        ok = ok and state == "clean"
    return 0 if ok else 1


def _ci_end_tags(dd, patch):
    """The other admissible reading of the upper-case zone: end tags recognised case-insensitively
    (on top of whatever _insert_js_css_to_default_locations currently is; str or bytes)."""
    from contextlib import contextmanager

    @contextmanager
    def cm():
        orig = dd._insert_js_css_to_default_locations

        def f(html_content, js_content, css_content):
            # lower-case the tag names only, run the original arithmetic, then restore the spelling
            pat = r"</(?:head|body)\s*>"
            rx = re.compile(pat.encode() if isinstance(html_content, bytes) else pat, re.I)
            spell = [m.group(0) for m in rx.finditer(html_content)]
            out = orig(rx.sub(lambda m: m.group(0).lower(), html_content), js_content, css_content)
            if out is None:
                return None
            it = iter(spell)
            # the inserted blocks contain no end tags, so the matches are the document's own, in order
            return rx.sub(lambda m: next(it), out)
        with patch(dd, "_insert_js_css_to_default_locations", f):
            yield
    return cm()


def replay(path: str) -> int:
    d = json.load(open(path))
    case = d["case"]
    if case.get("kind") != "call":
        print("not a replayable call case (calibration failures: re-run the check)")
        return 2
    w = World.get()
    for sg in case["segs"]:
        if sg["t"] == "marker" and sg["v"].startswith("P:"):
            w.payload_class([u for u in sg["v"][2:].split(".") if u])
    obs = observe(w, case["segs"], case["mode"], case["via"], case["ity"], case["enc"], case["flavour"])
    try:
        rec = trace_record(w, 1, case["segs"], case["mode"], case["via"], case["ity"], case["enc"], obs)
    except Calibration as e:
        print(f"the call returns, but the blocks for its markers cannot be calibrated: {e}")
        if e.case is None:
            return 1
        case = e.case
        obs = observe(w, case["segs"], case["mode"], case["via"], case["ity"], case["enc"], case["flavour"])
        rec = trace_record(w, 1, case["segs"], case["mode"], case["via"], case["ity"], case["enc"], obs)
    verdicts, _ = tlc_validate([rec], "replay")
    kind, info = verdicts[1]
    print(json.dumps({"input": "".join(s["s"] for s in case["segs"]), "mode": case["mode"], "via": case["via"],
                      "type": case["ity"], "observed": rec["out"] if rec["res"] == "ok" else rec["res"],
                      "observed_type": rec["oty"], "verdict": kind, "info": info}, indent=1, ensure_ascii=False))
    return 0 if kind == "ACCEPT" else 1
