"""C01 - each slot renders the fill addressed to it, else its own default content.

Specification: specs/DjcSemantics.tla (reference semantics of component programs: slot rule,
fill closures, lexical owner, is_filled, required) - the oracle; specs/MC_Djc.tla enumerates
every page up to a node bound over a component library that contains every slot feature and
checks the semantics' theorems; specs/Eval_Djc.tla evaluates the semantics on batches.

spec -> code: every TLC-enumerated page (both context modes) is rendered by the real library
              and its token stream / exception class compared with the expectation TLC exported.
code -> spec: seeded random component libraries + pages well beyond the exhaustive bound are
              rendered for real (plain tag, dynamic component, Component.render(slots=...)) and
              the recorded observations are validated by TLC (Eval_Djc) against the same semantics.
"""
from __future__ import annotations

import json
import random
from typing import Any, Dict, List

from . import djc, prog as P
from .core import Check

PID = "C01"


def py_variant_programs(rnd: random.Random, n: int) -> List[Dict[str, Any]]:
    """Programs whose page is ONE component tag with closed (text-only) fills and constant kwargs:
    these can also be rendered through Component.render(kwargs=..., slots=...)."""
    g = P.Gen(rnd, depth=3, width=3, collide=False)
    out = []
    for i in range(n):
        p = g.program(i + 1, P.MODES[i % 2])
        c = rnd.randint(1, len(p["comps"]))
        kw = [[x, P.C(f"k{rnd.randint(1, 9)}")] for x in g.SCALARS if rnd.random() < 0.5]
        names = rnd.sample(["a", "b", "default"], rnd.randint(0, 2))
        fills = [{"t": "fill", "ne": P.C(nm), "dv": "", "fv": "",
                  "a": [P.text(900 + 10 * j + k) for k in range(rnd.randint(0, 2))]} for j, nm in enumerate(names)]
        body = "fills" if fills else "none"
        p["page"] = [{"t": "comp", "c": c, "kw": kw, "only": False, "body": body, "a": fills}]
        out.append(p)
    return out


def _closed_fills(nodes, in_fill=False):
    out = []
    for n in nodes:
        n = dict(n)
        if in_fill and n["t"] in ("slot", "comp"):
            continue
        for k in ("a", "b"):
            if isinstance(n.get(k), list):
                n[k] = _closed_fills(n[k], in_fill or n["t"] == "fill" or (n["t"] == "comp" and n.get("body") == "impl"))
        if n["t"] == "comp" and n["body"] == "fills" and not n["a"]:
            n["body"] = "none"
        out.append(n)
    return out


def _real_python(prog):
    """Render the page's single top-level component through Component.render(kwargs, slots)."""
    P.reset_library_state()
    classes = P.install(prog)
    reg, _ = P.registry(prog["mode"])
    node = prog["page"][0]
    kwargs = {k: e["v"] for k, e in node["kw"]}
    slots = {}
    for j, f in enumerate(node["a"]):
        s = "".join(f"[{t['id']}]" for t in f["a"])
        slots[f["ne"]["v"]] = s if j % 2 == 0 else (lambda ctx, data, ref, s=s: s)
    # django mode: the component sees the caller's context, so hand it the page context;
    # isolated mode: nothing is passed (what Component.render(context=...) exposes there is C03's business)
    from django.template import Context
    ctx = Context(P.page_context(prog)) if prog["mode"] == "django" else None
    try:
        html = classes[node["c"] - 1](registry=reg).render(context=ctx, kwargs=kwargs, slots=slots,
                                                           render_dependencies=False)
    except Exception as e:  # noqa: BLE001
        return {"err": type(e).__name__, "msg": str(e)[:300], "out": [], "junk": ""}
    toks, junk = P.tokens(html)
    return {"err": "", "out": toks, "junk": junk}


# the second page context of the re-rendering sub-check: same names as the generator's, other values
RERENDER_CTX2 = [["x", P.S("qx")], ["y", P.S("")], ["xs", P.L(["j1", "j2", "j3"])], ["sn", P.L(["b"])],
                 ["on", P.S("")], ["off", P.S("1")], ["sa", P.S("b")], ["one", P.L(["q1", "q2"])], ["fl", P.L(["g1", "", "g2"])]]


def body(chk: Check, *, mc_nodes: int, n_random: int, n_variants: int, deep: int) -> None:
    from .pool import pmap
    states = trans = 0
    # ---- spec -> code: exhaustive pages
    for mode in P.MODES:
        progs, exp, r = djc.mc_programs("slots", mode, mc_nodes)
        states += r.distinct
        trans += r.generated
        st = djc.compare_sliced(chk, progs, exp, djc.real, f"mc-slots-{mode}")
        chk.add("mc_pages_replayed", len(progs))
        chk.add("mc_zone", st["zone"])
        if progs:
            chk.sample({"mc_page": djc.brief(progs[len(progs) // 2])["page"], "mode": mode,
                        "expected": exp[progs[len(progs) // 2]["id"]]["out"]}, limit=2)
    # ---- code -> spec: random libraries and pages, plain
    rnd = random.Random(chk.seed * 1000003 + 1)
    g = P.Gen(rnd, depth=deep, width=3, collide=False)
    progs = [g.program(i + 1, P.MODES[i % 2]) for i in range(n_random)]
    exp = djc.oracle(progs)
    states += djc.oracle.last_states
    st = djc.compare_batch(chk, progs, exp, djc.real(progs), "rand-plain")
    chk.add("traces_validated_against_impl", len(progs) - st["zone"])
    chk.sample({"random_program": djc.brief(progs[0]), "expected": exp[progs[0]["id"]]["out"]}, limit=3)
    # ---- re-rendering: the SAME compiled templates and component classes rendered three times in one process with
    # two different page contexts (flags flipped, other lists, another dynamic slot name): A, B, A again.  Every render
    # must be what the semantics says for its own context - nothing a tag, a NodeList or a class remembers from an
    # earlier render may leak into a later one.
    gr = P.Gen(random.Random(chk.seed * 1000003 + 41), depth=deep, width=3, collide=False)
    base = [gr.program(5 * 10 ** 6 + 3 * i, P.MODES[i % 2]) for i in range(n_random // 3)]
    ctxs = [base[0]["ctx"], RERENDER_CTX2, base[0]["ctx"]] if base else []
    tri = [[dict(p, id=p["id"] + k, ctx=ctxs[k]) for k in range(3)] for p in base]
    flat = [q for t in tri for q in t]
    expr = djc.oracle(flat)
    states += djc.oracle.last_states
    obs = djc.real_rerender(base, ctxs)
    flat_o = []
    for t, o in zip(tri, obs):
        flat_o += (o if isinstance(o, list) else [o] * 3)
    st = djc.compare_batch(chk, flat, expr, flat_o, "rerender")
    chk.add("rerender_programs", len(base))
    chk.add("traces_validated_against_impl", len(flat) - st["zone"])
    # ---- hooks: on_render_before writes a context variable, on_render_after keeps / wraps / replaces the output
    gh = P.Gen(random.Random(chk.seed * 1000003 + 17), depth=deep, width=3, collide=True, hooks=0.6)
    ph = [gh.program(3 * 10 ** 6 + i, P.MODES[i % 2]) for i in range(n_random // 2)]
    exph = djc.oracle(ph)
    states += djc.oracle.last_states
    st = djc.compare_batch(chk, ph, exph, djc.real(ph), "rand-hooks")
    chk.add("hook_programs", len(ph) - st["zone"])
    chk.add("traces_validated_against_impl", len(ph) - st["zone"])
    # ---- variants: dynamic component
    # The dynamic component is a component instance of its own between caller and callee; outside the
    # sub-language below (no loops / with / is_filled / dynamically named fills; django mode: closed fills) it is known not to be
    # equivalent to the plain tag - see the pinned findings under findings/C01 - so the equivalence is
    # explored inside it, and the pinned inputs are re-run every time.
    gd = P.Gen(random.Random(chk.seed * 13 + 11), depth=3, width=3, collide=False, loops=False, withs=False, isf=False,
               dyn_fill=False)
    sub = []
    for i in range(n_variants):
        p = dict(gd.program(2 * 10 ** 6 + i, P.MODES[i % 2]), dyn=True)
        if p["mode"] == "django":      # django mode: closed fills only (no slot / component tags inside fills)
            p["page"] = _closed_fills(p["page"])
            for c in p["comps"]:
                c["tpl"] = _closed_fills(c["tpl"])
        sub.append(p)
    expd = djc.oracle(sub)
    states += djc.oracle.last_states
    st = djc.compare_batch(chk, sub, expd, djc.real_variant(sub, dyn=True), "rand-dynamic")
    chk.add("traces_validated_against_impl", len(sub) - st["zone"])
    djc.run_pinned(chk, PID)
    # ---- variants: Component.render(kwargs, slots)
    pv = py_variant_programs(random.Random(chk.seed * 7 + 3), n_variants)
    expv = djc.oracle(pv)
    states += djc.oracle.last_states
    st = djc.compare_batch(chk, pv, expv, djc.real(pv), "pyvariant-tag")
    st2 = djc.compare_batch(chk, pv, expv, pmap(_real_python, pv, workers=8), "pyvariant-python")
    chk.add("traces_validated_against_impl", 2 * len(pv) - st["zone"] - st2["zone"])
    chk.add("states", states)
    chk.add("transitions", trans)


def run(tier: str) -> int:
    from . import boot
    boot.setup()
    chk = Check(PID, tier, "model_checking")
    if tier == "quick":
        body(chk, mc_nodes=3, n_random=1500, n_variants=400, deep=3)
    else:
        body(chk, mc_nodes=3, n_random=12000, n_variants=3000, deep=4)
    chk.cov["exhaustive"] = True
    chk.cov["rule"] = ("TLC enumerates every page with <= N nodes over the 'slots' alphabet and the fixed 4-component "
                       "library, x2 context modes, each replayed on the real library; seeded random libraries+pages "
                       "(depth 3-4) rendered as plain tags, through the dynamic component and through "
                       "Component.render(slots=) and validated by TLC. Non-trivial = renders >= 1 component instance; "
                       "distinct by hash of (variant, mode, page[, library]). Programs in unspecified zones are skipped.")
    chk.assumptions += ["generated programs are well-formed (no duplicate fills, no text beside explicit fills, no "
                        "{% slot %} lexically at page level)",
                        "token streams are compared after removing render markers / id attributes"]
    return chk.finish()


def selftest(tier: str) -> int:
    """In-process mutation probes (monkeypatched library, never /repo): each must be killed."""
    from . import boot
    from .core import run_probes
    boot.setup()
    allp = djc.standard_probes()
    probes = [(n, allp[n]) for n in ['is_filled-always-true', 'fills-named-b-dropped', 'default-flag-fallback-dropped', 'slot-data-alias-lost']]

    def on_render_after_result_ignored():
        # the string returned by on_render_after is dropped (the callback still runs)
        from contextlib import contextmanager
        import django_components.component as dcomp

        class Proxy(dict):
            def __init__(self, inner):
                self.inner = inner

            def __getitem__(self, k):
                cb = self.inner[k]
                return lambda html: (cb(html), html)[1]

            def get(self, k, default=None):
                return self[k] if k in self.inner else default

        @contextmanager
        def cm():
            orig = dcomp.component_post_render

            def cpr(*a, **kw):
                kw["on_component_rendered_callbacks"] = Proxy(kw["on_component_rendered_callbacks"])
                return orig(*a, **kw)
            dcomp.component_post_render = cpr
            try:
                yield
            finally:
                dcomp.component_post_render = orig
        return cm()
    probes.append(("on_render_after-result-ignored", on_render_after_result_ignored))
    return run_probes(PID, probes, lambda chk: body(chk, mc_nodes=2, n_random=300, n_variants=60, deep=3))


def replay(path: str) -> int:
    from . import boot
    boot.setup()
    d = json.load(open(path))
    p = d["case"]["json"]
    exp = djc.oracle([p])[p["id"]]
    label = d["case"]["label"]
    if label == "pyvariant-python":
        obs = _real_python(p)
    else:
        obs = djc._real_variant((p, label == "rand-dynamic", False))
    m = djc.mismatch(exp, obs)
    print(json.dumps({"expected": exp, "observed": obs, "mismatch": m}, indent=1, default=repr)[:6000])
    return 1 if m else 0
