"""C15 - registries behave as dictionaries and keep the tag library consistent.

Specification: specs/RegistryOps.tla (what every call may do, as sets of admitted outcomes),
specs/Registry.tla (the state machine: variables reg, lib, fmt; actions Register / Decorate /
Unregister / Clear / Get / Has / All / AllMutate / SetFmt; invariants TypeOK, TagIffUsed,
ProtectedUntouched, action property Independent), specs/MC_C15.tla (bounded instances, DictLike,
ErrorsExact, SameClassNoOp, QueriesPure, ReadsRight, JSON export of every transition),
specs/Trace_C15.tla (validation of recorded histories), specs/RegistryImpl.tla + MC_C15B.tla
(implementation-shaped model of _registry / _tags / Library.tags; TLC checks that it refines the
specification, and - control - that the model of the code before the repair of
fmt-switch-reregister:old-tag-orphaned does not: its counterexample is replayed on the real code).

spec -> code (a) TLC explores the complete state graph of every configuration of the tier and
              exports every transition (world before, call, admitted result + world after).
              Each one is replayed on real, private ComponentRegistry / Library objects driven
              to the source world along a shortest path of the exported graph; result /
              exception class, registry.all() of every registry and the tag table of every
              Library are compared before and after the call.
          (b) long seeded walks over the exported graph on ONE persistent set of real objects
              (thousands of calls on the same registries), compared after every step.  Where
              two admitted outcomes of a call have the same projection (see "unspecified
              zones": re-registration after a formatter switch between two fixed-tag
              formatters whose tags both have other users) the walk keeps every world of the
              graph that explains the observations so far, exactly as Trace_C15 does, and
              fails when none is left.
code -> spec  seeded random histories on the real objects over wider configurations than TLC
              enumerates (up to 3 registries, 6 names, shared libraries, switching formatters)
              are validated in one TLC batch by Trace_C15.

Configurations: T1 one registry; T2 two registries with private libraries; T3 two registries
sharing one Library; T4 one registry whose settings callable switches the tag formatter; T5 the
library's own list of protected names (mark_protected_tags(lib) without a list).  The default
formatter (one tag "component") and the shorthand formatter (tag = name); Library with a
built-in tag "slot" and a user tag "u" already present; "slot" protected or not (and a protected
name that is not in the library); names "a", "slot" (= the protected tag) and "u" (= the
unprotected user tag).  The formatter reaches the registry as object, import string, deprecated
TAG_FORMATTER field or settings callable (harness detail, not part of the specification).

Known deviations (KNOWN_FINDINGS.txt) are named extra outcomes in RegistryOps!DevOutcomes.  They
are exported next to the admitted outcomes (field "dev") and, for histories, admitted in a second
Trace_C15 pass (cfg.dev = TRUE) over what the specification proper rejected: a failure is a
KNOWN-FINDING only if the observation equals what the named deviation predicts.

Unspecified zones (not alarmed on):
 * an UNPROTECTED tag that existed before a component took it over: after the last user is
   gone the specification admits "absent" and "original tag restored" (RegistryOps!Maybe);
 * the same class registered again after the formatter changed: "no-op" and "moved to the
   new tag" are both admitted;
 * two registries that use the SAME start tag on one shared Library are not generated: the
   library itself declares that an error (ComponentNode.parse raises RuntimeError "two
   Components from different registries using the same start tag"), so in T3 the registries
   get distinct start tags (ComponentFormatter("c_a") / ("c_b") / shorthand);
 * two different classes with the same import path (same _class_hash) are not generated;
 * tags are only observed in Library.tags (identity of the pre-existing functions, anything
   else = a component tag); templates are not compiled, so the process-global
   component_node_subclasses_by_name table never comes into play.
Not applicable to this snapshot: ComponentRegistry has no has() (Has is observed as
`name in registry.all()`, and registry.has() is used instead when it exists); registries are
held strongly by component_registry.all_registries and have no finaliser, so "deletion of a
registry" has no behaviour to check (the harness removes its own registries from that list
after every case to bound memory).
"""
from __future__ import annotations

import json
import random
import re
from collections import deque
from concurrent.futures import ThreadPoolExecutor
from pathlib import Path
from typing import Any, Dict, List, Optional, Tuple

from . import tlc
from .core import Check, MachineryError, canon, sha, workdir

PID = "C15"
NAMES = ["a", "slot", "u"]
PRE = [["slot", "builtin"], ["u", "user"]]
BASE_OPS = ["register", "unregister", "clear", "get", "has", "all", "allmutate", "setfmt"]
MUTATING = {"register", "decorate", "unregister", "clear", "setfmt"}
MC_CFG = ("SPECIFICATION MCSpec\nCONSTANT Configs <- MCConfigs\nVIEW mcView\n"
          "INVARIANT TypeOK\nINVARIANT TagIffUsed\nINVARIANT ProtectedUntouched\nINVARIANT DictLike\n"
          "PROPERTY ErrorsExact\nPROPERTY SameClassNoOp\nPROPERTY QueriesPure\nPROPERTY ReadsRight\n"
          "PROPERTY Independent\n")
TRACE_CFG = "SPECIFICATION TrSpec\nINVARIANT WorldsOK\n"
STYLES = ["object", "string", "legacy", "callable"]
# the documented protected names (django_components.library.PROTECTED_TAGS); if the library's list
# differs the harness passes this list explicitly, so the configuration stays what the spec was given
REAL_PROTECTED = ["component_css_dependencies", "component_js_dependencies", "fill", "html_attrs", "provide", "slot"]


# ================================================================ configurations
def make_config(cid: str, regs: List[str], libof: Dict[str, str], fmt0: Dict[str, str], prot: List[str],
                fmts: Optional[Dict[str, List[str]]] = None, names=NAMES, classes=("A", "B"),
                ops: Optional[List[str]] = None, pre=PRE, est: int = 0) -> Dict[str, Any]:
    """A configuration in the JSON form read by RegistryIO!NormCfg.  `style` (how the harness
    hands the formatter to the registry) and `est` are ignored by the specification."""
    libs = sorted(set(libof.values()))
    fmts = fmts or {}
    return {"id": cid, "regs": list(regs), "libof": [[r, libof[r]] for r in regs],
            "pre": [[l, [list(p) for p in pre]] for l in libs],
            "prot": [[l, list(prot)] for l in libs],
            "fmt0": [[r, fmt0[r]] for r in regs],
            "fmts": [[r, list(fmts.get(r, []))] for r in regs],
            "names": list(names), "classes": list(classes), "ops": list(ops or BASE_OPS), "dev": False,
            "style": [[r, "callable" if fmts.get(r) else STYLES[(i + len(cid)) % 3]] for i, r in enumerate(regs)],
            "est": est}


def mc_configs(tier: str) -> List[Dict[str, Any]]:
    quick = tier == "quick"
    out = []
    private = {"r1": "L1", "r2": "L2"}
    shared = {"r1": "L1", "r2": "L1"}
    # T1: one registry, 3 names x 3 classes, every operation incl. the @register decorator
    for f in ("component", "short"):
        for i, prot in enumerate(([], ["slot"], ["slot", "a"])):
            out.append(make_config(f"T1-{f}-p{i}", ["r1"], {"r1": "L1"}, {"r1": f}, prot, classes=("A", "B", "C"),
                                   ops=BASE_OPS + ["decorate"], est=4))
    # S1: like T1 with 2 classes and state-changing calls only - the graphs all call sequences are run on
    for f, p in (("short", 1), ("component", 1)) + (() if quick else (("short", 0),)):
        out.append(make_config(f"S1-{f}-p{p}", ["r1"], {"r1": "L1"}, {"r1": f}, ["slot"] if p else [],
                               ops=["register", "unregister", "clear"], est=1))
    if not quick:
        out.append(make_config("S3-short-p1", ["r1"], {"r1": "L1"}, {"r1": "short"}, ["slot"], classes=("A", "B", "C"),
                               ops=["register", "unregister", "clear"], est=1))
    # T2: two registries, private libraries
    t2 = [("component", "component", 1, 26), ("component", "short", 1, 12), ("short", "short", 1, 5),
          ("component", "short", 0, 47)]
    if not quick:
        t2 += [("short", "short", 0, 83), ("component", "component", 0, 26), ("short", "component", 1, 12),
               ("short", "component", 0, 47)]
    for f1, f2, p, est in t2:
        out.append(make_config(f"T2-{f1}-{f2}-p{p}", ["r1", "r2"], private, {"r1": f1, "r2": f2},
                               ["slot"] if p else [], est=est))
    if not quick:   # 3 classes
        out.append(make_config("T2-component-short-p1-3c", ["r1", "r2"], private, {"r1": "component", "r2": "short"},
                               ["slot"], classes=("A", "B", "C"), est=90))
        out.append(make_config("T2-component-component-p1-3c", ["r1", "r2"], private,
                               {"r1": "component", "r2": "component"}, ["slot"], classes=("A", "B", "C"), est=172))
    # T3: two registries sharing one library, distinct start tags
    t3 = [("c_a", "c_b", 1, 26), ("c_a", "short", 1, 12)]
    if not quick:
        t3 += [("c_a", "c_b", 0, 26), ("c_a", "short", 0, 47), ("short", "c_b", 1, 12)]
    for f1, f2, p, est in t3:
        out.append(make_config(f"T3-{f1}-{f2}-p{p}", ["r1", "r2"], shared, {"r1": f1, "r2": f2},
                               ["slot"] if p else [], est=est))
    # T4: one registry whose settings callable switches between formatters
    t4 = [(["component", "short"], 1, 5)]
    if not quick:
        t4 += [(["component", "short"], 0, 9), (["component", "c_x", "short"], 1, 30)]
    for fs, p, est in t4:
        out.append(make_config(f"T4-{'-'.join(fs)}-p{p}", ["r1"], {"r1": "L1"}, {"r1": fs[0]},
                               ["slot"] if p else [], fmts={"r1": fs}, ops=BASE_OPS + ["decorate"], est=est))
    # T5: the names django_components itself protects (mark_protected_tags(lib) without a list), all
    # seven built-in tags present, "component" being the unprotected one; shorthand + default
    real_pre = [[t, "builtin"] for t in ["component"] + REAL_PROTECTED]
    for f in ("short", "component"):
        out.append(make_config(f"T5-{f}-realprot", ["r1"], {"r1": "L1"}, {"r1": f}, REAL_PROTECTED,
                               names=["a", "fill", "component"], classes=("A", "B"), pre=real_pre,
                               ops=BASE_OPS + ["decorate"], est=2))
    return out


# ================================================================ the real objects
_LIBSTATE: Dict[str, Any] = {}


def _lib():
    """Lazily import django_components (after boot.setup()) and create the fixed fixtures."""
    if _LIBSTATE:
        return _LIBSTATE
    from django.template import Library
    import django_components as dc
    from django_components import Component
    import django_components.component_registry as cr
    from django_components.library import mark_protected_tags
    from django_components.tag_formatter import ComponentFormatter

    def builtin_tag(parser, token):      # stands for a built-in tag of the library ({% slot %} ...)
        raise AssertionError("never compiled")

    def user_tag(parser, token):         # stands for a tag the user registered himself
        raise AssertionError("never compiled")

    classes = {c: type(f"VfC15{c}", (Component,), {"__module__": __name__}) for c in "ABC"}
    _LIBSTATE.update(Library=Library, dc=dc, cr=cr, mark=mark_protected_tags, CF=ComponentFormatter,
                     owner={"builtin": builtin_tag, "user": user_tag}, classes=classes,
                     clsid={v: k for k, v in classes.items()},
                     fmt={"component": dc.component_formatter, "short": dc.component_shorthand_formatter})
    return _LIBSTATE


def _fmt_obj(f: str):
    L = _lib()
    if f not in L["fmt"]:
        L["fmt"][f] = L["CF"](f)
        globals()["FMT_" + f] = L["fmt"][f]           # importable as "vf.c15.FMT_<tag>"
    return L["fmt"][f]


def _fmt_string(f: str) -> str:
    _fmt_obj(f)
    return {"component": "django_components.component_formatter",
            "short": "django_components.component_shorthand_formatter"}.get(f, f"{__name__}.FMT_{f}")


class World:
    """Real Library / ComponentRegistry objects of one configuration."""

    def __init__(self, cfg: Dict[str, Any]):
        L = _lib()
        self.cfg = cfg
        self.libof = dict(cfg["libof"])
        pre, prot = dict(cfg["pre"]), dict(cfg["prot"])
        self.libs, self.regs, self.cur = {}, {}, {}
        for l in sorted(set(self.libof.values())):
            lib = L["Library"]()
            for t, owner in pre[l]:
                lib.tag(t, L["owner"][owner])
            if prot[l]:
                import django_components.library as dlib
                if sorted(prot[l]) == sorted(REAL_PROTECTED) == sorted(getattr(dlib, "PROTECTED_TAGS", [])):
                    L["mark"](lib)                       # the library's own default list
                else:
                    L["mark"](lib, list(prot[l]))
            self.libs[l] = lib
        style = dict(cfg.get("style") or [])
        fmt0 = dict(cfg["fmt0"])
        RS = L["dc"].RegistrySettings
        for r in cfg["regs"]:
            self.cur[r] = fmt0[r]
            st = style.get(r, "object")
            if st == "callable":
                settings = (lambda r_: (lambda registry: RS(tag_formatter=_fmt_obj(self.cur[r_]))))(r)
            elif st == "string":
                settings = RS(tag_formatter=_fmt_string(fmt0[r]))
            elif st == "legacy":
                settings = RS(TAG_FORMATTER=_fmt_obj(fmt0[r]))
            else:
                settings = RS(tag_formatter=_fmt_obj(fmt0[r]))
            self.regs[r] = L["dc"].ComponentRegistry(library=self.libs[self.libof[r]], settings=settings)

    def dispose(self) -> None:
        """The library keeps every registry alive in a module-level list; drop ours."""
        allr = getattr(_lib()["cr"], "all_registries", None)
        if isinstance(allr, list):
            mine = {id(x) for x in self.regs.values()}
            allr[:] = [x for x in allr if id(x) not in mine]

    # ---- observation -------------------------------------------------
    def project(self) -> Dict[str, Any]:
        L = _lib()
        regs, libs = [], []
        for r, reg in self.regs.items():
            d = reg.all()
            for n, c in d.items():
                regs.append([r, n, L["clsid"].get(c, "?" + repr(c))])
        for l, lib in self.libs.items():
            for t, fn in lib.tags.items():
                o = "builtin" if fn is L["owner"]["builtin"] else "user" if fn is L["owner"]["user"] \
                    else "comp" if callable(fn) else "?" + repr(fn)
                libs.append([l, t, o])
        return {"regs": sorted(regs), "libs": sorted(libs)}

    # ---- one call ----------------------------------------------------
    def call(self, e: Dict[str, str]) -> Dict[str, Any]:
        L = _lib()
        dc = L["dc"]
        out = {"res": "ok", "cls": "-", "yes": False, "all": []}
        reg = self.regs[e["r"]]
        op = e["op"]
        try:
            if op == "register":
                reg.register(e["n"], L["classes"][e["c"]])      # return value: not part of the property
            elif op == "decorate":
                ret = dc.register(e["n"], registry=reg)(L["classes"][e["c"]])
                out["cls"] = L["clsid"].get(ret, "?returned " + repr(ret)) if isinstance(ret, type) \
                    else "?returned " + repr(ret)
            elif op == "unregister":
                reg.unregister(e["n"])
            elif op == "clear":
                reg.clear()
            elif op == "get":
                ret = reg.get(e["n"])
                out["cls"] = L["clsid"].get(ret, "?" + repr(ret)) if isinstance(ret, type) else "?" + repr(ret)
            elif op == "has":
                ret = reg.has(e["n"]) if hasattr(reg, "has") else (e["n"] in reg.all())
                out["yes"] = ret if isinstance(ret, bool) else "?" + repr(ret)
            elif op in ("all", "allmutate"):
                d = reg.all()
                out["all"] = sorted([n, L["clsid"].get(c, "?" + repr(c))] for n, c in d.items()) \
                    if isinstance(d, dict) else "?" + repr(d)
                if op == "allmutate" and isinstance(d, dict):      # the caller plays with his copy
                    d.clear()
                    d["vf-intruder"] = L["classes"]["A"]
            elif op == "setfmt":
                self.cur[e["r"]] = e["n"]
            else:
                raise MachineryError(f"unknown op {op}")
        except MachineryError:
            raise
        except dc.AlreadyRegistered:
            out["res"] = "AlreadyRegistered"
        except dc.NotRegistered:
            out["res"] = "NotRegistered"
        except dc.TagProtectedError:
            out["res"] = "TagProtected"
        except Exception as ex:                     # never admitted by the specification
            out["res"] = "exception:" + type(ex).__name__
        return out


# ================================================================ comparison with exported outcomes
def _post_regs(w: Dict[str, Any]) -> List[List[str]]:
    return sorted([r, n, c] for r, n, c, _t in w["reg"])


def mismatch(obs: Dict[str, Any], proj: Dict[str, Any], res, cls, yes, allv, post, maybe) -> List[str]:
    """Clauses on which the observation differs from one admitted outcome ([] = conforms)."""
    bad = []
    if obs["res"] != res:
        bad.append("res")
    if obs["cls"] != cls:
        bad.append("cls")
    if obs["yes"] is not yes:
        bad.append("yes")
    if obs["all"] != sorted(list(x) for x in allv):
        bad.append("all")
    if proj["regs"] != _post_regs(post):
        bad.append("reg")
    want = {tuple(x) for x in post["lib"]}
    got = {tuple(x) for x in proj["libs"]}
    if not (want <= got and (got - want) <= {tuple(x) for x in maybe}):
        bad.append("lib")
    return bad


def world_mismatch(proj: Dict[str, Any], w: Dict[str, Any], maybe) -> List[str]:
    return [c for c in mismatch({"res": 0, "cls": 0, "yes": 0, "all": 0}, proj, 0, 0, 0, [], w, maybe)
            if c in ("reg", "lib")]


class Graph:
    """The exported transition graph of one configuration."""

    def __init__(self, cfg: Dict[str, Any], rows: List[Dict[str, Any]]):
        self.cfg = cfg
        self.groups: Dict[Tuple[str, str], List[Dict[str, Any]]] = {}
        self.by_pre: Dict[str, List[Tuple[str, str]]] = {}
        self.maybe: Dict[str, Any] = {}
        self.worlds: Dict[str, Any] = {}
        for row in rows:
            pk = wkey(row["pre"])
            c = row["call"]
            k = (pk, f"{c['op']}({c['r']},{c['n']},{c['c']})")
            if k not in self.groups:
                self.groups[k] = []
                self.by_pre.setdefault(pk, []).append(k)
            self.groups[k].append(row)
            qk = wkey(row["post"])
            row["pre"] = self.worlds.setdefault(pk, row["pre"])        # one object per distinct world
            row["post"] = self.worlds.setdefault(qk, row["post"])
            row["_post"] = qk
            self.maybe.setdefault(qk, row["maybe"])
        self.init = wkey({"reg": [], "lib": [[l, t, o] for l, tags in cfg["pre"] for t, o in tags],
                          "fmt": cfg["fmt0"]})
        self.maybe.setdefault(self.init, [])
        if rows and self.init not in self.by_pre:
            raise MachineryError(f"{cfg['id']}: initial world not among the exported source worlds")
        # shortest paths over deterministic, state-changing transitions
        self.path: Dict[str, List[Dict[str, str]]] = {self.init: []}
        dq = deque([self.init])
        while dq:
            s = dq.popleft()
            for k in self.by_pre.get(s, []):
                g = self.groups[k]
                if len(g) != 1 or g[0]["call"]["op"] not in MUTATING:
                    continue
                q = g[0]["_post"]
                if q not in self.path:
                    self.path[q] = self.path[s] + [g[0]["call"]]
                    dq.append(q)
        unreachable = [p for p in self.by_pre if p not in self.path]
        if unreachable:
            raise MachineryError(f"{cfg['id']}: {len(unreachable)} source worlds have no deterministic path")
        self.keys = list(self.groups.keys())


def wkey(w: Dict[str, Any]) -> str:
    return repr((sorted(map(tuple, w["reg"])), sorted(map(tuple, w["lib"])), sorted(map(tuple, w["fmt"]))))


def judge(obs, proj, group) -> Tuple[Optional[int], Any]:
    """(index of the admitted outcome the observation conforms to | None, detail)."""
    fails = []
    for i, row in enumerate(group):
        bad = mismatch(obs, proj, row["res"], row["cls"], row["yes"], row["all"], row["post"], row["maybe"])
        if not bad:
            return i, None
        fails.append(bad)
    return None, fails


def deviation_key(obs, proj, group) -> Optional[str]:
    """Name of the known deviation whose predicted outcome the observation equals exactly."""
    for d in group[0].get("dev", []):
        if not mismatch(obs, proj, d["res"], d["cls"], False, [], d["post"], []):
            return d["name"]
    return None


def replay_group(cfg, path, group, pre_maybe=()) -> Optional[Dict[str, Any]]:
    """Replay one (world, call) of the exported graph on fresh real objects; None if it conforms."""
    w = World(cfg)
    try:
        for e in path:
            w.call(e)
        proj = w.project()
        pre = group[0]["pre"]
        bad = world_mismatch(proj, pre, pre_maybe)
        if bad:
            return {"stage": "construct-source-world", "path": path, "failing": bad, "expected": pre,
                    "observed": proj, "key": None}
        obs = w.call(group[0]["call"])
        proj = w.project()
        i, fails = judge(obs, proj, group)
        if i is not None:
            return None
        return {"stage": "call", "path": path, "failing": fails, "observed": {"out": obs, "state": proj},
                "admitted": [{k: row[k] for k in ("res", "cls", "yes", "all", "post", "maybe")} for row in group],
                "key": deviation_key(obs, proj, group)}
    finally:
        w.dispose()


# ---- worker side ---------------------------------------------------------------------------
_GRAPHS: Dict[str, Graph] = {}          # selftest: loaded once in the parent, inherited by fork


def _config_task(arg):
    """Everything for one configuration: load its exported graph, replay every (world, call) on
    fresh objects, then walk the graph on persistent objects."""
    cfg, path, seed, steps = arg
    cid = cfg["id"]
    g = _GRAPHS.get(cid) or Graph(cfg, tlc.read_ndjson(Path(path)))
    bad = []
    hashes = []
    for k in g.keys:
        group = g.groups[k]
        r = replay_group(g.cfg, g.path[k[0]], group, g.maybe.get(k[0], []))
        if r:
            adm = r.pop("admitted", None)
            bad.append((case_of(g, k, {"admitted": adm}), r))
        row = group[0]
        hashes.append((sha([cid, k[0], k[1]]), row["call"]["op"] in MUTATING or bool(row["pre"]["reg"])))
    mid = g.keys[len(g.keys) // 2]
    sample = {"transition": {"cfg": cid, "pre": g.groups[mid][0]["pre"], "call": g.groups[mid][0]["call"],
                             "admitted": [{"res": r["res"], "post": r["post"]} for r in g.groups[mid]]}}
    wres = walk(g, random.Random(seed), steps)
    return {"cid": cid, "groups": len(g.keys), "rows": sum(len(x) for x in g.groups.values()), "bad": bad,
            "hashes": hashes, "sample": sample, "walk": wres}


def _seq_task(arg):
    """All sequences of exactly `depth` state-changing calls that start with the `first`-th call of the
    initial world (shorter sequences are their prefixes), each on fresh real objects, compared with the
    exported graph after every call."""
    cfg, path, first, depth, _n_first = arg
    g = _GRAPHS.get(cfg["id"]) or Graph(cfg, tlc.read_ndjson(Path(path)))
    mut: Dict[str, List[Tuple[str, str]]] = {}

    def calls_from(s):
        if s not in mut:
            mut[s] = [k for k in g.by_pre[s] if g.groups[k][0]["call"]["op"] in MUTATING]
        return mut[s]

    n = 0
    bad = []
    if len(calls_from(g.init)) != arg[4]:
        raise MachineryError(f"{cfg['id']}: {len(calls_from(g.init))} state-changing calls, expected {arg[4]}")
    seqs = [[calls_from(g.init)[first]]]           # iterative DFS over sequences of graph edges
    while seqs:
        seq = seqs.pop()
        s = g.init
        for k in seq:
            s = g.groups[k][0]["_post"]
        if len(seq) < depth:
            seqs.extend(seq + [k] for k in calls_from(s))
            continue
        n += 1
        w = World(cfg)
        try:
            for i, k in enumerate(seq):
                group = g.groups[k]
                obs = w.call(group[0]["call"])
                proj = w.project()
                j, fails = judge(obs, proj, group)
                if j is None or len(group) != 1:
                    if len(bad) < 20:
                        bad.append({"stage": "sequence", "calls": [g.groups[x][0]["call"] for x in seq[: i + 1]],
                                    "failing": fails, "observed": {"out": obs, "state": proj},
                                    "admitted": [{x: row[x] for x in ("res", "cls", "yes", "all", "post", "maybe")}
                                                 for row in group], "key": None})
                    break
        finally:
            w.dispose()
    return {"cid": cfg["id"], "sequences": n, "bad": bad}


def walk(g: Graph, rnd: random.Random, steps: int) -> Dict[str, Any]:
    """A long walk over the exported graph on one persistent set of real objects.

    Where the specification admits several outcomes of a call (same class registered again after the
    formatter changed: "no-op" or "moved to the new tag") the projection need not tell them apart
    at that call - with two fixed-tag formatters, e.g. "component" and "c_x", both tags may have other
    users, so Library.tags is the same either way and the difference shows only when those users go.
    Like Trace_C15 (its variable ws) the walk therefore keeps EVERY world of the graph that explains
    the observations so far (`cands`) and fails only when no admitted outcome of any of them conforms."""
    w = World(g.cfg)
    cands = [g.init]                         # sorted; usually one world
    hist: List[Dict[str, Any]] = []          # the calls since the objects were created, with observations
    tried = set()                            # (world, call) pairs chosen so far (steers the walk)
    seen = set()                             # ... of which the source world was known exactly (= covered)
    bad = []
    done = ambiguous = 0
    try:
        while done < steps:
            ks = g.by_pre[cands[0]]          # the enabled calls depend on fmt only, which is the same in all
            fresh = [k for k in ks if k not in tried]
            mut = [k for k in ks if g.groups[k][0]["call"]["op"] in MUTATING]
            k = rnd.choice(fresh) if fresh and rnd.random() < 0.8 else rnd.choice(mut if mut and rnd.random() < 0.8 else ks)
            groups = []
            for s in cands:
                if (s, k[1]) not in g.groups:
                    raise MachineryError(f"{g.cfg['id']}: call {k[1]} is not enabled in every candidate world")
                tried.add((s, k[1]))
                groups.append(g.groups[(s, k[1])])
            if len(cands) == 1:
                seen.add(k)
            else:
                ambiguous += 1
            e = groups[0][0]["call"]
            obs = w.call(e)
            proj = w.project()
            hist.append(_event(e, obs, proj))
            done += 1
            nxt, fails = set(), []
            for group in groups:
                for row in group:
                    b = mismatch(obs, proj, row["res"], row["cls"], row["yes"], row["all"], row["post"], row["maybe"])
                    if b:
                        fails.append(b)
                    else:
                        nxt.add(row["_post"])
            if not nxt:
                key = next((x for x in (deviation_key(obs, proj, group) for group in groups) if x), None)
                bad.append({"stage": "walk", "events": list(hist), "failing": fails,
                            "observed": {"out": obs, "state": proj},
                            "admitted": [{k2: row[k2] for k2 in ("res", "cls", "yes", "all", "post", "maybe")}
                                         for group in groups for row in group],
                            "key": key})
                w.dispose()
                w, cands, hist = World(g.cfg), [g.init], []  # start over on fresh objects
                if len(bad) >= 5:
                    break
                continue
            cands = sorted(nxt)
    finally:
        w.dispose()
    return {"steps": done, "covered": len(seen), "ambiguous": ambiguous, "bad": bad}


# ================================================================ spec -> code
_EXPORT_CACHE: Dict[str, Any] = {}


def export_rows(cfgs: List[Dict[str, Any]], par: int = 4, nbins: int = 4) -> Dict[str, Any]:
    """Run TLC on MC_C15 for all configurations: `nbins` single-worker runs (the export relies on
    every transition being generated exactly once), at most `par` at a time."""
    w = workdir("c15mc")
    (w / "mc.cfg").write_text(MC_CFG)
    bins: List[List[Dict[str, Any]]] = [[] for _ in range(nbins)]
    load = [0] * nbins
    for c in sorted(cfgs, key=lambda c: -c["est"]):
        i = load.index(min(load))
        bins[i].append(c)
        load[i] += c["est"] + 1
    bins = [b for b in bins if b]

    def one(i_b):
        i, b = i_b
        cf = w / f"cfgs{i}.ndjson"
        tlc.write_ndjson(cf, b)
        r = tlc.require_ok(tlc.run("MC_C15", str(w / "mc.cfg"), env={"CFG": str(cf), "OUT": str(w / "rows-")},
                                   workers=1, heap="2g"), f"MC_C15 {[c['id'] for c in b]}")
        lines = 0
        for c in b:
            with open(w / f"rows-{c['id']}.ndjson", "rb") as f:
                lines += sum(chunk.count(b"\n") for chunk in iter(lambda: f.read(1 << 20), b""))
        if lines != r.generated - len(b):
            raise MachineryError(f"export incomplete: {lines} lines for {r.generated} generated states "
                                 f"({len(b)} initial)")
        return r, lines

    with ThreadPoolExecutor(max_workers=par) as ex:
        results = list(ex.map(one, enumerate(bins)))
    return {"files": {c["id"]: str(w / f"rows-{c['id']}.ndjson") for c in cfgs},
            "states": sum(r.distinct for r, _ in results),
            "transitions": sum(r.generated for r, _ in results),
            "rows": sum(n for _, n in results)}


def _pool(n: int):
    import multiprocessing as mp
    return mp.get_context("fork").Pool(processes=n)


def case_of(g: Graph, k, extra=None) -> Dict[str, Any]:
    d = {"kind": "transition", "cfg": g.cfg, "path": g.path[k[0]], "call": g.groups[k][0]["call"],
         "pre": g.groups[k][0]["pre"]}
    if extra:
        d.update(extra)
    return d


def spec_to_code(chk: Check, cfgs: List[Dict[str, Any]], procs: int, walk_steps: int, nbins: int = 4,
                 cache: bool = False, seq: Optional[Dict[str, int]] = None) -> None:
    """TLC export, then one worker task per configuration (load graph, replay, walk); `seq` maps
    configuration ids (static formatter: every (world, call) has one admitted outcome) to the depth
    up to which ALL sequences of state-changing calls are replayed."""
    global _GRAPHS
    import zlib
    key = canon([c["id"] for c in cfgs])
    ex = _EXPORT_CACHE.get(key) if cache else None
    if ex is None:
        ex = export_rows(cfgs, nbins=nbins)
        if cache:                                   # selftest: the TLC side is the same for every probe
            _GRAPHS = {c["id"]: Graph(c, tlc.read_ndjson(Path(ex["files"][c["id"]]))) for c in cfgs}
            _EXPORT_CACHE[key] = ex
    tasks = [(c, ex["files"][c["id"]], chk.seed * 7907 + zlib.crc32(c["id"].encode()), walk_steps)
             for c in sorted(cfgs, key=lambda c: -c["est"])]
    stasks = []
    want_seqs = 0
    for c in cfgs:
        if seq and c["id"] in seq:
            n_first = len(c["names"]) * len(c["classes"]) * (2 if "decorate" in c["ops"] else 1) + len(c["names"]) + 1
            stasks += [(c, ex["files"][c["id"]], i, seq[c["id"]], n_first) for i in range(n_first)]
            want_seqs += n_first ** seq[c["id"]]      # every call is enabled in every world
    if procs > 1:
        with _pool(procs) as pool:
            results = pool.map(_config_task, tasks, chunksize=1)
            sres = pool.map(_seq_task, stasks, chunksize=1)
    else:
        results = [_config_task(t) for t in tasks]
        sres = [_seq_task(t) for t in stasks]
    results.sort(key=lambda r: r["cid"])
    if sum(r["sequences"] for r in sres) != want_seqs:
        raise MachineryError(f"{sum(r['sequences'] for r in sres)} sequences replayed, {want_seqs} expected")
    for res in sres:
        chk.add("sequences_replayed", res["sequences"])
        chk.evals += res["sequences"]
        cfg = next(c for c in cfgs if c["id"] == res["cid"])
        for b in res["bad"]:
            chk.violation({"kind": "trace", "cfg": cfg, "events": b["calls"]},
                          {x: v for x, v in b.items() if x != "calls"}, key=None)
    if seq:
        chk.cov["sequence_depth"] = dict(seq)
    if sum(r["rows"] for r in results) != ex["rows"]:
        raise MachineryError("rows loaded by the workers differ from rows exported")
    unexplained = []
    steps = 0
    for res in results:
        for case, detail in res["bad"]:
            chk.violation(case, detail, key=detail.get("key"))
        for h, nontrivial in res["hashes"]:
            chk.count(h, nontrivial=nontrivial)
        if res["cid"].startswith(("T2-component-short-p1", "T3-c_a-short-p1", "T4-component-short-p1", "T1-short-p1")):
            chk.sample(res["sample"], limit=4)
        chk.add("transition_cases_replayed", res["groups"])
        steps += res["walk"]["steps"]
        chk.add("walk_transitions_covered", res["walk"]["covered"])
        chk.add("walk_steps_source_world_ambiguous", res["walk"]["ambiguous"])
        cfg = next(c for c in cfgs if c["id"] == res["cid"])
        for b in res["walk"]["bad"]:
            b["cfg"] = cfg
            if b.get("key") is None:        # maybe a deviation that stayed invisible for some steps
                b["id"] = len(unexplained) + 1
                unexplained.append(b)
    keys = classify(workdir("c15wk"), "walks_dev", unexplained)
    for res in results:
        for b in res["walk"]["bad"]:
            k = b.get("key") or keys.get(b.get("id"))
            chk.violation({"kind": "walk", "cfg": b["cfg"], "events": b["events"]},
                          {x: v for x, v in b.items() if x in ("stage", "failing", "observed", "admitted")}, key=k)
    chk.add("walk_steps", steps)
    chk.evals += steps
    chk.add("states", ex["states"])
    chk.add("transitions", ex["transitions"])
    chk.add("transitions_exported", ex["rows"])


# ================================================================ code -> spec
def random_config(rnd: random.Random, cid: str) -> Dict[str, Any]:
    """Wider than what TLC enumerates: up to 3 registries, 6 names, more pre-existing tags."""
    nreg = rnd.choice([1, 2, 2, 3])
    regs = [f"r{i + 1}" for i in range(nreg)]
    names = ["a", "b", "slot", "u", "fill", "x-y.z"]
    pre = [["slot", "builtin"], ["fill", "builtin"], ["u", "user"]]
    prot = rnd.choice([[], ["slot"], ["slot", "fill"], ["slot", "fill", "b"]])
    libof, fmt0, fmts = {}, {}, {}
    short_on: Dict[str, bool] = {}
    fixed = iter(["component", "c_a", "c_b"])
    for i, r in enumerate(regs):
        share = i > 0 and rnd.random() < 0.4
        l = libof[rnd.choice(regs[:i])] if share else f"L{i + 1}"
        libof[r] = l
    for r in regs:
        l = libof[r]
        alone = sum(1 for q in regs if libof[q] == l) == 1
        if alone and rnd.random() < 0.35:                       # switching formatter, private library only
            fs = rnd.choice([["component", "short"], ["short", "component"], ["component", "c_x", "short"]])
            fmts[r], fmt0[r] = fs, fs[0]
        elif not short_on.get(l) and rnd.random() < 0.5:        # at most one shorthand registry per library
            fmt0[r] = "short"
            short_on[l] = True
        else:
            fmt0[r] = "component" if alone else next(fixed)     # distinct start tags on a shared library
    cfg = make_config(cid, regs, libof, fmt0, prot, fmts=fmts, names=names, classes=("A", "B", "C"),
                      ops=BASE_OPS + ["decorate"], pre=pre)
    cfg["style"] = [[r, "callable" if fmts.get(r) else rnd.choice(STYLES)] for r in regs]
    return cfg


def _event(e, obs, p) -> Dict[str, Any]:
    """One line of a recorded history in the form Trace_C15 reads (type-stable fields)."""
    ev = dict(e)
    ev.update(obs)
    if not isinstance(ev["yes"], bool):
        ev["res"], ev["yes"] = "badvalue:" + str(ev["yes"]), False
    if not isinstance(ev["all"], list):
        ev["res"], ev["all"] = "badvalue:" + str(ev["all"]), []
    ev["regs"], ev["libs"] = p["regs"], p["libs"]
    return ev


def classify(w: Path, name: str, items: List[Dict[str, Any]]) -> Dict[int, Optional[str]]:
    """items: [{id, cfg, events}] that the specification proper does not explain.  Second TLC pass
    with the named deviations admitted: id -> name of the one deviation that explains the history
    (KNOWN_FINDINGS key), or None."""
    if not items:
        return {}
    again = [{"id": t["id"], "cfg": dict(t["cfg"], dev=True), "events": t["events"]} for t in items]
    r2, v2 = run_trace_tlc(w, name, again)
    names: Dict[int, List[str]] = {}
    if v2 is not None:
        for line in r2.out.splitlines():
            m = re.match(r'<<"DEV", (\d+), \{(.*)\}>>', line)
            if m:
                names[int(m.group(1))] = re.findall(r'"([^"]+)"', m.group(2))
        for tid in v2["rejected"]:
            names.pop(tid, None)
    return {t["id"]: (names[t["id"]][0] if len(names.get(t["id"], [])) == 1 else None) for t in items}


def record_trace(rnd: random.Random, cfg: Dict[str, Any], length: int) -> List[Dict[str, Any]]:
    w = World(cfg)
    fmts = dict(cfg["fmts"])
    evs = []
    try:
        for _ in range(length):
            r = rnd.choice(cfg["regs"])
            n = rnd.choice(cfg["names"][:rnd.choice([2, 4, 6])])
            c = rnd.choice(cfg["classes"])
            x = rnd.random()
            if x < 0.34:
                e = {"op": "register", "r": r, "n": n, "c": c}
            elif x < 0.40:
                e = {"op": "decorate", "r": r, "n": n, "c": c}
            elif x < 0.62:
                e = {"op": "unregister", "r": r, "n": n, "c": "-"}
            elif x < 0.67:
                e = {"op": "clear", "r": r, "n": "-", "c": "-"}
            elif x < 0.75:
                e = {"op": "get", "r": r, "n": n, "c": "-"}
            elif x < 0.80:
                e = {"op": "has", "r": r, "n": n, "c": "-"}
            elif x < 0.85:
                e = {"op": "all", "r": r, "n": "-", "c": "-"}
            elif x < 0.90:
                e = {"op": "allmutate", "r": r, "n": "-", "c": "-"}
            elif fmts.get(r):
                e = {"op": "setfmt", "r": r, "n": rnd.choice(fmts[r]), "c": "-"}
            else:
                e = {"op": "register", "r": r, "n": n, "c": c}
            obs = w.call(e)
            evs.append(_event(e, obs, w.project()))
    finally:
        w.dispose()
    return evs


def run_trace_tlc(w: Path, name: str, traces: List[Dict[str, Any]]):
    f = w / f"{name}.ndjson"
    tlc.write_ndjson(f, traces)
    cfgp = w / "trace.cfg"
    cfgp.write_text(TRACE_CFG)
    r = tlc.run("Trace_C15", str(cfgp), env={"IN": str(f)}, workers=1, heap="2g")
    if r.violated:
        return r, None
    tlc.require_ok(r, f"Trace_C15 {name}")
    return r, tlc.verdicts(r, len(traces), f"Trace_C15 {name}")


def validate_traces(chk: Check, ntraces: int, length: int) -> None:
    rnd = random.Random(chk.seed * 6151 + 1515)
    w = workdir("c15tr")
    traces = []
    for i in range(ntraces):
        cfg = random_config(rnd, f"R{i + 1}")
        traces.append({"id": i + 1, "cfg": cfg, "events": record_trace(rnd, cfg, length)})
    r, v = run_trace_tlc(w, "traces", traces)
    if v is None:
        chk.violation({"kind": "trace-invariant"}, {"violated": r.violated, "tlc_tail": r.out.splitlines()[-30:]})
        return
    chk.add("trace_states", r.distinct)
    rejected = sorted(v["rejected"])
    # classification only: is the rejected history explained by a named known deviation?
    keys = classify(w, "rejected_dev", [traces[tid - 1] for tid in rejected])
    for tid in rejected:
        t, why = traces[tid - 1], v["rejected"][tid]
        chk.violation({"kind": "trace", "cfg": t["cfg"], "events": t["events"][: why["event"]]}, why,
                      key=keys.get(tid))
    for t in traces:
        chk.count([t["cfg"]["libof"], t["cfg"]["fmt0"], [[e["op"], e["r"], e["n"], e["c"]] for e in t["events"]]])
    chk.sample({"trace_head": {"cfg": {k: traces[0]["cfg"][k] for k in ("regs", "libof", "fmt0", "fmts", "prot")},
                               "events": traces[0]["events"][:3]}}, limit=6)
    chk.add("traces_validated_against_impl", len(traces))
    chk.add("trace_events", sum(len(t["events"]) for t in traces))


# ================================================================ layer B: implementation-shaped model
IMPL_CFG = ("SPECIFICATION ImplSpec\nCONSTANT ImplConfigs <- MCImplConfigs\nCONSTANT Fix = {fix}\nVIEW implView\n"
            "INVARIANT RefsExact\nINVARIANT ImplTagIffUsed\nINVARIANT ImplProtectedUntouched\nPROPERTY StepRefines\n")


def impl_model(chk: Check, cfgs: List[Dict[str, Any]]) -> None:
    """specs/RegistryImpl.tla models the three tables of component_registry.py.  TLC checks that it
    refines the specification (a) as the code is (Fix = TRUE: register() releases the old tag of a
    component re-registered under another formatter, commit 57c7c8f), on every configuration - a
    counterexample is replayed on the real code and only the real outcome counts (section 2.4 of
    DESIGN.md: B # A is a design-level counterexample, R # A a violation, R = A with B # R model
    drift); (b) control: as the code was before 57c7c8f (Fix = FALSE), with a switching formatter -
    TLC must find the old deviation, and the real code, driven through that counterexample, must
    conform (if it reproduces it, the deviation is back: violation)."""
    w = workdir("c15b")
    switching = [c for c in cfgs if any(f for _, f in c["fmts"])]
    runs = [("current/all", cfgs, "TRUE"), ("before-57c7c8f/switching", switching, "FALSE")]
    runs = [r for r in runs if r[1]]

    def one(i_run):
        i, (name, cs, fix) = i_run
        cf, cfgp = w / f"cfgs{i}.ndjson", w / f"impl{i}.cfg"
        tlc.write_ndjson(cf, cs)
        cfgp.write_text(IMPL_CFG.format(fix=fix))
        r = tlc.run("MC_C15B", str(cfgp), env={"CFG": str(cf)}, workers=1, heap="2g")   # 1: same counterexample every run
        if not r.ok and not r.violated:
            tlc.require_ok(r, f"MC_C15B {name}")
        return r

    with ThreadPoolExecutor(max_workers=3) as ex:
        results = list(ex.map(one, enumerate(runs)))
    info = {}
    for (name, cs, fix), r in zip(runs, results):
        info[name] = {"refines": not r.violated, "states": r.distinct, "transitions": r.generated,
                      "violated": r.violated}
        chk.add("impl_states", r.distinct)
        chk.add("impl_transitions", r.generated)
        if not r.violated:
            if fix == "FALSE":
                raise MachineryError(f"MC_C15B {name}: the control model (no release of the old tag) refines the "
                                     "specification - the refinement check has lost its teeth")
            continue
        # TLC's counterexample: the calls, in order, and the configuration it happened in
        calls = []
        for m in re.finditer(r"last = (\[[^\]]*\])", r.out):
            f = dict(re.findall(r'(\w+) \|-> "([^"]*)"', m.group(1)))
            if f.get("op") and f["op"] != "init":
                calls.append({k: f[k] for k in ("op", "r", "n", "c")})
        m = re.search(r'\bid \|-> "([^"]+)"', r.out)
        cfg = next((c for c in cs if m and c["id"] == m.group(1)), None)
        if not calls or cfg is None:
            raise MachineryError(f"MC_C15B {name}: cannot read the counterexample\n" + r.out[-1500:])
        info[name]["counterexample"] = {"cfg": cfg["id"], "calls": calls}
        # the model leaves out nothing that could hide the divergence: extend the history by what makes
        # it observable (drop everything) and let the real code decide
        hist = calls + [{"op": "clear", "r": r_, "n": "-", "c": "-"} for r_ in cfg["regs"]]
        wd = World(cfg)
        try:
            evs = []
            for e in hist:
                obs = wd.call(e)
                evs.append(_event(e, obs, wd.project()))
        finally:
            wd.dispose()
        tr = {"id": 1, "cfg": cfg, "events": evs}
        r1, v1 = run_trace_tlc(w, f"cex{len(info)}", [tr])
        chk.count(["impl-counterexample", name, cfg["id"], hist])
        if v1 is not None and 1 in v1["accepted"]:
            if fix == "FALSE":                        # expected: the code no longer is this model
                info[name]["real_code"] = "conforms (the deviation of the old code is gone)"
            else:
                chk.add("model_drift", 1)             # the real code conforms: the model is out of date
                info[name]["real_code"] = "conforms (model drift)"
        else:
            why = {"violated": r1.violated} if v1 is None else v1["rejected"][1]
            key = classify(w, f"cexdev{len(info)}", [tr]).get(1)
            info[name]["real_code"] = f"reproduces ({key})"
            chk.violation({"kind": "trace", "cfg": cfg, "events": evs, "from": "TLC counterexample of MC_C15B " + name},
                          why, key=key)
    chk.cov["impl_model"] = info


# ================================================================ entry points
def core(chk: Check, cfgs, procs: int, walk_steps: int, ntraces: int, length: int, nbins: int = 4,
         cache: bool = False, impl: bool = False, seq: Optional[Dict[str, int]] = None) -> None:
    spec_to_code(chk, cfgs, procs, walk_steps, nbins=nbins, cache=cache, seq=seq)
    validate_traces(chk, ntraces, length)
    if impl:
        impl_model(chk, cfgs)


def run(tier: str) -> int:
    from . import boot
    boot.setup()
    _lib()
    chk = Check(PID, tier, "model_checking")
    quick = tier == "quick"
    cfgs = mc_configs(tier)
    core(chk, cfgs, procs=6, walk_steps=3000 if quick else 20000,
         ntraces=300 if quick else 3000, length=40 if quick else 80, nbins=4 if quick else 8, impl=True,
         seq={"S1-short-p1": 5, "S1-component-p1": 5} if quick else
             {"S1-short-p1": 6, "S1-component-p1": 6, "S1-short-p0": 6, "S3-short-p1": 5})
    chk.cov["configurations"] = [c["id"] for c in cfgs]
    chk.cov["exhaustive"] = True
    chk.cov["rule"] = (
        "every transition of the TLC state graph of Registry for every listed configuration (3 names incl. a "
        "protected tag name and a pre-existing user tag x 2-3 classes x 1-2 registries x default/shorthand/"
        "switching formatter x protected on/off x private/shared library) is exported by TLC with the admitted "
        "outcomes and replayed on fresh real registries driven along a shortest path of the same graph; plus "
        "seeded walks over the graph on persistent objects; plus random histories on wider configurations "
        "validated by Trace_C15. A case = (configuration, source world, call). Non-trivial = the call mutates "
        "or the source registries are non-empty; distinct by hash of the case")
    chk.assumptions += [
        "projection = registry.all() of every registry + Library.tags of every library (identity of the two "
        "pre-existing tag functions, everything else counts as a component tag)",
        "transition coverage implies agreement on all call sequences inside the bound only if the projection "
        "captures all behaviour-relevant state; the walks and the recorded traces exercise long histories on the "
        "same objects to test that assumption",
        "Has is observed as `name in registry.all()` (no registry.has() in this snapshot)",
        "harness removes its own registries from component_registry.all_registries after each case",
    ]
    return chk.finish()


def replay(path: str) -> int:
    from . import boot
    boot.setup()
    _lib()
    d = json.load(open(path))
    case = d["case"]
    if case.get("kind") == "transition":
        w = World(case["cfg"])
        for e in case["path"]:
            w.call(e)
        before = w.project()
        obs = w.call(case["call"])
        after = w.project()
        for k, v in (("path", case["path"]), ("call", case["call"]), ("before", before), ("observed", obs),
                     ("after", after), ("admitted", case.get("admitted"))):
            print(f"{k}: {json.dumps(v)}")
        adm = case.get("admitted") or []
        ok = any(not mismatch(obs, after, a["res"], a["cls"], a["yes"], a["all"], a["post"], a["maybe"]) for a in adm)
        return 0 if ok else 1
    if case.get("kind") in ("walk", "trace"):
        w = World(case["cfg"])
        evs = []
        for e in [{k: e[k] for k in ("op", "r", "n", "c")} for e in case["events"]]:
            obs = w.call(e)
            evs.append(_event(e, obs, w.project()))
        wd = workdir("c15rp")
        r, v = run_trace_tlc(wd, "replay", [{"id": 1, "cfg": dict(case["cfg"], dev=False), "events": evs}])
        verdict = "invariant violated" if v is None else ("ACCEPT" if 1 in v["accepted"] else v["rejected"][1])
        print(f"calls: {json.dumps([[e['op'], e['r'], e['n'], e['c']] for e in evs])}")
        if isinstance(verdict, dict):
            print(f"rejected event: {json.dumps(evs[verdict['event'] - 1])}")
        print(f"verdict: {json.dumps(verdict, default=repr)}")
        return 0 if v is not None and 1 in v["accepted"] else 1
    print("unknown case kind")
    return 2


# ================================================================ selftest
def _selftest_configs() -> List[Dict[str, Any]]:
    keep = ("T1-", "T2-component-short-p1", "T2-short-short-p1", "T3-c_a-short-p1", "T3-c_a-c_b-p1", "T4-")
    return [c for c in mc_configs("quick") if c["id"].startswith(keep)]


def _corruption_tests() -> int:
    """Trace_C15 must reject a recorded history in which one observed field was altered, at that
    event and with the clause that names the field."""
    rnd = random.Random(151515)
    w = workdir("c15cor")
    base = []
    for i in range(12):
        cfg = random_config(rnd, f"K{i}")
        base.append({"cfg": cfg, "events": record_trace(rnd, cfg, 30)})
    r, v = run_trace_tlc(w, "base", [dict(t, id=i + 1) for i, t in enumerate(base)])
    if v is None or v["rejected"]:
        # histories involving the known deviation may be rejected; use only accepted ones
        pass
    good = [t for i, t in enumerate(base) if v is not None and (i + 1) in v["accepted"]]
    muts = []

    def mutate(t, pos, clause, fn):
        evs = json.loads(json.dumps(t["events"]))
        fn(evs[pos])
        muts.append(({"id": len(muts) + 1, "cfg": t["cfg"], "events": evs}, pos + 1, clause))

    for t in good:
        evs = t["events"]
        for pos, e in enumerate(evs):
            if e["res"] == "ok" and e["op"] == "register" and e["regs"]:
                mutate(t, pos, "res", lambda x: x.update(res="AlreadyRegistered"))
                mutate(t, pos, "reg", lambda x: x["regs"].pop())
                mutate(t, pos, "reg", lambda x: x["regs"][0].__setitem__(2, "C" if x["regs"][0][2] != "C" else "B"))
                mutate(t, pos, "lib", lambda x: x["libs"].append([x["libs"][0][0], "ghost", "comp"]))
                mutate(t, pos, "lib", lambda x: x["libs"].pop(0))
                break
        for pos, e in enumerate(evs):
            if e["op"] == "has":
                mutate(t, pos, "yes", lambda x: x.update(yes=not x["yes"]))
                break
        for pos, e in enumerate(evs):
            if e["op"] == "get" and e["res"] == "ok":
                mutate(t, pos, "cls", lambda x: x.update(cls="C" if x["cls"] != "C" else "A"))
                mutate(t, pos, "res", lambda x: x.update(res="NotRegistered", cls="-"))
                break
        for pos, e in enumerate(evs):
            if e["op"] == "all" and e["all"]:
                mutate(t, pos, "all", lambda x: x["all"].pop())
                break
        for pos, e in enumerate(evs):
            if any(o == "builtin" for _, _, o in e["libs"]) and pos > 3:
                def f(x):
                    for y in x["libs"]:
                        if y[2] == "builtin":
                            y[2] = "comp"
                            return
                mutate(t, pos, "lib", f)
                break
    if not muts:
        print("  corrupted traces: none could be built")
        return 1
    r, v = run_trace_tlc(w, "corrupt", [m for m, _, _ in muts])
    okc = 0
    for m, pos, clause in muts:
        why = None if v is None else v["rejected"].get(m["id"])
        if why and why["event"] == pos and all(clause in c for c in re.findall(r"\{([^{}]*)\}", why["clauses"])):
            okc += 1
        else:
            print(f"  corrupted trace {m['id']} ({clause} at event {pos}): NOT rejected as expected: {why}")
    print(f"  corrupted traces: {okc}/{len(muts)} rejected at the altered event with the right clause "
          f"({len(good)} accepted base traces)")
    return 0 if okc == len(muts) else 1


def selftest(tier: str) -> int:
    """In-process mutation probes (never touch /repo) + corrupted-trace tests."""
    from contextlib import contextmanager
    from . import boot
    from .core import run_probes
    boot.setup()
    L = _lib()
    cr, dc = L["cr"], L["dc"]
    CR = cr.ComponentRegistry
    from django_components.library import is_tag_protected
    from django_components.tag_formatter import get_tag_formatter

    @contextmanager
    def patch(*triples):
        olds = []
        for obj, name, new in triples:
            olds.append((obj, name, getattr(obj, name)))
            setattr(obj, name, new)
        try:
            yield
        finally:
            for obj, name, old in reversed(olds):
                setattr(obj, name, old)

    o_init, o_register, o_unregister, o_clear, o_all = CR.__init__, CR.register, CR.unregister, CR.clear, CR.all

    def tag_deleted_while_used():
        def unregister(self, name):
            self.get(name)
            tag = self._registry[name].tag
            self._tags[tag].discard(name)
            if not self._tags[tag]:
                del self._tags[tag]
            if not is_tag_protected(self.library, tag) and tag in self.library.tags:
                del self.library.tags[tag]              # BUG: even if other components still use it
            del self._registry[name]
        return patch((CR, "unregister", unregister))

    def tag_never_deleted():
        def unregister(self, name):
            self.get(name)
            tag = self._registry[name].tag
            self._tags[tag].discard(name)
            if not self._tags[tag]:
                del self._tags[tag]
            del self._registry[name]                    # BUG: tag stays in the library
        return patch((CR, "unregister", unregister))

    def clear_only_resets_dicts():
        def clear(self):
            self._registry = {}
            self._tags = {}
        return patch((CR, "clear", clear))

    def clear_wipes_foreign_tags():
        def clear(self):
            o_clear(self)
            for t in list(self.library.tags):           # BUG: also the user's / other registries' tags
                if not is_tag_protected(self.library, t):
                    del self.library.tags[t]
        return patch((CR, "clear", clear))

    def same_class_refused():
        def register(self, name, component):
            if name in self._registry:
                raise cr.AlreadyRegistered(name)
            return o_register(self, name, component)
        return patch((CR, "register", register))

    def other_class_overwrites():
        def register(self, name, component):
            if name in self._registry:
                self.unregister(name)
            return o_register(self, name, component)
        return patch((CR, "register", register))

    def protection_ignored_on_register():
        return patch((cr, "register_tag", lambda library, tag, fn: library.tag(tag, fn)))

    def get_returns_none():
        return patch((CR, "get", lambda self, name: self._registry[name].cls if name in self._registry else None))

    def unregister_missing_is_silent():
        def unregister(self, name):
            if name not in self._registry:
                return
            return o_unregister(self, name)
        return patch((CR, "unregister", unregister))

    def exception_classes_swapped():
        def get(self, name):
            if name not in self._registry:
                raise cr.AlreadyRegistered(name)
            return self._registry[name].cls
        return patch((CR, "get", get))

    def all_returns_cached_dict():
        def all_(self):
            c = self.__dict__.get("_vf_cache")
            if c is None:
                c = self.__dict__["_vf_cache"] = o_all(self)
            return c                                    # BUG: the cache itself, not a copy

        def inval(orig):
            def f(self, *a, **kw):
                self.__dict__["_vf_cache"] = None
                return orig(self, *a, **kw)
            return f
        return patch((CR, "all", all_), (CR, "register", inval(o_register)),
                     (CR, "unregister", inval(o_unregister)), (CR, "clear", inval(o_clear)))

    def tags_shared_between_registries():
        shared: Dict[str, Any] = {}

        def init(self, *a, **kw):
            o_init(self, *a, **kw)
            self._tags = shared                          # BUG: class-level instead of per-instance state
        return patch((CR, "__init__", init))

    def decorator_returns_none():
        def register(name, registry=None):
            def deco(component):
                (registry or cr.registry).register(name=name, component=component)
            return deco
        return patch((dc, "register", register), (cr, "register", register))

    def entry_stored_before_tag_check():
        def register(self, name, component):
            existing = self._registry.get(name)
            if existing and existing.cls._class_hash != component._class_hash:
                raise cr.AlreadyRegistered(name)
            tag = get_tag_formatter(self).start_tag(name)
            self._registry[name] = cr.ComponentRegistryEntry(cls=component, tag=tag)   # BUG: before the check
            self._tags.setdefault(tag, set()).add(name)
            self._register_to_library(name, component)
        return patch((CR, "register", register))

    def protected_name_registered_without_tag():
        def register(self, name, component):
            try:
                return o_register(self, name, component)
            except dc.TagProtectedError:
                tag = get_tag_formatter(self).start_tag(name)
                self._registry[name] = cr.ComponentRegistryEntry(cls=component, tag=tag)
                self._tags.setdefault(tag, set()).add(name)
        return patch((CR, "register", register))

    def unregister_uses_current_formatter():
        def unregister(self, name):
            self.get(name)
            tag = get_tag_formatter(self).start_tag(name)       # BUG: not the tag stored at registration
            names = self._tags.get(tag, set())
            names.discard(name)
            if not names:
                self._tags.pop(tag, None)
                if not is_tag_protected(self.library, tag) and tag in self.library.tags:
                    del self.library.tags[tag]
            del self._registry[name]
        return patch((CR, "unregister", unregister))

    def reregister_keeps_old_tag():
        # the code before commit 57c7c8f: the same class registered again after the formatter changed
        # gets the new tag, the reference on the old tag is never released
        def register(self, name, component):
            existing = self._registry.get(name)
            if existing and existing.cls._class_hash != component._class_hash:
                raise cr.AlreadyRegistered(name)
            entry = self._register_to_library(name, component)
            self._tags.setdefault(entry.tag, set()).add(name)
            self._registry[name] = entry
        return patch((CR, "register", register))

    def unregister_removes_protected_builtin():
        # shorthand: unregistering a name drops the tag of that name even if it is someone else's
        def unregister(self, name):
            o_unregister(self, name)
            if name in self.library.tags and name not in self._tags:
                del self.library.tags[name]
        return patch((CR, "unregister", unregister))

    def dotted_name_keeps_its_tag():
        # only visible beyond TLC's bound: the name "x-y.z" occurs only in the recorded traces
        def unregister(self, name):
            if "." not in name:
                return o_unregister(self, name)
            self.get(name)
            tag = self._registry[name].tag
            self._tags[tag].discard(name)
            if not self._tags[tag]:
                del self._tags[tag]
            del self._registry[name]                    # BUG: tag of a dotted name is never removed
        return patch((CR, "unregister", unregister))

    cfgs = _selftest_configs()

    def body(chk):
        core(chk, cfgs, procs=4, walk_steps=400, ntraces=120, length=40, cache=True)

    probes = [("tag-deleted-while-still-used", tag_deleted_while_used),
              ("tag-never-deleted", tag_never_deleted),
              ("clear-only-resets-dicts", clear_only_resets_dicts),
              ("clear-wipes-foreign-tags", clear_wipes_foreign_tags),
              ("same-class-refused", same_class_refused),
              ("other-class-overwrites-silently", other_class_overwrites),
              ("protection-ignored-on-register", protection_ignored_on_register),
              ("get-returns-None-for-missing", get_returns_none),
              ("unregister-missing-is-silent", unregister_missing_is_silent),
              ("NotRegistered-swapped-for-AlreadyRegistered", exception_classes_swapped),
              ("all-returns-cached-dict-not-copy", all_returns_cached_dict),
              ("_tags-shared-between-registries", tags_shared_between_registries),
              ("decorator-returns-None", decorator_returns_none),
              ("entry-stored-before-protected-check", entry_stored_before_tag_check),
              ("protected-name-registered-without-tag", protected_name_registered_without_tag),
              ("unregister-uses-current-formatter", unregister_uses_current_formatter),
              ("reregister-after-fmt-switch-keeps-old-tag", reregister_keeps_old_tag),
              ("unregister-drops-foreign-tag-of-same-name", unregister_removes_protected_builtin),
              ("dotted-name-keeps-its-tag (recorded traces only)", dotted_name_keeps_its_tag)]
    rc = run_probes(PID, probes, body)
    rc2 = _corruption_tests()
    return 1 if (rc or rc2) else 0
