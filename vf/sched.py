"""Cooperative scheduler + traced registries (C07): an interleaving is a list of thread names.

The module-level dict / set registries of the library (provide_cache, provide_references,
all_reference_ids, component_context_cache, component_renderer_cache, child_component_attrs) are
replaced by subclasses that call the scheduler BEFORE every operation (each is atomic under the
GIL), and a sys.settrace hook yields before every line of the watched source files (LRU cache,
lazy caches, media resolution).  Exactly one worker thread runs at a time; the controller decides
who runs next from a schedule (replay) or a policy (exploration).  No /repo hooks are needed.
"""
from __future__ import annotations

import sys
import threading
from typing import Any, Callable, Dict, List, Optional, Sequence

_local = threading.local()


class Deadlock(Exception):
    pass


class Scheduler:
    def __init__(self, chooser: Callable[[List[int], int, List[str]], int]):
        self.chooser = chooser            # (runnable thread indexes, current, labels) -> thread index
        self.cv = threading.Condition()
        self.turn: Optional[int] = None
        self.waiting: Dict[int, str] = {}  # thread -> label of the operation it is about to do
        self.done: Dict[int, bool] = {}
        self.trace: List[List[Any]] = []   # [thread, label] in execution order
        self.active = False
        self.blocked: Dict[int, Any] = {}  # thread -> CoopRLock it waits for

    # called from worker threads ---------------------------------------------------------
    def yield_point(self, label: str) -> None:
        me = getattr(_local, "tid", None)
        if me is None or not self.active:
            return
        with self.cv:
            self.waiting[me] = label
            self.turn = None
            self.cv.notify_all()
            while self.turn != me:
                self.cv.wait()
            self.waiting.pop(me, None)
            self.trace.append([me, label])

    def _finish(self, me: int) -> None:
        with self.cv:
            self.done[me] = True
            self.turn = None
            self.cv.notify_all()

    # controller -----------------------------------------------------------------------------
    def run(self, tasks: Sequence[Callable[[], Any]], timeout: float = 60.0) -> List[Dict[str, Any]]:
        results: List[Dict[str, Any]] = [{} for _ in tasks]
        threads = []
        self.active = True

        def worker(i: int, fn: Callable[[], Any]) -> None:
            _local.tid = i
            install_line_tracer(self)
            with self.cv:
                self.waiting[i] = "start"
                self.cv.notify_all()
                while self.turn != i:
                    self.cv.wait()
                self.waiting.pop(i, None)
            try:
                results[i]["value"] = fn()
            except BaseException as e:  # noqa: BLE001
                results[i]["error"] = type(e).__name__
                results[i]["msg"] = str(e)[:300]
            finally:
                sys.settrace(None)
                self._finish(i)

        for i, fn in enumerate(tasks):
            self.done[i] = False
            t = threading.Thread(target=worker, args=(i, fn), daemon=True)
            threads.append(t)
            t.start()
        cur = -1
        with self.cv:
            while True:
                # wait until every live thread is parked
                ok = self.cv.wait_for(lambda: self.turn is None and all(self.done[i] or i in self.waiting
                                                                        for i in range(len(tasks))), timeout=timeout)
                if not ok:
                    self.active = False
                    raise Deadlock("threads did not park within the timeout")
                live = [i for i in range(len(tasks)) if not self.done[i]]
                if not live:
                    break
                runnable = [i for i in live if not (i in self.blocked and self.blocked[i].owner not in (None, i))]
                if not runnable:
                    self.active = False
                    raise Deadlock("every live thread waits for a lock")
                cur = self.chooser(runnable, cur, [self.waiting.get(i, "") for i in range(len(tasks))])
                self.turn = cur
                self.cv.notify_all()
        self.active = False
        for t in threads:
            t.join(timeout=5)
        return results


# ------------------------------------------------------------------ cooperative lock
class CoopRLock:
    """Stands in for the library's threading.RLock objects under the scheduler: acquiring is a yield
    point (the entry of a critical section), a thread waiting for a lock another thread holds is not
    runnable.  Without an active scheduler it behaves like a plain RLock."""

    def __init__(self, name: str = "lock"):
        self.name = name
        self.owner: Optional[int] = None
        self.count = 0
        self._real = threading.RLock()

    def acquire(self, blocking: bool = True, timeout: float = -1) -> bool:
        s = _line_sched
        me = getattr(_local, "tid", None)
        if s is None or not s.active or me is None:
            return self._real.acquire(blocking, timeout)
        if self.owner == me:           # re-entrant: not a new critical section
            self.count += 1
            return True
        if YIELD_LOCKS and self.name not in YIELD_LOCKS and self.owner is None:
            self.owner = me            # not a yield point in this run (only one thread runs at a time)
            self.count += 1
            return True
        while True:
            if self.owner not in (None, me):
                s.blocked[me] = self
            s.yield_point(self.name + ".acquire")
            s.blocked.pop(me, None)
            if self.owner in (None, me):
                self.owner = me
                self.count += 1
                return True

    def release(self) -> None:
        s = _line_sched
        me = getattr(_local, "tid", None)
        if s is None or not s.active or me is None:
            return self._real.release()
        self.count -= 1
        if self.count == 0:
            self.owner = None

    def __enter__(self):
        self.acquire()
        return self

    def __exit__(self, *a):
        self.release()


# ------------------------------------------------------------------ traced registries
class TDict(dict):
    _name = "dict"
    _sched: Optional[Scheduler] = None

    def _y(self, op, key=None):
        s = type(self)._sched
        if s is not None:
            s.yield_point(f"{self._name}.{op}")

    def __getitem__(self, k):
        self._y("get")
        return dict.__getitem__(self, k)

    def __setitem__(self, k, v):
        self._y("set")
        return dict.__setitem__(self, k, v)

    def __delitem__(self, k):
        self._y("del")
        return dict.__delitem__(self, k)

    def __contains__(self, k):
        self._y("in")
        return dict.__contains__(self, k)

    def __bool__(self):
        self._y("bool")
        return dict.__len__(self) > 0

    def pop(self, *a):
        self._y("pop")
        return dict.pop(self, *a)

    def keys(self):
        self._y("keys")
        return dict.keys(self)

    def update(self, *a, **kw):
        self._y("update")
        return dict.update(self, *a, **kw)

    def get(self, *a):
        self._y("getd")
        return dict.get(self, *a)


class TSet(set):
    _name = "set"
    _sched: Optional[Scheduler] = None

    def _y(self, op):
        s = type(self)._sched
        if s is not None:
            s.yield_point(f"{self._name}.{op}")

    def add(self, x):
        self._y("add")
        return set.add(self, x)

    def remove(self, x):
        self._y("remove")
        return set.remove(self, x)

    def copy(self):
        self._y("copy")
        return set(set.copy(self))

    def __contains__(self, x):
        self._y("in")
        return set.__contains__(self, x)

    def __sub__(self, o):
        self._y("sub")
        return set(set.__sub__(self, o))


_installed: Dict[str, Any] = {}
LOCKS: List[str] = []
YIELD_LOCKS: set = set()      # if non-empty: only these locks are yield points


def install_traced_registries() -> List[str]:
    """Replace the library's module-level registries by traced ones (once); returns what was bound."""
    if _installed:
        return list(_installed)
    import django_components.perfutil.component as pc
    import django_components.perfutil.provide as pp
    targets = [(pp, "provide_cache", TDict), (pp, "provide_references", TDict), (pp, "all_reference_ids", TSet),
               (pc, "component_context_cache", TDict), (pc, "component_renderer_cache", TDict),
               (pc, "child_component_attrs", TDict)]
    for mod, name, base in targets:
        old = getattr(mod, name, None)
        if old is None:
            continue
        cls = type("T_" + name, (base,), {"_name": name})
        new = cls(old)
        for m in list(sys.modules.values()):
            if m is None or not getattr(m, "__name__", "").startswith("django_components"):
                continue
            for attr, val in list(vars(m).items()):
                if val is old:
                    setattr(m, attr, new)
        _installed[name] = (cls, new)
    # the library's locks become cooperative ones
    if hasattr(pp, "_provide_lock"):
        pp._provide_lock = CoopRLock("provide_lock")
        LOCKS.append("provide_lock")
    import django_components.util.cache as uc
    if hasattr(uc, "threading"):
        class _Shim:
            RLock = staticmethod(lambda: CoopRLock("lru_lock"))
            Lock = staticmethod(lambda: CoopRLock("lru_lock"))
        uc.threading = _Shim
        LOCKS.append("lru_lock")
    return list(_installed)


def set_scheduler(s: Optional[Scheduler], registries: bool = True) -> None:
    """registries=False: yield only at the entries of critical sections (locks), not at registry operations."""
    for cls, _ in _installed.values():
        cls._sched = s if registries else None
    global _line_sched
    _line_sched = s


def registries_empty() -> Dict[str, int]:
    out = {}
    for name, (cls, obj) in _installed.items():
        k = dict.__len__(obj) if isinstance(obj, dict) else set.__len__(obj)
        if k:
            out[name] = k
    return out


def clear_registries() -> None:
    for name, (cls, obj) in _installed.items():
        if isinstance(obj, dict):
            dict.clear(obj)
        else:
            set.clear(obj)


# ------------------------------------------------------------------ line-level yield points
WATCH = ("django_components/util/cache.py", "django_components/cache.py", "django_components/template.py",
         "django_components/component_media.py")
WATCH_EXTRA: List[str] = []        # further source files (suffixes) to pre-empt in, set by a check for one exploration
_line_sched: Optional[Scheduler] = None
WATCH_ON = [False]


def install_line_tracer(s: Scheduler) -> None:
    if not WATCH_ON[0]:
        return

    def local(frame, event, arg):
        if event == "line":
            s.yield_point("line:" + frame.f_code.co_filename.rsplit("/", 1)[-1] + ":" + frame.f_code.co_name)
        return local

    def tracer(frame, event, arg):
        fn = frame.f_code.co_filename
        if fn.endswith(WATCH) or (WATCH_EXTRA and fn.endswith(tuple(WATCH_EXTRA))):
            return local
        return None
    sys.settrace(tracer)


# ------------------------------------------------------------------ choosers
def schedule_chooser(schedule: Sequence[int], fallback: str = "stay"):
    """Replay: follow `schedule` (thread index per step); afterwards a deterministic default."""
    it = iter(schedule)
    diverged = [False]

    def choose(runnable, cur, labels):
        for want in it:
            if want in runnable:
                return want
            diverged[0] = True
        return cur if cur in runnable else runnable[0]
    choose.diverged = diverged            # type: ignore[attr-defined]
    return choose


def preemption_chooser(points: Sequence[int]):
    """Run thread 0, 1, ... to completion, but pre-empt (switch to the next runnable thread) at the
    given global step numbers."""
    step = [0]
    pts = set(points)

    def choose(runnable, cur, labels):
        step[0] += 1
        if cur in runnable and step[0] not in pts:
            return cur
        others = [r for r in runnable if r != cur]
        if cur in runnable and others:
            return others[(step[0]) % len(others)]
        return runnable[0]
    return choose


def random_chooser(rnd, switch_p: float = 0.3):
    def choose(runnable, cur, labels):
        if cur in runnable and rnd.random() > switch_p:
            return cur
        return rnd.choice(runnable)
    return choose
