"""Worker pool for real-code executions: forked workers (Django already booted), a SIGALRM
watchdog per case and a hard timeout per chunk."""
from __future__ import annotations

import multiprocessing as mp
import os
import resource
import signal
from concurrent.futures import ProcessPoolExecutor, TimeoutError as FutTimeout
from typing import Any, Callable, List, Sequence

from .core import MachineryError


class Hang(BaseException):
    pass


def _alarm(signum, frame):
    raise Hang()


def guarded(fn: Callable[[Any], Any], item: Any, seconds: float) -> Any:
    """Run fn(item) under a budget of `seconds` of CPU time of this process (SIGPROF: a busy machine must not turn
    a slow case into a "hang") and 8 x `seconds` of wall-clock time (SIGALRM: a case that blocks without using the
    CPU); returns {"hang": True} when either is used up."""
    old = signal.signal(signal.SIGALRM, _alarm)
    oldp = signal.signal(signal.SIGPROF, _alarm)
    signal.setitimer(signal.ITIMER_REAL, seconds * 8)
    signal.setitimer(signal.ITIMER_PROF, seconds)
    try:
        return fn(item)
    except Hang:
        return {"hang": True}
    except RecursionError:
        return {"err": "RecursionError", "out": [], "junk": ""}
    except MemoryError:
        return {"err": "MemoryError", "out": [], "junk": ""}
    finally:
        signal.setitimer(signal.ITIMER_PROF, 0)
        signal.setitimer(signal.ITIMER_REAL, 0)
        signal.signal(signal.SIGALRM, old)
        signal.signal(signal.SIGPROF, oldp)


_MAIN_PID = os.getpid()


def _chunk(args):
    fn, items, seconds = args
    if os.getpid() != _MAIN_PID:      # never limit the main process (it starts JVMs)
        try:
            resource.setrlimit(resource.RLIMIT_AS, (6 << 30, 6 << 30))
        except Exception:
            pass
    return [guarded(fn, it, seconds) for it in items]


def pmap(fn: Callable[[Any], Any], items: Sequence[Any], *, workers: int = 12, per_item_s: float = 10.0,
         chunk: int = 40) -> List[Any]:
    """Ordered parallel map of a module-level function over items in forked workers."""
    items = list(items)
    if not items:
        return []
    workers = max(1, min(workers, (len(items) + chunk - 1) // chunk))
    chunks = [items[i:i + chunk] for i in range(0, len(items), chunk)]
    if workers == 1:
        out: List[Any] = []
        for c in chunks:
            out.extend(_chunk((fn, c, per_item_s)))
        return out
    from concurrent.futures.process import BrokenProcessPool
    ctx = mp.get_context("fork")
    out = []
    done_chunks = 0
    broken = False
    with ProcessPoolExecutor(max_workers=workers, mp_context=ctx) as ex:
        futs = [ex.submit(_chunk, (fn, c, per_item_s)) for c in chunks]
        try:
            for f, c in zip(futs, chunks):
                out.extend(f.result(timeout=per_item_s * 8 * len(c) + 120))
                done_chunks += 1
        except FutTimeout as e:
            for p in list(ex._processes.values()):
                p.kill()
            raise MachineryError("worker chunk exceeded its hard timeout") from e
        except BrokenProcessPool:
            broken = True
    if broken:
        # a worker died (e.g. the interpreter itself crashed on a runaway recursion): redo what is left one item per
        # process, so that the crashing item is identified and reported as {"crash": True} instead of losing the run
        rest = [it for c in chunks[done_chunks:] for it in c]
        import concurrent.futures as cf
        with cf.ThreadPoolExecutor(max_workers=min(8, workers)) as tex:
            out.extend(tex.map(lambda it: _isolated(fn, it, per_item_s), rest))
    return out


def _isolated(fn: Callable[[Any], Any], item: Any, seconds: float) -> Any:
    """fn(item) in a process of its own (fork); {"crash": True, ...} if that process dies."""
    import pickle
    r, w = os.pipe()
    pid = os.fork()
    if pid == 0:
        code = 1
        try:
            os.close(r)
            try:
                resource.setrlimit(resource.RLIMIT_AS, (6 << 30, 6 << 30))
            except Exception:
                pass
            data = pickle.dumps(guarded(fn, item, seconds))
            with os.fdopen(w, "wb") as f:
                f.write(data)
            code = 0
        finally:
            os._exit(code)
    os.close(w)
    with os.fdopen(r, "rb") as f:
        data = f.read()
    _, status = os.waitpid(pid, 0)
    if status != 0 or not data:
        return {"crash": True, "hang": True, "err": "WorkerCrash", "out": [], "junk": "", "status": status}
    return pickle.loads(data)
