"""Shared pipeline for the component-program properties: oracle (TLC evaluates
specs/DjcSemantics.tla on a batch of programs), real execution, comparison and
classification of disagreements through the named deviations of the specification."""
from __future__ import annotations

import json
from pathlib import Path
from typing import Any, Dict, Iterable, List, Optional, Sequence

from . import prog as P
from . import tlc
from .core import MachineryError, workdir
from .pool import pmap


def oracle(progs: Sequence[Dict[str, Any]], module: str = "Eval_Djc", workers: int = 1,
           nshards: int = 8) -> Dict[int, Dict[str, Any]]:
    """Expected observation of every program according to the TLA+ semantics (TLC batch runs,
    sharded over several JVMs for wall time)."""
    import concurrent.futures as cf
    progs = list(progs)
    if not progs:
        return {}
    w = workdir("oracle")
    # bounded chunks (one TLC run each) handed to a pool of `nshards` JVMs: wall time of a single run
    # stays far below the TLC timeout whatever the batch size
    size = max(50, min(300, -(-len(progs) // nshards)))
    shards = [progs[i:i + size] for i in range(0, len(progs), size)]
    stats = {"states": 0, "timeouts": 0}

    def evaluate(tag: str, part) -> Any:
        """TLC runs over `part`.  The evaluation of a rare program is pathologically slow (minutes; the same spec
        evaluates the others in milliseconds).  Eval_* evaluates the programs in order and appends one line per
        program, so after a timeout the lines written so far are kept, the program that was being evaluated is
        returned as an (unspecified) zone and counted - never guessed - and the run continues behind it."""
        rows: List[Dict[str, Any]] = []
        states = 0
        start = 0
        attempt = 0
        while start < len(part):
            sub = part[start:]
            attempt += 1
            fin, fout = w / f"in{tag}_{attempt}.ndjson", w / f"out{tag}_{attempt}.ndjson"
            tlc.write_ndjson(fin, sub)
            try:
                r = tlc.run(module, f"{module}.cfg", env={"IN": str(fin), "OUT": str(fout)}, workers=1, heap="3g",
                            timeout=120 + len(sub))
            except MachineryError as e:
                if "timeout" not in str(e):
                    raise
                done: List[Dict[str, Any]] = []
                if fout.exists():
                    for line in fout.read_text().splitlines():
                        try:
                            done.append(json.loads(line))
                        except ValueError:
                            break
                done = done[:len(sub) - 1]
                if [x["id"] for x in done] != [q["id"] for q in sub[:len(done)]]:
                    raise MachineryError("oracle output out of order after a timeout")
                rows += done
                slow = sub[len(done)]
                stats["timeouts"] += 1
                rows.append({"id": slow["id"], "out": [], "err": "", "errs": [], "zone": True, "insts": [], "tops": [],
                             "elems": [], "marks": [], "deps": {"ijs": [], "icss": [], "mjs": [], "mcss": []},
                             "oracle_timeout": True})
                start += len(done) + 1
                for f in (fin, fout):
                    if f.exists():
                        f.unlink()
                continue
            tlc.require_ok(r, f"{module} shard {tag}")
            got = tlc.read_ndjson(fout)
            if len(got) != len(sub):
                raise MachineryError(f"oracle returned {len(got)} results for {len(sub)} programs")
            rows += got
            states += r.distinct
            fin.unlink()
            fout.unlink()
            break
        return rows, states

    def one(k):
        return evaluate(str(k), shards[k])

    out: Dict[int, Dict[str, Any]] = {}
    with cf.ThreadPoolExecutor(max_workers=nshards) as ex:
        for rows, st in ex.map(one, range(len(shards))):
            stats["states"] += st
            for row in rows:
                out[row["id"]] = row
    oracle.last_states = stats["states"]
    oracle.timeouts += stats["timeouts"]
    return out


oracle.last_states = 0
oracle.timeouts = 0          # programs skipped because their TLC evaluation exceeded the budget (whole process)


def _real_one(prog):
    P.reset_library_state()
    P.install(prog)
    obs = P.render_page(prog)
    obs["dirty"] = P.reset_library_state()
    return obs


def real(progs: Sequence[Dict[str, Any]], workers: int = 12, per_item_s: float = 10.0) -> List[Dict[str, Any]]:
    return pmap(_real_one, progs, workers=workers, per_item_s=per_item_s)


def _real_rerender(args):
    """One process, components installed ONCE, page template compiled ONCE, rendered with each page context in
    turn (every compiled Template / NodeList / component class is re-used by the later renders): one
    observation per context."""
    prog, ctxs = args
    from django.template import Context, Template
    P.reset_library_state()
    P.install(prog)
    outs = []
    try:
        t = Template(P.page_src(prog))
    except Exception as e:  # noqa: BLE001
        return [{"err": type(e).__name__, "msg": str(e)[:300], "out": [], "junk": "", "ctx_changed": ""} for _ in ctxs]
    for c in ctxs:
        q = dict(prog, ctx=c)
        try:
            html = t.render(Context(P.page_context(q)))
            toks, junk = P.tokens(html)
            outs.append({"err": "", "out": toks, "junk": junk, "ctx_changed": ""})
        except Exception as e:  # noqa: BLE001 - the class is the observation
            outs.append({"err": type(e).__name__, "msg": str(e)[:300], "out": [], "junk": "", "ctx_changed": ""})
        P.reset_library_state()
    return outs


def real_rerender(progs, ctxs, workers: int = 12, per_item_s: float = 20.0):
    return pmap(_real_rerender, [(p, ctxs) for p in progs], workers=workers, per_item_s=per_item_s)


def mismatch(exp: Dict[str, Any], obs: Dict[str, Any]) -> Optional[Dict[str, Any]]:
    """None if the real observation equals the specification's; else the first divergence."""
    if obs.get("hang"):
        return {"what": "hang", "expected_err": exp["err"], "expected_out": exp["out"]}
    if exp["err"]:
        # several errors in one program: the properties do not say which one surfaces first
        if obs["err"] == exp["err"] or obs["err"] in exp.get("errs", []):
            return None
        return {"what": "error-class", "expected": exp["err"], "observed": obs["err"] or "no error",
                "msg": obs.get("msg", ""), "observed_out": obs.get("out")}
    if obs["err"]:
        return {"what": "unexpected-error", "observed": obs["err"], "msg": obs.get("msg", ""), "expected_out": exp["out"]}
    if obs["out"] != exp["out"]:
        i = 0
        while i < min(len(obs["out"]), len(exp["out"])) and obs["out"][i] == exp["out"][i]:
            i += 1
        return {"what": "tokens", "position": i, "expected": exp["out"][i:i + 4], "observed": obs["out"][i:i + 4],
                "expected_out": exp["out"], "observed_out": obs["out"]}
    if obs.get("junk"):
        return {"what": "junk-between-tokens", "junk": obs["junk"][:200]}
    return None


# ------------------------------------------------------------------ variants
def _real_variant(args):
    prog, dyn, probes = args
    P.reset_library_state()
    P.install(prog, dyn=dyn, probes=probes)
    obs = P.render_page(prog, dyn=dyn, probes=probes)
    obs["dirty"] = P.reset_library_state()
    return obs


def real_variant(progs, dyn=False, probes=False, workers=12, per_item_s=10.0):
    return pmap(_real_variant, [(p, dyn, probes) for p in progs], workers=workers, per_item_s=per_item_s)


# ------------------------------------------------------------------ TLC-enumerated programs
def mc_programs(alphabet: str, mode: str, maxnodes: int, workers: int = 4, timeout: int = 3000):
    """All pages with <= maxnodes nodes over the alphabet (specs/MC_Djc.tla), each with the
    observation the reference semantics expects.  Returns (programs, expected-by-id, tlc result)."""
    w = workdir("mcdjc")
    cfg = w / "mc.cfg"
    cfg.write_text("SPECIFICATION Spec\nCONSTANTS\n  MaxNodes = %d\n  Mode = \"%s\"\n  Alphabet = \"%s\"\n"
                   "INVARIANT SemanticsTheorems\nINVARIANT Export\nINVARIANT ExportLib\n" % (maxnodes, mode, alphabet))
    out, lib = w / "pages.ndjson", w / "lib.json"
    r = tlc.run("MC_Djc", str(cfg), env={"OUT": str(out), "LIB": str(lib)}, workers=workers if maxnodes < 4 else 10,
                timeout=timeout, heap="6g" if maxnodes < 4 else "10g")
    tlc.require_ok(r, f"MC_Djc {alphabet}/{mode}/{maxnodes}")
    libd = json.loads(lib.read_text().splitlines()[0])
    progs, exp = [], {}
    for i, row in enumerate(tlc.read_ndjson(out)):
        pid = i + 1
        progs.append({"id": pid, "mode": row["mode"], "devs": [], "dyn": False, "pyctx": False, "ctx": libd["ctx"], "comps": libd["comps"],
                      "page": row["page"]})
        exp[pid] = {"id": pid, "out": row["out"], "err": row["err"], "errs": row["errs"], "zone": row["zone"],
                    "insts": row["insts"], "elems": row["elems"], "marks": row["marks"], "deps": row["deps"]}
        if "depsB" in row:      # C04: the deliveries under the library's second asset alphabet (mc_programs.lib["assetsB"])
            exp[pid]["depsB"] = row["depsB"]
    mc_programs.lib = libd
    return progs, exp, r


mc_programs.lib = {}            # the exported library of the last enumeration (comps, ctx, assetsB)


# ------------------------------------------------------------------ compare + classify
def known_devs(chk) -> List[str]:
    return sorted(k[4:] for (pid, k) in chk.known.findings if pid == chk.pid and k.startswith("dev:"))


def _leak_shaped(p, e, o) -> bool:
    if e["err"] or o.get("err") or o.get("hang") or len(e["out"]) != len(o.get("out", [])):
        return False
    items = {"1", "2", "3", "4"}
    for k, v in p["ctx"]:
        if v["k"] == "l":
            items |= set(v["v"])
    for c in p["comps"]:
        for dd in c["data"]:
            if dd["k"] == "clist":
                items |= {dd["v"] + "1", dd["v"] + "2"}
    diff = False
    for a, b in zip(e["out"], o["out"]):
        if a == b:
            continue
        diff = True
        if "=" not in a or a.split("=", 1)[0] != b.split("=", 1)[0]:
            return False
        if a.split("=", 1)[1] != "" or b.split("=", 1)[1] not in items:
            return False
    return diff


def brief(prog) -> Dict[str, Any]:
    """Readable form of a program for samples / replay files."""
    return {"mode": prog["mode"], "page": P.tpl_src(prog["page"], "c__"),
            "comps": {f"c{i + 1}": {"data": [[d["x"], d["k"], d["v"] or d["a"]] for d in c["data"]],
                                    "tpl": P.tpl_src(c["tpl"], "c__")} for i, c in enumerate(prog["comps"])}}


def compare_batch(chk, progs, exp, obs, label: str, extra_check=None) -> Dict[str, int]:
    """Compare real observations with the reference semantics; disagreements are re-evaluated under
    the named deviations listed as findings and reported as KNOWN-FINDING if (and only if) the real
    observation equals what those deviations predict; anything else is a VIOLATION."""
    import itertools
    stats = {"ok": 0, "zone": 0, "mismatch": 0, "known": 0}
    bad = []
    for p, o in zip(progs, obs):
        e = exp[p["id"]]
        if e["zone"]:
            stats["zone"] += 1
            continue
        chk.count([label, p["mode"], p["page"], [c for c in p["comps"]]] if label.startswith("rand") else [label, p["mode"], p["page"]],
                  nontrivial=len(e["insts"]) > 0)
        m = mismatch(e, o)
        if m is None and extra_check is not None:
            m = extra_check(p, e, o)
        if m is None:
            stats["ok"] += 1
        else:
            bad.append((p, o, m))
    if not bad:
        return stats
    stats["mismatch"] = len(bad)
    devs = known_devs(chk)
    explained = {}
    zone_under = {}
    # smallest explaining subset first: singles for every disagreement, pairs only for what is left, ...
    for k in range(1, len(devs) + 1):
        todo = [bi for bi in range(len(bad)) if bi not in explained]
        if not todo:
            break
        subsets = [list(c) for c in itertools.combinations(devs, k)]
        batch = []
        for bi in todo:
            for si, sub in enumerate(subsets):
                q = dict(bad[bi][0])
                q["id"] = bi * 1000 + si
                q["devs"] = sub
                batch.append(q)
        res = oracle(batch)
        for bi in todo:
            p, o, m = bad[bi]
            for si, sub in enumerate(subsets):
                e2 = res[bi * 1000 + si]
                if not e2["zone"] and mismatch(e2, o) is None and not (extra_check and extra_check(p, e2, o)):
                    explained[bi] = sub
                    break
                if k == 1 and e2["zone"] and bi not in zone_under:
                    zone_under[bi] = sub
    # no subset predicts the observation exactly; if under a single deviation the program enters an
    # unspecified zone of the specification (the deviation applies, and what it produces there is not
    # determined - e.g. a leaked loop variable colliding with a {% with %} between tag and fill) the
    # disagreement belongs to that deviation
    for bi, sub in zone_under.items():
        if bi not in explained:
            explained[bi] = sub
            chk.add("deviation_enters_zone", 1)
    # Fallback for the for-loop leak only: its exact model covers every case met while building except rare
    # interplays with other captured layers; a disagreement in which ONLY variable prints differ, each from the
    # empty value to a loop item / loop counter of the program, is that same known finding (leak-shaped).
    if "ForLoopLeaksIntoIsolated" in devs:
        for bi, (p, o, m) in enumerate(bad):
            if bi not in explained and _leak_shaped(p, exp[p["id"]], o):
                explained[bi] = ["ForLoopLeaksIntoIsolated"]
                chk.add("leak_shaped_fallback", 1)
                chk.cov.setdefault("leak_shaped_cases", []).append({"label": label, "json": p})
    for bi, (p, o, m) in enumerate(bad):
        case = {"label": label, "program": brief(p), "json": p}
        if bi in explained:
            stats["known"] += 1
            for d in explained[bi]:
                chk.violation(case, m, key="dev:" + d)
        else:
            chk.violation(case, m)
    return stats


def compare_sliced(chk, progs, exp, real_fn, label: str, extra_check=None, size: int = 20000) -> Dict[str, int]:
    """compare_batch over slices (bounded memory / pickling for the large exhaustive enumerations)."""
    tot: Dict[str, int] = {}
    for i in range(0, len(progs), size):
        part = progs[i:i + size]
        st = compare_batch(chk, part, exp, real_fn(part), label, extra_check)
        for k, v in st.items():
            tot[k] = tot.get(k, 0) + v
    return tot or {"ok": 0, "zone": 0, "mismatch": 0, "known": 0}


def regression_programs(pid: str, first_id: int = 9 * 10 ** 6) -> List[Dict[str, Any]]:
    """Hand-minimised programs under /verif/regressions/<pid>/*.json (inputs that once exposed a defect since
    repaired).  They carry no expectation of their own: they simply join the generated batch and are judged
    by the specification like every other program, so that a regression shows in the quick tier."""
    from .core import ROOT
    out = []
    d = ROOT / "regressions" / pid
    if d.exists():
        for f in sorted(d.glob("*.json")):
            for q in json.loads(f.read_text()):
                q = dict(q)
                q.pop("note", None)
                q["id"] = first_id + len(out)
                out.append(q)
    return out


# ------------------------------------------------------------------ pinned known-finding cases
def run_pinned(chk, pid: str) -> None:
    """Concrete failing inputs recorded under /verif/findings/<pid>/*.json (known findings that no
    named deviation of the specification models).  Each is re-run: if it still fails in the recorded
    way it is reported as KNOWN-FINDING pinned:<name>; if it fails differently it is a VIOLATION; if
    it no longer fails nothing is printed."""
    from .core import ROOT
    d = ROOT / "findings" / pid
    if not d.exists():
        return
    for f in sorted(d.glob("*.json")):
        rec = json.loads(f.read_text())
        p = rec["program"]
        e = oracle([p])[p["id"]]
        o = real_variant([p], dyn=rec.get("variant") == "dynamic", workers=1, per_item_s=8.0)[0]
        chk.count(["pinned", f.name], nontrivial=True)
        m = mismatch(e, o)
        if m is None:
            chk.add("pinned_cases_now_passing", 1)
            continue
        case = {"label": "pinned", "file": f.name, "program": brief(p), "json": p}
        chk.violation(case, m, key=("pinned:" + f.stem) if m["what"] == rec["what"] else None)


# ------------------------------------------------------------------ in-process mutation probes (selftests)
def standard_probes():
    """Realistic bugs as monkeypatches of the library (never written to /repo); the patch is applied in
    the parent before the worker pool forks.  Returns {name: contextmanager factory}."""
    from contextlib import contextmanager
    import django_components.component as dcomp
    import django_components.context as dctx
    import django_components.provide as dprov
    import django_components.slots as dslots

    @contextmanager
    def patch(obj, name, new):
        old = getattr(obj, name)
        setattr(obj, name, new)
        try:
            yield
        finally:
            setattr(obj, name, old)

    def is_filled_always_true():
        return patch(dslots.SlotIsFilled, "__missing__", lambda self, key: True)

    def fills_named_b_dropped():
        orig = dslots.resolve_fills

        def rf(context, nodelist, name):
            d = orig(context, nodelist, name)
            d.pop("b", None)
            return d
        return patch(dcomp, "resolve_fills", rf)

    def only_flag_does_not_isolate():
        return patch(dcomp, "make_isolated_context_copy", lambda ctx: ctx)

    def default_flag_fallback_dropped():
        return patch(dslots, "DEFAULT_SLOT_KEY", "default_")

    def inject_returns_outermost():
        orig = dprov.get_injected_context_var

        def g(component_name, context, key, default=None):
            internal = dprov._INJECT_CONTEXT_KEY_PREFIX + key
            for d in context.dicts:                      # first (outermost) layer wins
                if internal in d:
                    return dprov.provide_cache[d[internal]]
            return orig(component_name, context, key, default)
        return patch(dcomp, "get_injected_context_var", g)

    def slot_data_alias_lost():
        orig = dslots._nodelist_to_slot_render_func

        def f(component_name, slot_name, nodelist, data_var=None, default_var=None, extra_context=None):
            return orig(component_name, slot_name, nodelist, None, default_var, extra_context)
        return patch(dslots, "_nodelist_to_slot_render_func", f)

    def root_attrs_not_passed_to_children():
        import django_components.perfutil.component as pc

        class Sink(dict):
            def update(self, *a, **k):
                pass
        return patch(pc, "child_component_attrs", Sink())

    return {"is_filled-always-true": is_filled_always_true, "fills-named-b-dropped": fills_named_b_dropped,
            "only/isolated-does-not-isolate": only_flag_does_not_isolate,
            "default-flag-fallback-dropped": default_flag_fallback_dropped,
            "inject-returns-outermost-provider": inject_returns_outermost,
            "slot-data-alias-lost": slot_data_alias_lost,
            "root-attrs-not-passed-to-children": root_attrs_not_passed_to_children}
