"""X03 - resolution of the COMPONENTS Django setting (extension check).

Contract (documentation only; the sentences are quoted at the top of specs/Settings.tla, D1..D13):
  * "You can configure django_components with a global `COMPONENTS` variable in your Django settings
    file [...] By default you don't need it set, there are resonable defaults." - every key left out
    resolves to the documented default ("Settings defaults" table of docs/reference/settings.md).
  * "you can instantiate `ComponentsSettings` for validation and type hints. Or, for backwards
    compatibility, you can also use plain dictionary" - both forms resolve identically.
  * dirs / app_dirs "Set to empty list to disable ..." - falsy values (False, 0, []) are values.
  * context_behavior is "django" | "isolated"; anything else is a ValueError (tests/test_settings.py).
  * reload_on_template_change / forbidden_static_files: "Deprecated. Use ... instead", "The old name
    ... is deprecated and will be removed in v1" - the old name alone still works.
  * template_cache_size: "To remove the cache limit altogether and cache everything, set
    `template_cache_size` to `None`."
  * RegistrySettings.<k>: "If omitted, defaults to the global COMPONENTS.<k> setting."
  * settings are looked up when needed (tests switch COMPONENTS with override_settings and read
    `app_settings`; "we always take the latest value from Django's settings").
  * get_component_dirs() (public API, the consumer of dirs / app_dirs): the existing directories of
    COMPONENTS.dirs (default [BASE_DIR/"components"]; (prefix, path) tuples allowed) plus, with include_apps,
    [app]/<app_dir> of every installed app where that directory exists; "Paths that do not point to
    directories are ignored"; a relative path is a ValueError (tests/test_loader.py).
  * downstream: dynamic_component_name ("the dynamic component is registered under the name"),
    multiline_tags ("`{{ my_var }}` can span multiple lines"; False leaves django.template.base.tag_re
    alone), template_cache_size ("maximum amount of Django templates to be cached"), autodiscover
    ("run autodiscovery at the Django server startup": a python file kept in an app-level component
    directory is imported or not), reload_on_file_change ("configures Django to reload when files inside
    COMPONENTS.dirs or COMPONENTS.app_dirs change": Django's file_changed signal is sent for a file below a
    component directory - a reload is triggered or not), libraries ("modules that should be loaded").

Oracle: specs/Settings.tla.  Adm(user, form, base, k) is the SET of admissible results of reading the
effective setting k; the state machine Set / Unset / Reform / Drop / SetBase / Load / Read / RegRead / CompDirs has
Read = Adm(current settings) and TLC checks the theorems DefaultsWhenEmpty, FormIndependent,
DeterminedUnlessAmbiguous, GivenWins, EmptyIsAValue, ContextBehaviorClosed, AliasEquivalent, DirsTheorems and the action
properties ReadIsResolve, LocalityProp, SetThenRead, UnsetRestores, ReformNeutral.

spec -> code: MC_X03/MCSpec - the complete settings graph of each of seven key groups (every value of the
              group's domains, dict / instance / no COMPONENTS at all); every transition is exported and
              replayed on the real `app_settings`: the source settings are installed with
              django.test.override_settings, every accessor and a registry are read once (so anything the
              library might memoise is warm), the call is made (a change = a nested override_settings),
              and every accessor of the group / the registry created before the change /
              get_component_dirs() (group "paths": a sandbox with existing, missing and non-directory
              entries, two BASE_DIRs, a generated installed app) are read and compared with the admitted sets.
              MC_X03/SSpec - every configuration of three key groups, exported with the effects a start-up
              must show; replayed by running AppConfig.ready() on pristine Django template internals
              (stock tag_re, no dynamic component registered, no template cache), and a sample of them
              again in genuinely new processes (settings.configure(COMPONENTS=...) + django.setup()).
code -> spec: seeded random histories over ALL keys with wider values (nested override_settings blocks
              entered and left, BASE_DIR as str / Path, reads, registry reads, start-ups) recorded on the
              real objects and validated in one TLC batch by Trace_X03.

Not determined by the documentation, therefore never generated or admitted as a set (Settings.tla):
  * explicit None for keys other than cache / template_cache_size; undocumented keys; wrongly typed values;
  * which of a deprecated and a current name wins when both are given (both values admitted);
  * ComponentsSettings(template_cache_size=None): the documented signature makes it the same object as
    ComponentsSettings() - "no limit" and 128 are both admitted in the instance form;
  * whether an invalid global context_behavior reaches a registry that has its own;
  * when an invalid context_behavior surfaces at start-up (the start-up may raise ValueError or not);
  * the legacy fallback to STATICFILES_DIRS when COMPONENTS.dirs is not given (code only, "TODO_REMOVE_IN_V1";
    the harness leaves STATICFILES_DIRS empty); dirs entries that are neither str, Path nor a pair;
  * settings are changed through override_settings only (what the repository's tests do) - neither
    in-place mutation of the dict nor assignment to django.conf.settings is exercised;
  * dirs / app_dirs of start-up cases name directories that do not exist; dynamic component names are
    plain identifiers (whether a name is a legal tag under the shorthand formatter is the formatter's business).

Known deviations (classified by Settings!DevAdm / DevComponentDirs, never part of the expected value):
  * every key is resolved as `value if value is not None else default`, so {"template_cache_size": None}
    keeps the limit 128.  Key `explicit-none-cache-size-in-dict:default-limit-applied`.
  * get_component_dirs() returns the entries of COMPONENTS.dirs (and the default BASE_DIR/components) whether
    they are directories or not ("Paths that do not point to directories are ignored").
    Key `dirs-entry-not-a-directory:returned`.
  * reload_on_file_change=True never triggers a reload: the file_changed receiver is a local function connected
    with the default weak reference and is gone when the start-up returns.
    Key `reload-on-file-change-true:no-reload-triggered`.
"""
from __future__ import annotations

import json
import os
import random
import re
import sys
from concurrent.futures import ThreadPoolExecutor
from contextlib import contextmanager
from enum import Enum
from pathlib import Path
from typing import Any, Dict, Iterable, List, Optional, Tuple

from . import tlc
from .core import Check, MachineryError, workdir
from .pool import pmap

PID = "X03"
BASE0 = "/verif/.work"
BASE1 = "/vfx/base2"
# the symbolic world of get_component_dirs(): "/S" = the harness's sandbox directory, "/DJC" = the directory of
# the django_components package (an installed app with a components/ directory); see harness()
SBASE, SNOBASE = "/S/base", "/S/nobase"
FS = ["/S/d1", "/S/d2", "/S/base/components", "/S/app1/components", "/S/app1/ui", "/DJC/components"]
APPS = ["/DJC", "/S/app1"]
APPNAME = "vfx03app"
PROBEDIRS = ["components", "ui"]             # [app1]/<d>/vfx03_auto_probe.py exists for these
PROBEMODS = [f"{APPNAME}.{d}.vfx03_auto_probe" for d in PROBEDIRS]
WTARGET = "/S/app1/components"
DIRS_OUTCOME = "returned"

# effective setting (named by the current key) -> attribute of app_settings
ACC = {
    "autodiscover": "AUTODISCOVER", "cache": "CACHE", "context_behavior": "CONTEXT_BEHAVIOR",
    "dirs": "DIRS", "app_dirs": "APP_DIRS", "debug_highlight_components": "DEBUG_HIGHLIGHT_COMPONENTS",
    "debug_highlight_slots": "DEBUG_HIGHLIGHT_SLOTS", "dynamic_component_name": "DYNAMIC_COMPONENT_NAME",
    "libraries": "LIBRARIES", "multiline_tags": "MULTILINE_TAGS", "reload_on_file_change": "RELOAD_ON_FILE_CHANGE",
    "static_files_allowed": "STATIC_FILES_ALLOWED", "static_files_forbidden": "STATIC_FILES_FORBIDDEN",
    "tag_formatter": "TAG_FORMATTER", "template_cache_size": "TEMPLATE_CACHE_SIZE",
}
ALL_ACCS = sorted(ACC)
BOOL_KEYS = ["autodiscover", "multiline_tags", "reload_on_file_change", "reload_on_template_change",
             "debug_highlight_components", "debug_highlight_slots"]
LIST_KEYS = ["dirs", "app_dirs", "libraries", "static_files_allowed", "static_files_forbidden",
             "forbidden_static_files"]
FORMATTERS = ["django_components.component_formatter", "django_components.component_shorthand_formatter"]
REGEXES = {"min": re.compile(r"\.min\.(js|css)\Z"), "any": re.compile(r".*"), "up": re.compile(r"\.[A-Z]+\Z")}
LIBPKG = "vfx03libs"
LIBPOOL = [f"{LIBPKG}.mod_a", f"{LIBPKG}.mod_b", f"{LIBPKG}.mod_c"]
DEV_OUTCOME = "default-limit-applied"
WORKERS = 6

# key groups of the model-checked instances: keys that vary, extra accessors read, registry reads, BASE_DIRs
GROUPS: Dict[str, Dict[str, Any]] = {
    "bool-aliases": {"keys": ["reload_on_file_change", "reload_on_template_change", "autodiscover"],
                     "extra": ["multiline_tags", "dirs"], "reg": [], "bases": [BASE0]},
    "list-aliases": {"keys": ["static_files_forbidden", "forbidden_static_files", "static_files_allowed"],
                     "extra": ["libraries", "app_dirs"], "reg": [], "bases": [BASE0]},
    "downstream": {"keys": ["context_behavior", "template_cache_size", "multiline_tags", "dynamic_component_name"],
                   "extra": ["autodiscover", "tag_formatter"], "reg": ["context_behavior"], "bases": [BASE0]},
    "paths": {"keys": ["dirs", "app_dirs"], "extra": ["static_files_allowed", "libraries"], "reg": [],
              "bases": [SBASE, SNOBASE], "comp": True},
    "loading": {"keys": ["libraries", "cache", "autodiscover"], "extra": ["dirs", "template_cache_size"], "reg": [],
                "bases": [BASE0, BASE1]},
    "app-level": {"keys": ["app_dirs", "autodiscover", "reload_on_file_change"], "extra": ["dirs"], "reg": [],
                  "bases": [SBASE], "comp": True},
    "misc": {"keys": ["debug_highlight_components", "debug_highlight_slots", "tag_formatter"],
             "extra": ["context_behavior", "cache"], "reg": ["tag_formatter"], "bases": [BASE0]},
}
STARTUP_GROUPS = ["downstream", "bool-aliases", "app-level"]
COUNTS = [1, 3, 140, 160]


# ---------------------------------------------------------------- typed values
def V(t: str, b: bool = False, i: int = 0, s: str = "", l: Optional[List[str]] = None) -> Dict[str, Any]:
    return {"t": t, "b": b, "i": i, "s": s, "l": list(l or [])}


ABSENT = V("absent")


_ROOTS: Dict[str, str] = {}     # symbolic root -> real directory (filled by harness())


def real(p: str) -> str:
    for sym, r in _ROOTS.items():
        if p == sym or p.startswith(sym + "/"):
            return r + p[len(sym):]
    return p


def sym(p: str) -> str:
    for s_, r in _ROOTS.items():
        if p == r or p.startswith(r + "/"):
            return s_ + p[len(r):]
    return p


def _enc_item(x: Any) -> str:
    if isinstance(x, Path):
        return "path:" + sym(str(x))
    if isinstance(x, re.Pattern):
        for rid, rx in REGEXES.items():
            if rx is x:
                return "re:" + rid
        return "re?:" + x.pattern
    if isinstance(x, (tuple, list)) and len(x) == 2:
        return f"tuple:{x[0]}:{sym(str(x[1]))}"
    if isinstance(x, str):
        return sym(x)
    return "?:" + repr(x)


def enc(key: str, x: Any) -> Dict[str, Any]:
    """Projection of what an accessor returned to a typed value of Settings.tla."""
    if x is None:
        # TEMPLATE_CACHE_SIZE is handed to LRUCache(maxsize=...): None = no limit
        return V("unbounded") if key == "template_cache_size" else V("none")
    if isinstance(x, Enum):
        x = x.value
    if isinstance(x, bool):
        return V("bool", b=x)
    if isinstance(x, int):
        return V("int", i=x)
    if isinstance(x, str):
        return V("str", s=str(x))
    if isinstance(x, (list, tuple)):
        return V("list", l=[_enc_item(i) for i in x])
    return V("other", s=repr(x))


def enc_exc(e: BaseException) -> Dict[str, Any]:
    return V("error", s="ValueError" if isinstance(e, ValueError) else type(e).__name__)


def _dec_item(s: str) -> Any:
    if s.startswith("path:"):
        return Path(real(s[5:]))
    if s.startswith("re:"):
        return REGEXES[s[3:]]
    if s.startswith("tuple:"):
        _, pre, p = s.split(":", 2)
        return (pre, real(p))
    return real(s)


def dec(v: Dict[str, Any]) -> Any:
    """A typed value of the specification as the Python object a user would write."""
    t = v["t"]
    if t == "bool":
        return bool(v["b"])
    if t == "int":
        return int(v["i"])
    if t == "str":
        return v["s"]
    if t == "none":
        return None
    if t == "list":
        return [_dec_item(s) for s in v["l"]]
    raise MachineryError(f"value {v} cannot be given by a user")


def show(v: Any) -> Any:
    """Readable form of typed values for evidence samples."""
    if isinstance(v, dict) and set(v) == {"t", "b", "i", "s", "l"}:
        t = v["t"]
        return {"bool": v["b"], "int": v["i"], "str": v["s"], "list": v["l"], "none": None,
                "dirs": {"dirs": v["l"]}}.get(t, f"<{t}{':' + v['s'] if v['s'] else ''}>")
    if isinstance(v, dict):
        return {k: show(x) for k, x in v.items()}
    if isinstance(v, list):
        return [show(x) for x in v]
    return v


# ---------------------------------------------------------------- driving django.conf.settings
def build_components(form: str, given: Iterable[Dict[str, Any]]) -> Any:
    from django_components import ComponentsSettings
    kw = {g["k"]: dec(g["v"]) for g in given}
    if form == "dict":
        return dict(kw)
    if form == "inst":
        return ComponentsSettings(**kw)
    if form == "none":
        if kw:
            raise MachineryError("form 'none' with given keys")
        return None
    raise MachineryError(f"unknown form {form}")


class Live:
    """A stack of django.test.override_settings blocks; every change of the abstract configuration
    enters a new block, pop() leaves the innermost one.  close() leaves them all (settings restored)."""

    def __init__(self) -> None:
        self.stack: List[Any] = []

    def push(self, conf: Dict[str, Any], flavour: int = 0) -> None:
        from django.conf import settings
        from django.test.utils import override_settings
        comp = build_components(conf["form"], conf["given"])
        base: Any = real(conf["base"])
        if flavour % 2:
            base = Path(base)              # BASE_DIR as str or as Path: same directory
        kw: Dict[str, Any] = {"BASE_DIR": base}
        if conf["form"] != "none":
            kw["COMPONENTS"] = comp
        ov = override_settings(**kw)
        ov.enable()
        self.stack.append(ov)
        if conf["form"] == "none" and hasattr(settings, "COMPONENTS"):
            del settings.COMPONENTS        # no COMPONENTS setting at all (inside the override block)

    def pop(self) -> None:
        self.stack.pop().disable()

    def close(self) -> None:
        while self.stack:
            self.pop()


def read(key: str) -> Dict[str, Any]:
    from django_components.app_settings import app_settings
    try:
        return enc(key, getattr(app_settings, ACC[key]))
    except Exception as e:  # noqa: BLE001
        return enc_exc(e)


def compdirs(inc: bool) -> Dict[str, Any]:
    """get_component_dirs(include_apps=inc) as a typed value: the directories in symbolic form."""
    from django_components import get_component_dirs
    try:
        res = get_component_dirs(include_apps=inc)
    except Exception as e:  # noqa: BLE001
        return enc_exc(e)
    return V("dirs", l=sorted(sym(str(p)) for p in res))


def _same_result(x: Dict[str, Any], o: Dict[str, Any]) -> bool:
    return x["t"] == o["t"] and x["s"] == o["s"] and sorted(x["l"]) == sorted(o["l"]) and len(set(o["l"])) == len(o["l"])


def _forget(reg) -> None:
    """Registries are held by component_registry.all_registries for ever: drop the harness's own."""
    from django_components.component_registry import all_registries
    try:
        all_registries.remove(reg)
    except ValueError:
        pass


def reg_settings(reg, key: str) -> Dict[str, Any]:
    try:
        return enc(key, getattr(reg.settings, key))
    except Exception as e:  # noqa: BLE001
        return enc_exc(e)


def regread(key: str, own: Dict[str, Any], old: Dict[str, Any]) -> Dict[str, Any]:
    """<key> of a new registry whose RegistrySettings give <key>=own, <KEY>=old (absent = omitted)."""
    from django.template import Library
    from django_components import ComponentRegistry, RegistrySettings
    kw = {}
    if own["t"] != "absent":
        kw[key] = dec(own)
    if old["t"] != "absent":
        kw[key.upper()] = dec(old)
    reg = ComponentRegistry(library=Library(), settings=RegistrySettings(**kw) if kw else None)
    try:
        return reg_settings(reg, key)
    finally:
        _forget(reg)


# ---------------------------------------------------------------- start-up under the current settings
_H: Dict[str, Any] = {}


def harness() -> Dict[str, Any]:
    """One-time objects of the harness (created under the boot settings, which are valid):
    a registry with its own start tag but no own context_behavior, a probe component, the library pool."""
    if _H:
        return _H
    from django.template import Library, engines
    from django_components import Component, ComponentRegistry, RegistrySettings
    from django_components.tag_formatter import ComponentFormatter

    class VfxInner(Component):
        template = "[{{ outer }}|{{ own }}]"

        def get_context_data(self, **kwargs):
            return {"own": "O"}

    class VfxTarget(Component):
        template = "TARGET-OK"

    lib = Library()
    reg = ComponentRegistry(library=lib, settings=RegistrySettings(tag_formatter=ComponentFormatter("vfx03c")))
    reg.register("vfx03_inner", VfxInner)
    engines["django"].engine.template_libraries["vfx03lib"] = lib
    w = workdir("x03lib").resolve()
    pkg = w / LIBPKG
    pkg.mkdir()
    (pkg / "__init__.py").write_text("")
    for m in LIBPOOL:
        (pkg / (m.split(".")[1] + ".py")).write_text("LOADED = True\n")
    sys.path.insert(0, str(w))
    _H.update(reg=reg, lib=lib, target=VfxTarget, inner=VfxInner)
    return _H


def make_world_files() -> None:
    """The world of get_component_dirs() on disk: a sandbox with existing directories = FS, /S/file.txt a
    file, /S/missing nothing, the generated app vfx03app (root /S/app1, importable) with an importable
    python file in [app]/<d> for d in PROBEDIRS (and no python file anywhere else)."""
    if _ROOTS:
        return
    import importlib.util
    import django_components as _djc
    w = workdir("x03world").resolve()
    for d in FS:
        if d.startswith("/S/") and not d.startswith("/S/app1"):
            (w / d[3:]).mkdir(parents=True)
    (w / "nobase").mkdir()
    (w / "file.txt").write_text("not a directory")
    app = w / "app1"
    for sub in PROBEDIRS:
        (app / sub).mkdir(parents=True)
        (app / sub / "vfx03_auto_probe.py").write_text("IMPORTED = True\n")
    (app / "__init__.py").write_text("")
    (app / "apps.py").write_text(
        f"from django.apps import AppConfig\n\n\nclass Cfg(AppConfig):\n    name = {APPNAME!r}\n")
    spec = importlib.util.spec_from_file_location(APPNAME, app / "__init__.py", submodule_search_locations=[str(app)])
    mod = importlib.util.module_from_spec(spec)
    sys.modules[APPNAME] = mod
    spec.loader.exec_module(mod)
    _ROOTS.update({"/S": str(w), "/DJC": str(Path(_djc.__file__).resolve().parent)})


def world() -> None:
    """make_world_files() + the generated app installed for the rest of the process."""
    if _ROOTS:
        return
    from django.test.utils import override_settings
    make_world_files()
    override_settings(INSTALLED_APPS=("django_components", APPNAME)).enable()     # until the process ends


def _forget_probe_modules() -> Dict[str, Any]:
    saved = {}
    for m in PROBEMODS + [f"{APPNAME}.{d}" for d in PROBEDIRS]:
        saved[m] = sys.modules.pop(m, None)
    return saved


def _autodiscovered() -> str:
    return "yes" if any(m in sys.modules for m in PROBEMODS) else "no"


def _reload_triggered(target: str) -> str:
    """Django's autoreloader reports a changed file below `target`: does a receiver ask for a reload
    (django.utils.autoreload.trigger_reload = sys.exit(3))?"""
    from django.utils.autoreload import file_changed
    try:
        file_changed.send(sender=None, file_path=Path(real(target)) / "sub" / "vfx03_probe.html")
    except SystemExit:
        return "yes"
    except Exception as e:  # noqa: BLE001
        return "raises:" + type(e).__name__
    return "no"


def _fresh_registry_behavior() -> Dict[str, Any]:
    """context_behavior of a registry without own context_behavior: `.settings` of a brand-new
    ComponentRegistry(), cross-checked by rendering through the harness registry (own tag only)."""
    from django.template import Context, Template
    from django_components import ComponentRegistry
    r = ComponentRegistry()
    try:
        s = reg_settings(r, "context_behavior")
    finally:
        _forget(r)
    if s["t"] != "str":
        return s
    try:
        harness()
        out = Template('{% load vfx03lib %}{% vfx03c "vfx03_inner" %}{% endvfx03c %}').render(Context({"outer": "OUT"}))
        # (the output may be wrapped by debug_highlight_components)
        behaves = "django" if "[OUT|O]" in out else "isolated" if "[|O]" in out else "other:" + out[:40]
    except Exception as e:  # noqa: BLE001
        behaves = "raises:" + type(e).__name__
    if behaves != s["s"]:
        return V("other", s=f"settings say {s['s']!r}, a rendered component behaves {behaves!r}")
    return s


def _new_obs() -> Dict[str, Any]:
    return {"failed": "", "dyn": [], "ml": "", "stock": False, "cached": [], "fresh": ABSENT,
            "watch": "", "wtarget": WTARGET, "autod": "", "loaded": []}


def _observe_started(obs: Dict[str, Any], counts: List[int], stock_tag_re) -> None:
    """What can be seen after a start-up (in-process re-run or a genuinely new process)."""
    import django.template.base as tb
    from django.template import Context, Template
    import django_components.cache as dcache
    from django_components import cached_template, registry
    from django_components.app_settings import app_settings
    from django_components.components.dynamic import DynamicComponent
    obs["loaded"] = [m for m in LIBPOOL if m in sys.modules]
    obs["stock"] = tb.tag_re is stock_tag_re or (
        tb.tag_re.pattern == stock_tag_re.pattern and tb.tag_re.flags == stock_tag_re.flags)
    # the template cache first: nothing else has been compiled through it yet
    done = 0
    for n in counts:
        while done < n:
            cached_template(f"vfx03 template {done}")
            done += 1
        obs["cached"].append([n, len(dcache.get_template_cache().cache)])
    try:
        out = Template("[{{ x\n}}]").render(Context({"x": "V"}))
        obs["ml"] = {"[V]": "yes", "[{{ x\n}}]": "no"}.get(out, "other:" + out)
    except Exception as e:  # noqa: BLE001
        obs["ml"] = "raises:" + type(e).__name__
    names = sorted(n for n, c in registry.all().items() if c is DynamicComponent)
    try:
        usable = names if app_settings.TAG_FORMATTER == FORMATTERS[0] else []   # the probe is written in that syntax
    except Exception:  # noqa: BLE001
        usable = []
    for n in usable:                    # ... and it can be used under that name
        try:
            registry.register("vfx03_target", harness()["target"])
            src = '{% component "' + n + '" is="vfx03_target" %}{% endcomponent %}'
            if "TARGET-OK" not in Template(src).render(Context({})):
                names = names + ["<" + n + " renders something else>"]
        except Exception as e:  # noqa: BLE001
            names = names + [f"<{n} unusable: {type(e).__name__}>"]
    obs["dyn"] = names
    obs["fresh"] = _fresh_registry_behavior()


def startup(counts: List[int], wtarget: str = WTARGET) -> Dict[str, Any]:
    """Run the app's start-up (AppConfig.ready()) under the current settings on what a new process
    has: stock django.template.base.tag_re, no dynamic component in the default registry, no template
    cache, library pool not imported.  Everything global is put back afterwards."""
    import django.template.base as tb
    from django.apps import apps
    from django.utils.autoreload import file_changed
    import django_components.cache as dcache
    from django_components import registry
    from django_components.components.dynamic import DynamicComponent
    from . import boot
    harness()
    lib = registry.library
    saved = {
        "tag_re": tb.tag_re, "cn": tb.Template.compile_nodelist, "render": tb.Template.render,
        "cache": dcache.template_cache, "recv": list(file_changed.receivers),
        "reg": dict(registry._registry), "tags": {k: set(v) for k, v in registry._tags.items()},
        "libtags": dict(lib.tags),
        "mods": {m: sys.modules.get(m) for m in LIBPOOL},
    }
    saved["mods"].update(_forget_probe_modules())
    obs = _new_obs()
    obs["wtarget"] = wtarget
    try:
        for name, cls in list(registry.all().items()):
            if cls is DynamicComponent:
                registry.unregister(name)
        for m in LIBPOOL:
            sys.modules.pop(m, None)
        tb.tag_re = boot.STOCK["tag_re"]
        dcache.template_cache = None
        try:
            apps.get_app_config("django_components").ready()
        except Exception as e:  # noqa: BLE001
            obs["failed"] = "ValueError" if isinstance(e, ValueError) else type(e).__name__
            return obs
        obs["autod"] = _autodiscovered()
        obs["watch"] = _reload_triggered(wtarget)
        _observe_started(obs, counts, boot.STOCK["tag_re"])
        return obs
    finally:
        tb.tag_re = saved["tag_re"]
        tb.Template.compile_nodelist = saved["cn"]
        tb.Template.render = saved["render"]
        dcache.template_cache = saved["cache"]
        file_changed.receivers[:] = saved["recv"]
        file_changed.sender_receivers_cache.clear()
        registry._registry.clear()
        registry._registry.update(saved["reg"])
        registry._tags.clear()
        registry._tags.update(saved["tags"])
        lib.tags.clear()
        lib.tags.update(saved["libtags"])
        for m, mod in saved["mods"].items():
            sys.modules.pop(m, None)
            if mod is not None:
                sys.modules[m] = mod


def _child_main(conf: Dict[str, Any], counts: List[int]) -> Dict[str, Any]:
    """A genuinely new process: Django configured with COMPONENTS given as the abstract configuration
    says (settings as in vf/boot.py otherwise), django.setup(), then the same observations."""
    import django
    import django.template.base as tb
    from django.conf import settings
    stock = tb.tag_re
    make_world_files()                    # the same world, with the generated app installed from the start
    kw: Dict[str, Any] = dict(
        BASE_DIR=real(conf["base"]), SECRET_KEY="verif", INSTALLED_APPS=("django_components", APPNAME), MIDDLEWARE=[],
        TEMPLATES=[{"BACKEND": "django.template.backends.django.DjangoTemplates", "DIRS": [],
                    "OPTIONS": {"builtins": ["django_components.templatetags.component_tags"],
                                "loaders": [("django.template.loaders.locmem.Loader", {})]}}],
        DATABASES={}, ROOT_URLCONF="django_components.urls", STATIC_URL="/static/", ALLOWED_HOSTS=["*"],
        DEBUG=False, USE_TZ=True)
    if conf["form"] != "none":
        kw["COMPONENTS"] = build_components(conf["form"], conf["given"])   # as a settings.py would
    settings.configure(**kw)
    obs = _new_obs()
    try:
        django.setup()
    except Exception as e:  # noqa: BLE001
        obs["failed"] = "ValueError" if isinstance(e, ValueError) else type(e).__name__
        return obs
    obs["autod"] = _autodiscovered()
    obs["watch"] = _reload_triggered(WTARGET)
    _observe_started(obs, counts, stock)
    return obs


# ---------------------------------------------------------------- TLC instances
_exports: Dict[Tuple[str, str], Tuple[List[Any], int, int]] = {}


def _sset(xs: Iterable[str]) -> str:
    return "{" + ", ".join(json.dumps(x) for x in xs) + "}"


def _group_cfg(path: Path, name: str, mode: str, rich: bool, all_reads: bool) -> None:
    g = GROUPS[name]
    reads = ALL_ACCS if all_reads else sorted({_new(k) for k in g["keys"]} | set(g["extra"]))
    consts = (f"CONSTANTS\n  GKeys = {_sset(g['keys'])}\n  ReadAccs = {_sset(reads if mode == 'mc' else [])}\n"
              f"  RegReads = {_sset(g['reg'] if mode == 'mc' else [])}\n  Base0 = {json.dumps(g['bases'][0])}\n"
              f"  Bases = {_sset(g['bases'])}\n  Rich = {'TRUE' if rich else 'FALSE'}\n"
              f"  CompReads = {'TRUE' if g.get('comp') and mode == 'mc' else 'FALSE'}\n"
              f"  FS = {_sset(FS)}\n  Apps = {_sset(APPS)}\n")
    if mode == "mc":
        path.write_text("SPECIFICATION MCSpec\nVIEW View\n" + consts +
                        "INVARIANT TypeOK\nINVARIANT Theorems\nPROPERTY ReadIsResolve\nPROPERTY LocalityProp\n"
                        "PROPERTY SetThenRead\nPROPERTY UnsetRestores\nPROPERTY ReformNeutral\n")
    else:
        path.write_text("SPECIFICATION SSpec\n" + consts +
                        "INVARIANT TypeOK\nINVARIANT StartupTheorems\nINVARIANT ExportStartup\n")


def _new(k: str) -> str:
    return {"reload_on_template_change": "reload_on_file_change",
            "forbidden_static_files": "static_files_forbidden"}.get(k, k)


def _export(tag: str, cfg: Path) -> Tuple[List[Any], int, int]:
    """One TLC run per distinct instance and process: the export does not depend on the library,
    so the selftest probes share it."""
    k = (tag, cfg.read_text())
    if k not in _exports:
        out = cfg.with_suffix(".ndjson")
        if out.exists():
            out.unlink()
        r = tlc.require_ok(tlc.run("MC_X03", str(cfg), env={"OUT": str(out)}, workers=1), f"MC_X03 {tag}")
        rows = tlc.read_ndjson(out)
        want = r.generated - 1 if tag.startswith("mc") else r.distinct
        if len(rows) != want:
            raise MachineryError(f"MC_X03 {tag}: export incomplete, {len(rows)} rows for {want} expected")
        _exports[k] = (rows, r.distinct, r.generated)
    return _exports[k]


def _exports_parallel(jobs: List[Tuple[str, Path]]) -> Dict[str, Tuple[List[Any], int, int]]:
    with ThreadPoolExecutor(max_workers=4) as ex:
        res = list(ex.map(lambda j: _export(j[0], j[1]), jobs))
    return {j[0]: r for j, r in zip(jobs, res)}


# ---------------------------------------------------------------- spec -> code: transitions
OUTCOMES = {"explicit-none-cache-size-in-dict": DEV_OUTCOME, "dirs-entry-not-a-directory": DIRS_OUTCOME,
            "reload-on-file-change-true": "no-reload-triggered"}


def _key_of(devkey: str) -> str:
    """Finding key = input class named by the specification + the outcome the named deviation predicts."""
    return f"{devkey}:{OUTCOMES[devkey]}"


def replay_transition(row: Dict[str, Any], flavour: int = 0) -> List[Dict[str, Any]]:
    """Replay one exported transition on the real app_settings; returns the failing observations
    (each {"what", "expected", "observed", "key"}; key = finding key of the named deviation or None)."""
    from django.template import Library
    from django_components import ComponentRegistry
    call = row["call"]
    bad: List[Dict[str, Any]] = []
    live = Live()
    reg0 = None
    try:
        live.push(row["pre"], flavour)
        # warm everything the library could memoise under the source settings
        for a in ALL_ACCS:
            read(a)
        reg0 = ComponentRegistry(library=Library())
        reg_settings(reg0, "context_behavior")
        op = call["op"]
        if row["afterdirs"]:
            compdirs(True)
        if op == "read":
            o = read(call["k"])
            if o not in row["ret"]:
                k = _key_of(row["devkey"]) if row["devkey"] and o in row["devret"] else None
                bad.append({"what": "read " + call["k"], "expected": row["ret"], "observed": o, "key": k})
            elif read(call["k"]) != o:
                bad.append({"what": "second read differs " + call["k"], "expected": row["ret"], "observed": o,
                            "key": None})
        elif op == "regread":
            o = regread(call["k"], call["v"], call["w"])
            if o not in row["ret"]:
                bad.append({"what": "regread " + call["k"], "expected": row["ret"], "observed": o, "key": None})
        elif op == "compdirs":
            compdirs(not call["v"]["b"])          # warm with the other flag
            o = compdirs(call["v"]["b"])
            if not any(_same_result(x, o) for x in row["ret"]):
                k = _key_of(row["devkey"]) if row["devkey"] and any(_same_result(x, o) for x in row["devret"]) else None
                bad.append({"what": f"get_component_dirs(include_apps={call['v']['b']})", "expected": row["ret"],
                            "observed": o, "key": k})
        else:
            live.push(row["post"], flavour // 2)
            dev = {d["a"]: d for d in row["dev"]}
            for ent in row["after"]:
                o = read(ent["a"])
                if o not in ent["adm"]:
                    d = dev.get(ent["a"])
                    k = _key_of(d["key"]) if d and o in d["adm"] else None
                    bad.append({"what": f"read {ent['a']} after {op}", "expected": ent["adm"], "observed": o, "key": k})
            for ent in row["afterdirs"]:
                o = compdirs(ent["inc"])
                if not any(_same_result(x, o) for x in ent["adm"]):
                    k = _key_of(row["devkey"]) if row["devkey"] and any(_same_result(x, o) for x in ent["devadm"]) else None
                    bad.append({"what": f"get_component_dirs(include_apps={ent['inc']}) after {op}",
                                "expected": ent["adm"], "observed": o, "key": k})
            for ent in row["afterreg"]:
                o = reg_settings(reg0, ent["k"])
                if o not in ent["adm"]:
                    bad.append({"what": f"registry created before the change, {ent['k']} after {op}",
                                "expected": ent["adm"], "observed": o, "key": None})
    finally:
        live.close()
        if reg0 is not None:
            _forget(reg0)
    return bad


def _replay_transition_item(item: Tuple[int, Dict[str, Any]]) -> List[Dict[str, Any]]:
    return replay_transition(item[1], item[0])


def _replay_startup_item(item: Tuple[int, Dict[str, Any]]) -> List[Dict[str, Any]]:
    return replay_startup(item[1], item[0])


def model_check_transitions(chk: Check, groups: List[str], rich: bool, all_reads: bool) -> None:
    w = workdir("x03mc")
    jobs = []
    for g in groups:
        cfg = w / f"mc_{g}.cfg"
        _group_cfg(cfg, g, "mc", rich, all_reads)
        jobs.append((f"mc:{g}", cfg))
    res = _exports_parallel(jobs)
    for g in groups:
        rows, distinct, generated = res[f"mc:{g}"]
        chk.add("states", distinct)
        chk.add("transitions", generated)
        chk.add("transitions_replayed", len(rows))
        results = pmap(_replay_transition_item, list(enumerate(rows)), workers=WORKERS, per_item_s=20.0, chunk=400)
        for i, (row, bads) in enumerate(zip(rows, results)):
            op = row["call"]["op"]
            chk.count([g, row["call"], row["pre"]],
                      nontrivial=bool(row["pre"]["given"]) or op not in ("read", "regread", "compdirs"))
            if not isinstance(bads, list):
                raise MachineryError(f"transition replay did not finish: {bads}")
            for b in bads:
                chk.violation({"kind": "transition", "group": g, "row": row, "flavour": i},
                              {k: b[k] for k in ("what", "expected", "observed")}, key=b["key"])
        pick = [r for r in rows if r["call"]["op"] == "set" and len(r["pre"]["given"]) == 1]
        if pick:
            r = pick[len(pick) // 2]
            chk.sample(show({"transition": {"group": g, "call": {k: r["call"][k] for k in ("op", "k", "v")},
                                            "pre": r["pre"], "after": r["after"][:2]}}), limit=5)


# ---------------------------------------------------------------- spec -> code: start-ups
def replay_startup(row: Dict[str, Any], flavour: int = 0,
                   observed: Optional[Dict[str, Any]] = None) -> List[Dict[str, Any]]:
    """Compare a start-up under row["conf"] with what the specification exported for it.  `observed`:
    the observation of a genuinely new process (otherwise an in-process start-up is made)."""
    bad: List[Dict[str, Any]] = []

    def fail(what, expected, observed, key=None):
        bad.append({"what": what, "expected": expected, "observed": observed, "key": key})

    if observed is not None:
        o = observed
    else:
        live = Live()
        try:
            live.push(row["conf"], flavour)
            o = startup(COUNTS)
        finally:
            live.close()
    if o["failed"]:
        if not (row["mayfail"] and o["failed"] == "ValueError"):
            fail("start-up raised", "no exception" if not row["mayfail"] else "ValueError or none", o["failed"])
        return bad
    if len(o["dyn"]) != 1 or V("str", s=o["dyn"][0]) not in row["dyn"]:
        fail("names of the dynamic component", row["dyn"], o["dyn"])
    want_ml = ["yes" if m["b"] else "no" for m in row["multiline"]]
    if o["ml"] not in want_ml or (o["ml"] == "no" and not o["stock"]):
        fail("multi-line tags active / tag_re untouched", want_ml, {"multiline": o["ml"], "tag_re_stock": o["stock"]})
    want = {c["n"]: c["c"] for c in row["cached"]}
    devwant = {c["n"]: c["c"] for c in row["devcached"]}
    for n, c in o["cached"]:
        if c not in want[n]:
            k = _key_of(row["devkey"]) if row["devkey"] and c in devwant[n] else None
            fail(f"templates held after {n} compiled", want[n], c, k)
    if o["fresh"] not in row["fresh"]:
        fail("context_behavior of a registry without own settings", row["fresh"], o["fresh"])
    if o["watch"] not in ("yes", "no") or V("bool", b=o["watch"] == "yes") not in row["watch"]:
        fail(f"reload triggered by a changed file below {o['wtarget']}", row["watch"], o["watch"],
             _key_of(row["watchdevkey"]) if row["watchdevkey"] and o["watch"] == "no" else None)
    if V("bool", b=o["autod"] == "yes") not in row["autod"]:
        fail("python file of an app-level component directory imported at start-up", row["autod"], o["autod"])
    if not any(sorted(x["l"]) == sorted(o["loaded"]) for x in row["libs"]):
        fail("library modules imported", row["libs"], o["loaded"])
    return bad


def model_check_startups(chk: Check, groups: List[str], rich: bool) -> None:
    w = workdir("x03su")
    jobs = []
    for g in groups:
        cfg = w / f"su_{g}.cfg"
        _group_cfg(cfg, g, "su", rich, False)
        jobs.append((f"su:{g}", cfg))
    res = _exports_parallel(jobs)
    for g in groups:
        rows, distinct, generated = res[f"su:{g}"]
        chk.add("states", distinct)
        chk.add("transitions", generated)
        chk.add("startups_replayed", len(rows))
        results = pmap(_replay_startup_item, list(enumerate(rows)), workers=WORKERS, per_item_s=30.0, chunk=20)
        for i, (row, bads) in enumerate(zip(rows, results)):
            chk.count(["startup", row["conf"]], nontrivial=True)
            if not isinstance(bads, list):
                raise MachineryError(f"start-up replay did not finish: {bads}")
            for b in bads:
                chk.violation({"kind": "startup", "group": g, "row": row, "flavour": i},
                              {k: b[k] for k in ("what", "expected", "observed")}, key=b["key"])
        if rows:
            r = rows[len(rows) // 2]
            chk.sample(show({"startup": {"conf": r["conf"], "dyn": r["dyn"], "multiline": r["multiline"],
                                         "cached": r["cached"], "fresh": r["fresh"]}}), limit=7)


def new_process_startup(conf: Dict[str, Any], patched_app_settings: Optional[str] = None) -> Dict[str, Any]:
    """`patched_app_settings`: path of a patched copy of app_settings.py that the child imports in place
    of django_components.app_settings (selftest: validation of the proposed repair, /repo untouched)."""
    import subprocess
    env = dict(os.environ, PYTHONHASHSEED="0", PYTHONDONTWRITEBYTECODE="1")
    env.pop("X03_PATCHED_APP_SETTINGS", None)
    if patched_app_settings:
        env["X03_PATCHED_APP_SETTINGS"] = patched_app_settings
    p = subprocess.run([sys.executable, "-m", "vf.x03", "--child", json.dumps({"conf": conf, "counts": COUNTS})],
                       cwd=str(Path(__file__).resolve().parent.parent), env=env, capture_output=True, text=True,
                       timeout=120)
    lines = [l for l in p.stdout.splitlines() if l.startswith("X03CHILD ")]
    if p.returncode != 0 or len(lines) != 1:
        raise MachineryError(f"start-up child failed (rc={p.returncode}):\n{p.stdout[-400:]}\n{p.stderr[-1200:]}")
    return json.loads(lines[0][len("X03CHILD "):])


def new_process_startups(chk: Check, groups: List[str], rich: bool, every: int) -> None:
    """Every `every`-th exported start-up configuration again, this time in a genuinely new process
    (settings.configure(COMPONENTS=...) + django.setup()), compared with the same exported expectation."""
    w = workdir("x03np")
    rows: List[Tuple[str, Dict[str, Any]]] = []
    for g in groups:
        cfg = w / f"su_{g}.cfg"
        _group_cfg(cfg, g, "su", rich, False)
        allrows = _export(f"su:{g}", cfg)[0]
        rows += [(g, r) for i, r in enumerate(allrows) if i % every == 0]
    with ThreadPoolExecutor(max_workers=6) as ex:
        obs = list(ex.map(lambda gr: new_process_startup(gr[1]["conf"]), rows))
    for (g, row), o in zip(rows, obs):
        chk.count(["new-process-startup", row["conf"]], nontrivial=True)
        for b in replay_startup(row, observed=o):
            chk.violation({"kind": "new-process-startup", "group": g, "row": row},
                          {k: b[k] for k in ("what", "expected", "observed")}, key=b["key"])
    chk.add("new_process_startups", len(rows))
    if rows:
        chk.sample(show({"new_process_startup": {"conf": rows[-1][1]["conf"], "observed": obs[-1]}}), limit=9)


# ---------------------------------------------------------------- code -> spec: random histories
def _rand_value(rnd: random.Random, k: str) -> Dict[str, Any]:
    if k in BOOL_KEYS:
        return V("bool", b=rnd.random() < 0.5)
    if k == "context_behavior":
        return V("str", s=rnd.choice(["django", "isolated", "django", "isolated", "bogus", "Django", "", "isolate",
                                      "ISOLATED", " django"]))
    if k == "template_cache_size":
        return V("none") if rnd.random() < 0.15 else V("int", i=rnd.choice([0, 1, 2, 5, 127, 128, 129, 150, 300]))
    if k == "dynamic_component_name":
        return V("str", s=rnd.choice(["dynamic", "vfx_dyn", "Dyn2", "dyn_amic_3", "d"]))
    if k == "cache":
        return V("none") if rnd.random() < 0.4 else V("str", s=rnd.choice(["vfx-alt", "default"]))
    if k == "tag_formatter":
        return V("str", s=rnd.choice(FORMATTERS))
    if k == "dirs":
        pool = ["/S/d1", "path:/S/d1", "/S/d2", "path:/S/d2", "tuple:pre:/S/d2", "/S/missing", "path:/S/missing/deep",
                "/S/file.txt", "/S/base/components", "/vfx/a", "tuple:p:/vfx/e"] + (["rel/d"] if rnd.random() < 0.1 else [])
    elif k == "app_dirs":
        pool = ["components", "ui", "nope", "x/y"]
    elif k == "libraries":
        pool = LIBPOOL
    else:
        pool = [".js", ".py", ".x", ".tar.gz", "re:min", "re:any", "re:up", ".html"]
    return V("list", l=[rnd.choice(pool) for _ in range(rnd.choice([0, 0, 1, 2, 3]))])


def record_history(rnd: random.Random, tid: int, length: int, startups: bool = True) -> Dict[str, Any]:
    """One history on the real objects.  `conf` mirrors what was installed (generator state, needed to
    emit enabled actions only); nothing here predicts what a read returns."""
    keys = sorted(set(ACC) | {"reload_on_template_change", "forbidden_static_files"})
    bases = [SBASE, SNOBASE]
    base0 = rnd.choice(bases)
    conf = {"form": "none", "base": base0, "given": []}
    frames = [conf]
    live = Live()
    events: List[Dict[str, Any]] = []

    def ev(op, k="", v=ABSENT, w=ABSENT, s="", **kw):
        e = {"op": op, "k": k, "v": v, "w": w, "s": s, "given": [], "obs": ABSENT}
        e.update(kw)
        events.append(e)
        return e

    def change(new):
        nonlocal conf
        conf = new
        frames.append(new)
        live.push(new, rnd.randrange(4))

    try:
        live.push(conf, tid)
        focus = rnd.sample(keys, rnd.randint(3, 8))         # most changes hit a few keys, so they interact
        for _ in range(length):
            x = rnd.random()
            given = {g["k"]: g["v"] for g in conf["given"]}
            if x < 0.30:
                k = rnd.choice(focus) if rnd.random() < 0.8 else rnd.choice(keys)
                v = _rand_value(rnd, k)
                given[k] = v
                form = "dict" if conf["form"] == "none" else conf["form"]
                ev("set", k=k, v=v)
                change({"form": form, "base": conf["base"], "given": [{"k": a, "v": b} for a, b in sorted(given.items())]})
            elif x < 0.38 and given:
                k = rnd.choice(sorted(given))
                del given[k]
                ev("unset", k=k)
                change({"form": conf["form"], "base": conf["base"],
                        "given": [{"k": a, "v": b} for a, b in sorted(given.items())]})
            elif x < 0.44:
                opts = [f for f in ("dict", "inst") + (("none",) if not given else ()) if f != conf["form"]]
                f = rnd.choice(opts)
                ev("reform", s=f)
                change({"form": f, "base": conf["base"], "given": conf["given"]})
            elif x < 0.46:
                ev("drop")
                change({"form": "none", "base": conf["base"], "given": []})
            elif x < 0.49:
                b = bases[1] if conf["base"] == bases[0] else bases[0]
                ev("setbase", s=b)
                change({"form": conf["form"], "base": b, "given": conf["given"]})
            elif x < 0.56 and len(frames) > 1:
                # leave the innermost override block: the previous settings are back
                live.pop()
                frames.pop()
                prev = frames[-1]
                if prev["base"] != conf["base"]:
                    ev("setbase", s=prev["base"])
                ev("load", s=prev["form"], given=prev["given"])
                conf = prev
            elif x < 0.80:
                k = rnd.choice([_new(f) for f in focus]) if rnd.random() < 0.7 else rnd.choice(ALL_ACCS)
                ev("read", k=k, obs=read(k))
            elif x < 0.86:
                inc = rnd.random() < 0.6
                ev("compdirs", inc=inc, obs=compdirs(inc))
            elif x < 0.93:
                k = rnd.choice(["context_behavior", "tag_formatter"])
                dom = ["django", "isolated"] if k == "context_behavior" else FORMATTERS
                own = V("str", s=rnd.choice(dom)) if rnd.random() < 0.4 else ABSENT
                old = V("str", s=rnd.choice(dom)) if rnd.random() < 0.3 else ABSENT
                ev("regread", k=k, v=own, w=old, obs=regread(k, own, old))
            elif startups:
                n = rnd.choice([1, 3, 130, 160, 310])
                o = startup([n], rnd.choice(FS))
                if not o["failed"] and o["watch"] not in ("yes", "no"):
                    o["failed"] = "reload-probe-" + o["watch"]       # must not pass silently
                ev("startup", failed=o["failed"], dyn=o["dyn"], ml=o["ml"], stock=o["stock"], n=n,
                   cached=o["cached"][0][1] if o["cached"] else -1, fresh=o["fresh"], watch=o["watch"],
                   wtarget=o["wtarget"], autod=o["autod"], loaded=o["loaded"])
    finally:
        live.close()
    return {"id": tid, "base": base0, "fs": FS, "apps": APPS, "probedirs": PROBEDIRS, "events": events}


def _record_item(item: Tuple[int, int, int]) -> Dict[str, Any]:
    base, tid, length = item
    return record_history(random.Random(base * 100003 + tid), tid, length)


def _rejects(out: str, n: int, what: str) -> List[Tuple[int, int, List[str]]]:
    """Verdict lines of a Trace_X03 run (TLC wraps long tuples); every trace has an ACCEPT or >= 1 REJECT."""
    acc = {int(m.group(1)) for m in re.finditer(r'<<\s*"ACCEPT",\s*(\d+)\s*>>', out)}
    rej = [(int(m.group(1)), int(m.group(2)), re.findall(r'"([^"]*)"', m.group(3)))
           for m in re.finditer(r'<<\s*"REJECT",\s*(\d+),\s*(\d+),\s*\{([^}]*)\}\s*>>', out)]
    seen = acc | {t for t, _, _ in rej}
    if acc & {t for t, _, _ in rej} or len(seen) != n:
        raise MachineryError(f"{what}: verdicts for {len(seen)} of {n} traces\n" + "\n".join(out.splitlines()[-30:]))
    return rej


def _validate(traces: List[Dict[str, Any]], tag: str):
    w = workdir("x03tr")
    f = w / f"{tag}.ndjson"
    tlc.write_ndjson(f, traces)
    cfg = w / f"{tag}.cfg"
    cfg.write_text("SPECIFICATION TrSpec\nINVARIANT TraceTheorems\n")
    return tlc.run("Trace_X03", str(cfg), env={"IN": str(f)}, workers=1), f


def validate_histories(chk: Check, n: int, length: int, salt: int = 0) -> None:
    items = [(chk.seed * 7919 + 3 + salt, i + 1, length) for i in range(n)]
    traces = pmap(_record_item, items, workers=WORKERS, per_item_s=60.0, chunk=10)
    if any("events" not in t for t in traces):
        raise MachineryError("recording a history did not finish")
    r, f = _validate(traces, "hist")
    if r.violated:
        chk.violation({"kind": "history-theorem", "file": str(f)},
                      {"violated": r.violated, "tlc_tail": r.out.splitlines()[-30:]})
        return
    tlc.require_ok(r, "Trace_X03")
    for tno, at, clauses in _rejects(r.out, len(traces), "Trace_X03"):
        t = traces[tno - 1]
        if "bad_case" in clauses:
            raise MachineryError(f"Trace_X03: the generator emitted a disabled action: {t['events'][at - 1]}")
        case = {"kind": "history", "base": t["base"], "events": t["events"][:at]}
        plain = [c for c in clauses if not c.startswith("dev:")]
        if plain:
            chk.violation(case, {"failing_clauses": clauses, "event": t["events"][at - 1]})
        else:
            for c in clauses:
                chk.violation(case, {"failing_clauses": clauses, "event": t["events"][at - 1]}, key=_key_of(c[4:]))
    nobs = 0
    for t in traces:
        chk.count(t["events"])
        nobs += sum(1 for e in t["events"] if e["op"] in ("read", "regread", "compdirs", "startup"))
    chk.add("traces_validated_against_impl", len(traces))
    chk.add("trace_observations", nobs)
    chk.add("trace_states", r.distinct)
    chk.sample(show({"history_head": {"base": traces[0]["base"],
                                      "events": [{k: e[k] for k in ("op", "k", "v", "s", "obs")}
                                                 for e in traces[0]["events"][:6]]}}), limit=10)


# ---------------------------------------------------------------- tiers
def core(chk: Check, tier: str) -> None:
    quick = tier == "quick"
    world()          # first: installing the app resets Django's template engines
    harness()
    model_check_transitions(chk, list(GROUPS), rich=not quick, all_reads=not quick)
    model_check_startups(chk, STARTUP_GROUPS, rich=not quick)
    new_process_startups(chk, STARTUP_GROUPS, rich=not quick, every=23 if quick else 5)
    validate_histories(chk, 250 if quick else 2500, 40 if quick else 60)


def run(tier: str) -> int:
    from . import boot
    boot.setup()
    chk = Check(PID, tier, "model_checking")
    core(chk, tier)
    chk.cov["exhaustive"] = True
    chk.cov["rule"] = ("every transition of the complete settings graph of seven key groups (MC_X03/MCSpec: all values "
                       "of the group's domains x dict / instance / no COMPONENTS) replayed on the real app_settings "
                       "under override_settings with warm reads before the call; every configuration of three key "
                       "groups (SSpec) replayed as an in-process start-up; random histories over all 17 keys "
                       "validated by Trace_X03. One evaluation = one transition, start-up or history; non-trivial = "
                       "some key given or a change; distinct by hash")
    chk.assumptions += [
        "settings are changed through django.test.override_settings only (what the repository's tests do)",
        "a start-up is AppConfig.ready() re-run in-process on stock tag_re, a default registry without the dynamic "
        "component, no template cache and an unloaded library pool; everything global is restored afterwards",
        "explicit None is generated for cache and template_cache_size only; both names of a renamed setting given "
        "together admit both values; ComponentsSettings(template_cache_size=None) admits 128 and no limit",
        "invalid context_behavior: ValueError on access (pinned by the repository's own test); a start-up may raise it",
        "the template cache bound is observed as len(LRUCache.cache) after n distinct cached_template() calls",
    ]
    return chk.finish()


# ---------------------------------------------------------------- selftest
def selftest(tier: str) -> int:
    """In-process mutation probes (never touch /repo) + the proposed repair applied in-process."""
    from . import boot
    from .core import run_probes
    boot.setup()
    import django_components.app_settings as aps
    import django_components.apps as dapps
    import django_components.cache as dcache
    import django_components.component_registry as dreg
    import django_components.template as dtpl
    from django.conf import settings
    from django_components.app_settings import ComponentsSettings, ContextBehavior, InternalSettings, defaults
    IS = InternalSettings
    world()          # first: installing the app resets Django's template engines
    harness()

    @contextmanager
    def patch(obj, name, new):
        old = obj.__dict__[name] if isinstance(obj, type) else getattr(obj, name)
        setattr(obj, name, new)
        try:
            yield
        finally:
            setattr(obj, name, old)

    def falsy_is_unset():
        return patch(aps, "default", lambda v, d: v or d)

    def settings_memoised():
        memo: List[Any] = []
        orig = IS.__dict__["_settings"]

        def get(self):
            if not memo:
                memo.append(orig.fget(self))
            return memo[0]
        return patch(IS, "_settings", property(get))

    def memoised_per_object():
        # keyed on the id of the COMPONENTS object: a freed dict's id is reused by the next one
        memo: Dict[int, Any] = {}
        orig = IS.__dict__["_settings"]

        def get(self):
            data = getattr(settings, "COMPONENTS", None)
            if id(data) not in memo:
                memo[id(data)] = orig.fget(self)
            return memo[id(data)]
        return patch(IS, "_settings", property(get))

    def instance_form_ignored():
        def get(self):
            data = getattr(settings, "COMPONENTS", {})
            return ComponentsSettings(**data) if isinstance(data, dict) else ComponentsSettings()
        return patch(IS, "_settings", property(get))

    def reload_alias_ignored():
        return patch(IS, "RELOAD_ON_FILE_CHANGE", property(
            lambda self: aps.default(self._settings.reload_on_file_change, defaults.reload_on_file_change)))

    def forbidden_alias_needs_truthy_new():
        return patch(IS, "STATIC_FILES_FORBIDDEN", property(
            lambda self: aps.default(self._settings.static_files_forbidden or self._settings.forbidden_static_files,
                                     defaults.static_files_forbidden)))

    def old_forbidden_empty_list_dropped():
        # the deprecated name is consulted, but an empty list under it falls through to the default
        return patch(IS, "STATIC_FILES_FORBIDDEN", property(
            lambda self: aps.default(self._settings.static_files_forbidden,
                                     self._settings.forbidden_static_files or defaults.static_files_forbidden)))

    def context_behavior_unvalidated():
        return patch(IS, "CONTEXT_BEHAVIOR", property(
            lambda self: aps.default(self._settings.context_behavior, defaults.context_behavior)))

    def invalid_context_behavior_falls_back():
        def get(self):
            try:
                return ContextBehavior(aps.default(self._settings.context_behavior, defaults.context_behavior))
            except ValueError:
                return ContextBehavior.DJANGO
        return patch(IS, "CONTEXT_BEHAVIOR", property(get))

    def context_behavior_case_insensitive():
        return patch(IS, "CONTEXT_BEHAVIOR", property(
            lambda self: self._validate_context_behavior(
                str(aps.default(self._settings.context_behavior, defaults.context_behavior)).strip().lower())))

    def base_dir_frozen():
        fixed = [Path(settings.BASE_DIR) / "components"]
        return patch(aps, "defaults", defaults._replace(dirs=aps.Dynamic(lambda: fixed)))

    def wrong_default_app_dirs():
        return patch(aps, "defaults", defaults._replace(app_dirs=[]))

    def ready_then(fix):
        orig = dapps.ComponentsConfig.ready

        def ready(self):
            orig(self)
            fix()
        return patch(dapps.ComponentsConfig, "ready", ready)

    def dynamic_name_hardcoded():
        def fix():
            from django_components import registry
            from django_components.components.dynamic import DynamicComponent
            for n, c in list(registry.all().items()):
                if c is DynamicComponent:
                    registry.unregister(n)
            registry.register("dynamic", DynamicComponent)
        return ready_then(fix)

    def multiline_unconditional():
        def fix():
            import django.template.base as tb
            tb.tag_re = re.compile(tb.tag_re.pattern, re.DOTALL)
        return ready_then(fix)

    def autodiscover_unconditional():
        def fix():
            import django_components.autodiscovery as dauto
            if not aps.app_settings.AUTODISCOVER:
                dauto.autodiscover()
        return ready_then(fix)

    def cache_size_constant():
        from django_components.util.cache import LRUCache

        def get():
            if dcache.template_cache is None:
                dcache.template_cache = LRUCache(maxsize=128)
            return dcache.template_cache
        from contextlib import ExitStack

        @contextmanager
        def both():
            with ExitStack() as st:
                st.enter_context(patch(dcache, "get_template_cache", get))
                st.enter_context(patch(dtpl, "get_template_cache", get))
                yield
        return both()

    def registry_freezes_settings():
        orig = dreg.ComponentRegistry.__dict__["settings"]

        def get(self):
            if "_vfx_frozen" not in self.__dict__:
                self.__dict__["_vfx_frozen"] = orig.fget(self)
            return self.__dict__["_vfx_frozen"]
        return patch(dreg.ComponentRegistry, "settings", property(get))

    def registry_uppercase_ignored():
        orig = dreg.ComponentRegistry.__dict__["settings"]

        def get(self):
            s = self._settings_input
            if s is not None and not callable(s) and s.context_behavior is None and s.CONTEXT_BEHAVIOR is not None:
                return orig.fget(self)._replace(context_behavior=aps.app_settings.CONTEXT_BEHAVIOR.value)
            return orig.fget(self)
        return patch(dreg.ComponentRegistry, "settings", property(get))

    def dirs_variant(variant: str):
        """get_component_dirs() re-implemented as the library does it (including its known deviation),
        with one bug."""
        import django_components as djc
        import django_components.util.loader as dload
        from django.apps import apps

        def impl(include_apps: bool = True):
            dirs = aps.app_settings.DIRS
            if variant == "empty-dirs-means-default" and not dirs:
                dirs = [Path(settings.BASE_DIR) / "components"]
            if variant == "first-dirs-entry-only":
                dirs = list(dirs)[:1]
            out = set()
            if include_apps or variant == "include-apps-flag-ignored":
                for conf in apps.get_app_configs():
                    for ad in aps.app_settings.APP_DIRS:
                        p = Path(conf.path).joinpath(ad)
                        if p.exists() or variant == "app-dir-existence-not-checked":
                            out.add(p)
            for d in dirs:
                if isinstance(d, (tuple, list)):
                    d = d[0] if variant == "tuple-prefix-taken-for-the-path" else d[1]
                if not Path(d).is_absolute():
                    if variant == "relative-path-silently-skipped":
                        continue
                    raise ValueError(f"COMPONENTS.dirs must contain absolute paths, got '{d}'")
                out.add(Path(d).resolve())
            return list(out)
        from contextlib import ExitStack

        @contextmanager
        def both():
            with ExitStack() as st:
                st.enter_context(patch(dload, "get_component_dirs", impl))
                st.enter_context(patch(djc, "get_component_dirs", impl))
                yield
        return both

    def libraries_not_imported():
        import django_components.autodiscovery as dauto
        return patch(dauto, "import_libraries", lambda *a, **k: [])

    probes = [
        ("component-dirs: empty dirs list means default", dirs_variant("empty-dirs-means-default")),
        ("component-dirs: first dirs entry only", dirs_variant("first-dirs-entry-only")),
        ("component-dirs: include_apps flag ignored", dirs_variant("include-apps-flag-ignored")),
        ("component-dirs: app dir existence not checked", dirs_variant("app-dir-existence-not-checked")),
        ("component-dirs: tuple prefix taken for the path", dirs_variant("tuple-prefix-taken-for-the-path")),
        ("component-dirs: relative path silently skipped", dirs_variant("relative-path-silently-skipped")),
        ("libraries-not-imported-at-start-up", libraries_not_imported),
        ("falsy-value-treated-as-unset", falsy_is_unset),
        ("settings-memoised-at-first-access", settings_memoised),
        ("settings-memoised-per-object-id", memoised_per_object),
        ("instance-form-ignored", instance_form_ignored),
        ("deprecated-reload-name-ignored", reload_alias_ignored),
        ("deprecated-forbidden-name-beats-empty-list", forbidden_alias_needs_truthy_new),
        ("deprecated-forbidden-name-empty-list-dropped", old_forbidden_empty_list_dropped),
        ("context-behavior-not-validated", context_behavior_unvalidated),
        ("invalid-context-behavior-falls-back", invalid_context_behavior_falls_back),
        ("context-behavior-case-insensitive", context_behavior_case_insensitive),
        ("base-dir-frozen-at-first-use", base_dir_frozen),
        ("wrong-default-app-dirs", wrong_default_app_dirs),
        ("dynamic-name-hard-coded", dynamic_name_hardcoded),
        ("multiline-patch-unconditional", multiline_unconditional),
        ("autodiscover-unconditional", autodiscover_unconditional),
        ("template-cache-size-constant", cache_size_constant),
        ("registry-freezes-settings-at-first-use", registry_freezes_settings),
        ("registry-deprecated-uppercase-ignored", registry_uppercase_ignored),
    ]

    def body(chk: Check) -> None:
        model_check_transitions(chk, list(GROUPS), rich=False, all_reads=False)
        model_check_startups(chk, STARTUP_GROUPS, rich=False)
        validate_histories(chk, 60, 40)

    rc = run_probes(PID, probes, body)

    # the repair (proposed_fixes/X03-*.diff: "not given" told apart from an explicit None), emulated
    # in-process for the dict form: nothing may fail any more, known or not
    def fixed_size(self):
        data = getattr(settings, "COMPONENTS", {})
        if isinstance(data, dict):
            return data["template_cache_size"] if "template_cache_size" in data else defaults.template_cache_size
        return aps.default(data.template_cache_size, defaults.template_cache_size)

    class Counting(Check):
        keyed = 0

        def violation(self, case, detail, key=None):
            if key is not None:
                self.keyed += 1
            super().violation(case, detail, key)

    import django_components as djc
    import django_components.util.loader as dload
    from contextlib import ExitStack
    pl = _patched_copy("django_components/util/loader.py", "dirs-entry-not-a-directory", "vfx03_patched_loader")
    pa = _patched_copy("django_components/apps.py", "reload-on-file-change-true", "vfx03_patched_apps")
    chk = Counting(PID, "quick", "other", silent=True)
    with ExitStack() as st:
        st.enter_context(patch(IS, "TEMPLATE_CACHE_SIZE", property(fixed_size)))
        if pl is not None:
            st.enter_context(patch(dload, "get_component_dirs", pl.get_component_dirs))
            st.enter_context(patch(djc, "get_component_dirs", pl.get_component_dirs))
        if pa is not None:
            st.enter_context(patch(dapps, "_watch_component_files_for_autoreload",
                                   pa._watch_component_files_for_autoreload))
        body(chk)
    ok = chk.violations == 0 and chk.keyed == 0
    how = lambda m: "the function of the patched copy" if m else "diff not applicable, current function"  # noqa: E731
    print(f"  all repairs in-process (explicit None in a dict: emulated; get_component_dirs: {how(pl)}; "
          f"reload receiver: {how(pa)}): violations={chk.violations} known-finding cases={chk.keyed} -> "
          f"{'clean' if ok else 'NOT CLEAN'}")
    # second round, on the repaired library (a reload that is never triggered is the known finding itself, so a
    # bug in the reload path can only be told apart once the receiver stays alive): repair + one bug each
    def watch_variant(variant: str):
        def watch():
            from django.utils.autoreload import file_changed, trigger_reload
            dirs = set(djc.get_component_dirs(include_apps=variant != "apps-not-watched"))

            def template_changed(sender, file_path, **kwargs):
                for d in ([file_path.parent] if variant == "direct-children-only" else file_path.parents):
                    if d in dirs:
                        trigger_reload(file_path)
                        return
            if variant != "never-installed":
                file_changed.connect(template_changed, weak=False)
        return watch

    ok3 = True
    for variant in ("never-installed", "apps-not-watched", "direct-children-only"):
        c2 = Counting(PID, "quick", "other", silent=True)
        with ExitStack() as st:
            st.enter_context(patch(IS, "TEMPLATE_CACHE_SIZE", property(fixed_size)))
            if pl is not None:
                st.enter_context(patch(dload, "get_component_dirs", pl.get_component_dirs))
                st.enter_context(patch(djc, "get_component_dirs", pl.get_component_dirs))
            st.enter_context(patch(dapps, "_watch_component_files_for_autoreload", watch_variant(variant)))
            model_check_startups(c2, ["bool-aliases"], rich=False)
            validate_histories(c2, 60, 40)
        n = c2.violations + c2.keyed
        print(f"  probe (on the repaired library) reload-receiver: {variant}: {'killed' if n else 'SURVIVED'} "
              f"(failing cases={n})")
        ok3 = ok3 and n > 0
    ok2 = _validate_proposed_diff()
    return rc if ok and ok2 and ok3 else 1


def _patched_copy(relpath: str, diff_prefix: str, modname: str):
    """The module of a COPY of /repo/src/<relpath> with proposed_fixes/X03-<diff_prefix>*.diff applied
    (None if there is no such diff or it no longer applies to the current tree)."""
    import importlib.util
    import shutil
    import subprocess
    from .core import REPO, ROOT
    diffs = sorted((ROOT / "proposed_fixes").glob(f"{PID}-{diff_prefix}*.diff"))
    if not diffs:
        return None
    w = workdir("x03fix2")
    dst = w / "src" / relpath
    dst.parent.mkdir(parents=True)
    shutil.copy(REPO / "src" / relpath, dst)
    p = subprocess.run(["patch", "-p1", "-s", "-d", str(w), "-i", str(diffs[0])], capture_output=True, text=True)
    if p.returncode != 0:
        print(f"  proposed diff {diffs[0].name}: does not apply to the current tree (already fixed?)")
        return None
    spec = importlib.util.spec_from_file_location(modname, dst)
    mod = importlib.util.module_from_spec(spec)
    spec.loader.exec_module(mod)
    return mod


def _validate_proposed_diff() -> bool:
    """The diff of proposed_fixes/ itself: applied to a COPY of app_settings.py under workdir(), imported by
    new processes in place of django_components.app_settings; every start-up configuration that gives
    template_cache_size (and a sample of the others) must then show exactly what the specification
    exports - no failure, known or not."""
    import shutil
    import subprocess
    from .core import REPO, ROOT
    diffs = sorted((ROOT / "proposed_fixes").glob(f"{PID}-explicit-none-cache-size-in-dict*.diff"))
    if not diffs:
        print("  proposed diff: none on file")
        return True
    w = workdir("x03fix")
    dst = w / "src" / "django_components"
    dst.mkdir(parents=True)
    shutil.copy(REPO / "src" / "django_components" / "app_settings.py", dst / "app_settings.py")
    p = subprocess.run(["patch", "-p1", "-s", "-d", str(w), "-i", str(diffs[0])], capture_output=True, text=True)
    if p.returncode != 0:
        print(f"  proposed diff {diffs[0].name}: does not apply to the current tree (already fixed?) - skipped")
        return True
    cfg = w / "su.cfg"
    _group_cfg(cfg, "downstream", "su", False, False)
    rows = _export("su:downstream", cfg)[0]
    pick = [r for i, r in enumerate(rows)
            if (any(g["k"] == "template_cache_size" for g in r["conf"]["given"]) and i % 3 == 0) or i % 40 == 0]
    with ThreadPoolExecutor(max_workers=6) as ex:
        obs = list(ex.map(lambda r: new_process_startup(r["conf"], str(dst / "app_settings.py")), pick))
    nbad = sum(len(replay_startup(r, observed=o)) for r, o in zip(pick, obs))
    none_rows = sum(1 for r in pick if r["devkey"])
    print(f"  proposed diff {diffs[0].name} applied to a copy, {len(pick)} start-ups in new processes "
          f"({none_rows} with an explicit None in a dict): failing observations={nbad} -> "
          f"{'clean' if nbad == 0 else 'NOT CLEAN'}")
    return nbad == 0


# ---------------------------------------------------------------- replay
def replay(path: str) -> int:
    """Re-run one stored case on the current tree (transition / start-up rows carry the expectation TLC
    exported; a history is re-recorded event by event and validated by Trace_X03 again)."""
    from . import boot
    boot.setup()
    world()          # first: installing the app resets Django's template engines
    harness()
    d = json.load(open(path))
    case = d["case"]
    kind = case.get("kind")
    if kind == "transition":
        bad = replay_transition(case["row"], case.get("flavour", 0))
    elif kind == "startup":
        bad = replay_startup(case["row"], case.get("flavour", 0))
    elif kind == "new-process-startup":
        bad = replay_startup(case["row"], observed=new_process_startup(case["row"]["conf"]))
    elif kind == "history":
        t = _rerecord(case)
        r, _ = _validate([t], "replay")
        tlc.require_ok(r, "Trace_X03")
        rej = _rejects(r.out, 1, "Trace_X03")
        print(json.dumps({"last_event": t["events"][-1], "verdict": [c for _, _, cl in rej for c in cl] or "ACCEPT"},
                         indent=1, default=repr))
        return 1 if any(not c.startswith("dev:") for _, _, cl in rej for c in cl) else 0
    else:
        print("unknown case kind")
        return 2
    print(json.dumps(bad, indent=1, default=repr))
    return 1 if any(b["key"] is None for b in bad) else 0


def _rerecord(case: Dict[str, Any]) -> Dict[str, Any]:
    """Apply the recorded changes again and observe again at every read / regread / startup."""
    conf = {"form": "none", "base": case["base"], "given": []}
    live = Live()
    out = []
    try:
        live.push(conf)
        for e in case["events"]:
            e = dict(e)
            given = {g["k"]: g["v"] for g in conf["given"]}
            op = e["op"]
            if op == "set":
                given[e["k"]] = e["v"]
                conf = dict(conf, form="dict" if conf["form"] == "none" else conf["form"])
            elif op == "unset":
                given.pop(e["k"], None)
            elif op == "reform":
                conf = dict(conf, form=e["s"])
            elif op == "drop":
                given, conf = {}, dict(conf, form="none")
            elif op == "setbase":
                conf = dict(conf, base=e["s"])
            elif op == "load":
                given, conf = {g["k"]: g["v"] for g in e["given"]}, dict(conf, form=e["s"])
            elif op == "read":
                e["obs"] = read(e["k"])
            elif op == "regread":
                e["obs"] = regread(e["k"], e["v"], e["w"])
            elif op == "compdirs":
                e["obs"] = compdirs(e["inc"])
            elif op == "startup":
                o = startup([e["n"]], e.get("wtarget", WTARGET))
                e.update(failed=o["failed"], dyn=o["dyn"], ml=o["ml"], stock=o["stock"],
                         cached=o["cached"][0][1] if o["cached"] else -1, fresh=o["fresh"], watch=o["watch"],
                         autod=o["autod"], loaded=o["loaded"])
            if op not in ("read", "regread", "compdirs", "startup"):
                conf = dict(conf, given=[{"k": a, "v": b} for a, b in sorted(given.items())])
                live.push(conf)
            out.append(e)
    finally:
        live.close()
    return {"id": 1, "base": case["base"], "fs": FS, "apps": APPS, "probedirs": PROBEDIRS, "events": out}


def _import_patched(path: str) -> None:
    import importlib.abc
    import importlib.util

    class Finder(importlib.abc.MetaPathFinder):
        def find_spec(self, name, _path, target=None):
            if name == "django_components.app_settings":
                return importlib.util.spec_from_file_location(name, path)
            return None
    sys.meta_path.insert(0, Finder())


if __name__ == "__main__":          # python -m vf.x03 --child <json>: one start-up in a new process
    if len(sys.argv) == 3 and sys.argv[1] == "--child":
        if os.environ.get("X03_PATCHED_APP_SETTINGS"):
            _import_patched(os.environ["X03_PATCHED_APP_SETTINGS"])
        _a = json.loads(sys.argv[2])
        print("X03CHILD " + json.dumps(_child_main(_a["conf"], _a["counts"])))
        sys.exit(0)
    sys.exit(2)
