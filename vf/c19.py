"""C19 - every script URL a render emits is served with that component's code.

Specification: specs/ScriptEndpoint.tla (cache of must-serve entries, class versions, held
pre-rendered pages, the active URL configuration; actions Render / Prerender / Finish / ClearCache /
Redefine / SetUrl / Get; the set `Adm` / `AdmAt` of answers the property admits for any request).

spec -> code: TLC (specs/MC_C19.tla) enumerates *every history* of at most 5 actions over 3
              generated classes (js only / css only / both / neither / with JS+CSS variables) and
              exports, per history, what the specification expects after its last action: the
              emitted entries and, per request, the admissible answers.  Every history is replayed
              on the real library: real Component classes, real renders (Component.render,
              render_to_response, Template + render_dependencies), real
              get_component_media_cache().clear(), URLs extracted from the produced HTML (the
              `<script type="application/json" data-djc>` block, base64 fields), fetched with
              django.test.Client under the URL configuration that is active (by default
              ROOT_URLCONF=django_components.urls, script prefix "/").
              A second export covers the request alphabet (unknown hashes, invalid kinds and
              input hashes, POST/PUT/DELETE/HEAD), extensions cover pre-rendered HTML finished
              later (render_dependencies=False ... render_dependencies()) and classes redefined
              under the same import path.
              Configuration U: the *URL configuration* is part of the machine's state
              (ScriptEndpoint!url, action SetUrl): histories in which the script prefix
              (django.urls.set_script_prefix, what WSGIHandler does with SCRIPT_NAME) and / or the
              active URLconf (override_settings(ROOT_URLCONF=...) in one half of the walks, per-request
              request.urlconf / set_urlconf in the other half; URLconfs that include
              django_components.urls at the root, under tenant/ and under t/eu/) CHANGE between the
              renders of one process.  The specification says which configuration every emitted URL
              is addressed to (eloc = the one active at that render); the replay compares that with
              the path of the URL and makes every request the way the front server would under the
              active configuration (only paths below the script prefix reach the application, with
              SCRIPT_NAME / PATH_INFO split; routed by the active URLconf).
code -> spec: seeded random histories (20-40 events, 3-6 classes, arbitrary requests, changes of the
              URL configuration over 2 script prefixes x 3 URLconfs, requests addressed to the active
              or to another configuration) are recorded on the real library and validated in one
              TLC batch by specs/Trace_C19.tla.

What is compared, and what is not (rule 1):
* body: `response.content.decode().strip() == code.strip()` - the library stores `script.strip()`;
  surrounding whitespace is not significant in JS/CSS and the property does not speak about it.
* content type: main type only; js admits text/javascript and application/javascript.
* an entry the specification does not oblige the endpoint to serve (never rendered, evicted, class
  redefined since) may answer 404 *or* that class's code: the property only constrains emitted URLs.
* the body of a *variables* script (`<hash>.<input>.<kind>`) is not determined by the docs (the
  feature is marked TODO in the code): only status, content type and "no other component's code".
* non-GET on a path that would be 404 anyway: 404 or 405 (the statement does not order the checks).
* the emitted set (which URLs a page announces) is taken from the docs (document: marked loaded,
  fragment: listed to load, only for non-blank Component.js/css); document pages always have
  <head>/<body> or the dependency placeholder tags (without them the library drops the dependencies:
  C08's subject), class names are ASCII (finding 11 belongs to C04).
* where the endpoint lives under a configuration is taken from the docs (`components/cache/` below the
  place where the project's URLconf includes django_components.urls, below the script prefix), not from
  the library's URL builder; a path addressed to another configuration than the active one is 404
  (Django's resolver; for a path outside SCRIPT_NAME the harness answers 404 itself: such a request
  never reaches the application).  HTML pre-rendered under one configuration and finished under another
  is addressed to the one active at the finishing call (that call emits the URLs).
* evictions *during* one render call (a cache too small for one page) are not modelled.
* pages containing a class with variables are not pre-rendered (a variables script cannot be
  regenerated from kept HTML; the feature is marked TODO).

Named deviations (genuine defects of the unchanged tree, KNOWN_FINDINGS.txt; described exactly in
MC_C19 / Trace_C19, so any *other* wrong answer on the same shape is a VIOLATION):
  kind-embeds-cached-input-hash:500, prerendered-html-finished-after-eviction:fragment-url-404,
  class-redefined-same-import-path:stale-code-served.
"""
from __future__ import annotations

import base64
import itertools
import json
import random
import re
import warnings
from typing import Any, Dict, List, Optional, Tuple

from . import tlc
from .core import Check, MachineryError, workdir

PID = "C19"
GEN_MODULE = "vf_c19_generated"
_uniq = itertools.count(1)

DEV_FINISH = "prerendered-html-finished-after-eviction:fragment-url-404"
DEV_STALE = "class-redefined-same-import-path:stale-code-served"
DEV_KIND = "kind-embeds-cached-input-hash:500"
ALL_DEVS = [DEV_FINISH, DEV_STALE, DEV_KIND]

BLANKS = [None, "", "   ", "\n\t \n"]          # "without js/css": absent, empty or whitespace only
PADS = [("", ""), ("\n    ", "\n  "), ("  ", ""), ("", "\n")]

# URL configurations "<script prefix>/<URLconf>" (opaque values in the specification)
URL_SPS = {"none": "/", "app": "/app/"}
URL_MTS = {"root": ("django_components.urls", ""),            # ROOT_URLCONF of vf.boot: components/ at the root
           "tenant": ("vf_c19_urls_tenant", "tenant/"),        # path("tenant/", include("django_components.urls"))
           "deep": ("vf_c19_urls_deep", "t/eu/")}              # two nested includes
DEFAULT_URL = "none/root"
ALL_URLS = [f"{sp}/{mt}" for sp in URL_SPS for mt in URL_MTS]
_REQUEST_URLCONF: Optional[str] = None       # what the per-request middleware puts into request.urlconf


def urlconf_middleware(get_response):
    """The multi-tenant pattern: the URLconf of a request is chosen per request."""
    def mw(request):
        if _REQUEST_URLCONF is not None:
            request.urlconf = _REQUEST_URLCONF
        return get_response(request)
    return mw


def _install_urlconfs() -> None:
    import sys
    import types
    from django.conf import settings
    from django.urls import include, path
    if "vf_c19_urls_tenant" not in sys.modules:
        m = types.ModuleType("vf_c19_urls_tenant")
        m.urlpatterns = [path("tenant/", include("django_components.urls"))]
        sys.modules[m.__name__] = m
        m = types.ModuleType("vf_c19_urls_deep")
        m.urlpatterns = [path("t/", include([path("eu/", include("django_components.urls"))]))]
        sys.modules[m.__name__] = m
    mw = f"{__name__}.urlconf_middleware"
    if list(settings.MIDDLEWARE) != [mw]:
        settings.MIDDLEWARE = [mw]


# ================================================================= the real world of one history
class World:
    """Real Component classes for an abstract class table `conf`, plus the driver state that is
    needed to *name* things (which HTML string belongs to which page); never used as an oracle."""

    def __init__(self, conf: List[Dict[str, bool]], mech: int = 0):
        import sys
        import types
        from django_components import registry
        _install_urlconfs()
        if GEN_MODULE not in sys.modules:      # generated classes live in a module object of their own
            mod = types.ModuleType(GEN_MODULE)
            mod.__file__ = None
            sys.modules[GEN_MODULE] = mod
        from django.test import Client
        self.conf = conf
        self.uid = next(_uniq)
        self.registry = registry
        self.client = Client(raise_request_exception=False)
        self.ver = [1] * len(conf)
        self.classes: List[Any] = []
        self.alive: List[Any] = []          # every class object ever made stays alive
        self.codes: Dict[str, Tuple[int, str, int]] = {}   # stripped code text -> (class, kind, version)
        self.vars_hash: Dict[Tuple[int, str], str] = {}     # learned from emitted URLs
        self.held: Dict[Tuple[int, ...], str] = {}
        self.wrappers: Dict[Any, Any] = {}
        self.names: List[str] = []
        self.url = DEFAULT_URL
        self.mech = mech % 2       # how a URLconf is activated: 0 settings.ROOT_URLCONF, 1 per request
        self._ovr: Any = None
        self._apply_url()
        for c in range(1, len(conf) + 1):
            self.classes.append(self._make(c))
            self.registry.register(self.regname(c), self.classes[-1])
            self.names.append(self.regname(c))

    # ---- generation
    def clsname(self, c: int) -> str:
        return f"VfC{self.uid}x{c}"

    def regname(self, c: int) -> str:
        # stable across worlds (one world is alive at a time): template strings repeat, so the
        # library's template cache is hit and a render costs what it costs in production
        return f"vfc19_{c}"

    def code(self, c: int, kind: str, ver: int) -> str:
        n = self.clsname(c)
        if kind == "js":
            body = f"/*vfjs:{n}:v{ver}*/ console.log(\"{n} v{ver} é\");"
        else:
            body = f"/*vfcss:{n}:v{ver}*/ .{n} {{ color: #{ver:02d}{c:02d}ff; }}"
        a, b = PADS[(c + ver + (kind == "css")) % len(PADS)]
        return a + body + b

    def _make(self, c: int):
        from django_components import Component
        cf = self.conf[c - 1]
        ver = self.ver[c - 1]
        d: Dict[str, Any] = {"template": f"<div class=\"vfc{c}\">c{c}</div>", "__module__": GEN_MODULE}
        for kind in ("js", "css"):
            if cf[kind]:
                txt = self.code(c, kind, ver)
                d[kind] = txt
                self.codes[txt.strip()] = (c, kind, ver)
            else:
                blank = BLANKS[(c + self.uid + (kind == "css")) % len(BLANKS)]
                if blank is not None:
                    d[kind] = blank
        if cf["vars"]:
            d["get_js_data"] = lambda self_, *a, **k: {"n": c, "who": "js"}
            d["get_css_data"] = lambda self_, *a, **k: {"n": c, "who": "css"}
        if c % 3 == 0:   # a linked (non-endpoint) asset: must be ignored by the URL extraction
            d["Media"] = type("Media", (), {"js": [f"https://cdn.example/{self.clsname(c)}.js"],
                                            "css": [f"/static-elsewhere/{self.clsname(c)}.css"]})
        cls = type(self.clsname(c), (Component,), d)
        self.alive.append(cls)
        return cls

    def close(self) -> None:
        for n in self.names:
            try:
                self.registry.unregister(n)
            except Exception:
                pass
        self.names = []
        self.url = DEFAULT_URL
        self._apply_url()

    # ---- the URL configuration
    def set_url(self, u: str) -> None:
        if u not in ALL_URLS:
            raise MachineryError(f"unknown URL configuration {u!r}")
        self.url = u
        self._apply_url()

    def _apply_url(self) -> None:
        """Make self.url the active configuration of this thread, the way a request under it does
        (the test client's handler resets the URLconf after every request and never sets the script
        prefix, so this is repeated before every render and every request)."""
        global _REQUEST_URLCONF
        from django.conf import settings
        from django.test import override_settings
        from django.urls import set_script_prefix, set_urlconf
        sp, mt = self.url.split("/")
        mod = URL_MTS[mt][0]
        set_script_prefix(URL_SPS[sp])
        if self.mech == 0 or mt == "root":
            _REQUEST_URLCONF = None
            if settings.ROOT_URLCONF != mod:
                if self._ovr is not None:
                    self._ovr.disable()
                    self._ovr = None
                if settings.ROOT_URLCONF != mod:
                    self._ovr = override_settings(ROOT_URLCONF=mod)
                    self._ovr.enable()          # fires setting_changed: Django clears its URL caches
            set_urlconf(None)
        else:
            if self._ovr is not None:
                self._ovr.disable()
                self._ovr = None
            _REQUEST_URLCONF = mod
            set_urlconf(mod)

    def endpoint_prefix(self, u: Optional[str] = None) -> str:
        """Documented location of the endpoint under configuration u (default: the active one)."""
        sp, mt = (u or self.url).split("/")
        return URL_SPS[sp] + URL_MTS[mt][1] + "components/cache/"

    def locate(self, url: str) -> Tuple[str, str]:
        """(configuration a path is addressed to, rest of the path) or ("", "")."""
        p = url.split("?")[0]
        for u in ALL_URLS:
            pre = self.endpoint_prefix(u)
            if p.startswith(pre):
                return u, p[len(pre):]
        return "", ""

    # ---- actions
    def children(self, page) -> str:
        return "".join('{% component "' + self.regname(c) + '" / %}' for c in page)

    def wrapper_src(self, page, mode: str, style: int) -> str:
        kids = self.children(page)
        if mode == "fragment":
            return [f"<div class=\"frag\">{kids}</div>", f"<section><p>x</p>{kids}</section>"][style % 2]
        if style % 2 == 0:
            return f"<!DOCTYPE html><html><head><title>t</title></head><body><main>{kids}</main></body></html>"
        return ("<!DOCTYPE html><html><head>{% component_css_dependencies %}</head><body><main>" + kids +
                "</main>{% component_js_dependencies %}</body></html>")

    def wrapper(self, page, mode: str, style: int):
        from django_components import Component
        key = (tuple(page), mode, style % 2)
        if key not in self.wrappers:
            self.wrappers[key] = type(f"VfW{self.uid}p{''.join(map(str, page))}{mode[0]}{style % 2}", (Component,),
                                      {"template": self.wrapper_src(page, mode, style), "__module__": GEN_MODULE})
            self.alive.append(self.wrappers[key])
        return self.wrappers[key]

    def render(self, page, mode: str, via: int) -> Dict[str, Any]:
        """Render `page` with dependencies in `mode`; returns {"err", "html"}."""
        from django.template import Context, Template
        from django_components import render_dependencies
        page = list(page)
        self._apply_url()
        try:
            how = via % 4
            if how == 3 and not (len(page) == 1 and mode == "fragment"):
                how = 0
            if how == 0:
                html = self.wrapper(page, mode, via // 4).render(type=mode)
            elif how == 1:
                html = Template(self.wrapper_src(page, mode, via // 4)).render(Context({}))
                html = render_dependencies(html, type=mode)
            elif how == 2:
                resp = self.wrapper(page, mode, via // 4).render_to_response(type=mode)
                html = resp.content.decode("utf-8")
            else:
                html = self.classes[page[0] - 1].render(type="fragment")
            return {"err": False, "html": str(html)}
        except Exception as e:
            return {"err": True, "html": "", "exc": f"{type(e).__name__}: {e}"[:300]}

    def prerender(self, page) -> Dict[str, Any]:
        page = list(page)
        self._apply_url()
        try:
            html = "".join(str(self.classes[c - 1].render(render_dependencies=False)) for c in page)
            self.held[tuple(page)] = html
            return {"err": False, "html": html}
        except Exception as e:
            return {"err": True, "html": "", "exc": f"{type(e).__name__}: {e}"[:300]}

    def finish(self, page, mode: str) -> Dict[str, Any]:
        from django_components import render_dependencies
        html = self.held[tuple(page)]
        if mode == "document":
            html = f"<html><head></head><body>{html}</body></html>"
        self._apply_url()
        try:
            return {"err": False, "html": str(render_dependencies(html, type=mode))}
        except Exception as e:
            return {"err": True, "html": "", "exc": f"{type(e).__name__}: {e}"[:300]}

    def clear(self) -> None:
        from django_components.cache import get_component_media_cache
        get_component_media_cache().clear()

    def redefine(self, c: int) -> None:
        """A new class object with the same import path (same hash, same URLs) and new code."""
        old = self.classes[c - 1]
        self.ver[c - 1] += 1
        new = self._make(c)
        if getattr(new, "_class_hash", None) != getattr(old, "_class_hash", None):
            raise MachineryError("redefined class got another hash - cannot emulate a reload")
        self.classes[c - 1] = new
        self.registry.register(self.regname(c), new)
        for p in [p for p in self.held if c in p]:
            del self.held[p]

    # ---- observation
    def class_of_hash(self, h: str) -> int:
        for i, cls in enumerate(self.classes):
            if getattr(cls, "_class_hash", None) == h:
                return i + 1
        return 0

    def emitted(self, html: str) -> List[Dict[str, Any]]:
        """Endpoint URLs announced by the HTML: [{"url", "chan", "entry": [c, kind, which], "loc"}];
        loc = the URL configuration the path is addressed to ("" if none of the known ones)."""
        from django.urls import Resolver404, resolve
        out = []
        for blob in re.findall(r'<script type="application/json" data-djc>(.*?)</script>', html, re.S):
            data = json.loads(blob)
            for field, chan, is_tag in (("loadedJsUrls", "loaded", False), ("loadedCssUrls", "loaded", False),
                                        ("toLoadJsTags", "toload", True), ("toLoadCssTags", "toload", True)):
                for b64 in data.get(field, []):
                    txt = base64.b64decode(b64).decode("utf-8")
                    urls = re.findall(r'(?:src|href)="([^"]+)"', txt) if is_tag else [txt]
                    for u in urls:
                        entry = None
                        loc, tail = self.locate(u)
                        try:
                            if not loc:
                                raise Resolver404()
                            # the part below the mount point is parsed by the library's own routes
                            m = resolve("/components/cache/" + tail, urlconf="django_components.urls")
                            if m.url_name == "components_cached_script":
                                c = self.class_of_hash(m.kwargs.get("comp_cls_hash", ""))
                                kind = m.kwargs.get("script_type", "?")
                                ih = m.kwargs.get("input_hash")
                                if ih is None:
                                    which = "main"
                                elif c and self.conf[c - 1]["vars"] and self.vars_hash.setdefault((c, kind), ih) == ih:
                                    which = "vars"
                                else:
                                    which = "?"
                                entry = [c, kind, which]
                        except Resolver404:
                            if "/components/" in u and "//" not in u:
                                entry = [0, "?", "?"]       # announced under the library's prefix, but no route
                        if entry is not None:
                            out.append({"url": u, "chan": chan, "entry": entry, "loc": loc})
        return out

    def url_for(self, req: Dict[str, Any], salt: int = 0) -> Optional[str]:
        """Concrete path for an abstract request; None if it cannot be built yet (the valid input
        hash of a class is only known once a render announced it)."""
        from urllib.parse import quote
        c, k, i = req["c"], req["k"], req["i"]
        if c >= 1:
            h = self.classes[c - 1]._class_hash
        else:
            real = self.classes[salt % len(self.classes)]._class_hash
            h = ["Nope_0a1b2c", real[:-1] + ("0" if real[-1] != "0" else "1"), real.split("_")[0],
                 real.upper(), "x" * 300][salt % 5]
        base = k.split(":")[0]
        if k.endswith(":vars"):
            vh = self.vars_hash.get((c, base))
            if vh is None:
                return None
            kind = f"{base}:{vh}"
        else:
            kind = k
        if i == "none":
            mid = ""
        elif i == "vars":
            if c >= 1 and self.conf[c - 1]["vars"] and self.conf[c - 1].get(base, False):
                vh = self.vars_hash.get((c, base))
                if vh is None:
                    return None
                mid = "." + vh
            else:
                mid = ".0a1b2c"
        else:
            mid = "." + i
        return self.endpoint_prefix(req.get("at")) + quote(h) + quote(mid) + "." + quote(kind)

    def fetch(self, url: str, method: str = "GET", req: Optional[Dict[str, Any]] = None) -> Dict[str, Any]:
        """Answer of the endpoint projected to the abstract response record."""
        self._apply_url()
        sp = URL_SPS[self.url.split("/")[0]]
        if not url.startswith(sp):
            # outside the mount point: the front server never hands this request to the application
            return {"st": 404, "c": 0, "k": "", "i": "", "v": 0, "ct": "", "unrouted": True}
        extra = {"SCRIPT_NAME": sp.rstrip("/")} if sp != "/" else {}
        with warnings.catch_warnings():
            warnings.simplefilter("ignore")
            r = self.client.generic(method, "/" + url[len(sp):], **extra)
        st = r.status_code
        out = {"st": st, "c": 0, "k": "", "i": "", "v": 0, "ct": (r.get("Content-Type") or "").split(";")[0].strip().lower()}
        if st != 200:
            return out
        body = r.content.decode("utf-8", errors="replace").strip()
        if body in self.codes:
            c, k, v = self.codes[body]
            out.update(c=c, k=k, i="main", v=v)
            return out
        tokens = re.findall(r"/\*vf(?:js|css):(\w+):v\d+\*/", body)
        is_vars_url = False
        if req is not None and req.get("i") == "vars" and req["c"] >= 1:
            is_vars_url = True
        if is_vars_url and all(t == self.clsname(req["c"]) for t in tokens):
            out.update(c=req["c"], k=req["k"], i="vars", v=self.ver[req["c"] - 1])   # body unconstrained
        else:
            out.update(c=0, k="?", i="?", v=0)
            out["body"] = body[:80]
        return out


def entry_req(entry) -> Dict[str, Any]:
    return {"c": entry[0], "k": entry[1], "i": "none" if entry[2] == "main" else ("vars" if entry[2] == "vars" else "?"),
            "m": "GET"}


# ================================================================= comparing with the specification
def admissible(o: Dict[str, Any], req: Dict[str, Any], adm: List[List[int]], ct: Dict[str, List[str]]) -> bool:
    """Is the projected answer `o` one of the answers <<status, version>> the spec admits for `req`?
    (class / kind / which-script of a 200 are those of the request: ScriptEndpoint!AnswersSane)."""
    for st, v in adm:
        if st != o["st"]:
            continue
        if st != 200:
            return True
        which = "main" if req["i"] == "none" else "vars"
        if (o["c"], o["k"], o["i"], o["v"]) == (req["c"], req["k"], which, v) and o["ct"] in ct.get(req["k"], []):
            return True
    return False


def dev_matches(o: Dict[str, Any], req: Dict[str, Any], devout: List[int]) -> bool:
    st, v = devout
    if st != o["st"]:
        return False
    if st != 200:
        return True
    return (o["c"], o["k"], o["i"], o["v"]) == (req["c"], req["k"], "main", v)


def akey(a: Dict[str, Any], res: Optional[str] = None) -> str:
    return (f"{a['op']}|{','.join(map(str, a['page']))}|{a['mode']}|{a['c']}|{res if res is not None else a['res']}"
            f"|{a.get('u', '')}")


def via_of(step: int, a: Dict[str, Any]) -> int:
    return step * 3 + sum(a["page"]) + 2 * len(a["page"]) + (5 if a["mode"] == "document" else 0)


def perform(w: World, a: Dict[str, Any], step: int) -> Dict[str, Any]:
    """Execute one abstract action on the real library and observe."""
    op = a["op"]
    obs: Dict[str, Any] = {"res": "ok", "emitted": [], "exc": None}
    if op == "clear":
        w.clear()
    elif op == "redefine":
        w.redefine(a["c"])
    elif op == "seturl":
        w.set_url(a["u"])
    elif op == "prerender":
        r = w.prerender(a["page"])
        if r["err"]:
            obs.update(res="error", exc=r.get("exc"))
    elif op in ("render", "finish"):
        r = w.render(a["page"], a["mode"], via_of(step, a)) if op == "render" else w.finish(a["page"], a["mode"])
        if r["err"]:
            obs.update(res="error" if op == "render" else "fail", exc=r.get("exc"))
        else:
            em = w.emitted(r["html"])
            for e in em:
                e["out"] = w.fetch(e["url"], "GET", entry_req(e["entry"]))
            obs["emitted"] = em
    else:
        raise MachineryError(f"unknown action {op}")
    return obs


def compare_step(w: World, a: Dict[str, Any], obs: Dict[str, Any], row: Dict[str, Any], probe: bool,
                 salt: int) -> Tuple[List[Dict[str, Any]], List[str]]:
    """Mismatches between the observation after the last action of `row` and what the spec expects.
    Returns (violations, known deviation names that explain single answers)."""
    bad: List[Dict[str, Any]] = []
    devs: List[str] = []
    table = {(t[0], t[1], t[2], t[3]): t for t in row["table"]}
    ct = row["ct"]

    def judge(what, req, o, url):
        t = table.get((req["c"], req["k"], req["i"], req["m"]))
        if t is None:
            bad.append({"what": what + ":request-outside-table", "req": req, "url": url, "observed": o})
            return
        if admissible(o, req, t[4], ct):
            return
        if t[5] and dev_matches(o, req, t[6]):
            devs.append(t[5])
            return
        bad.append({"what": what, "req": req, "url": url, "observed": o, "admissible": t[4]})

    if row.get("url", w.url) != w.url:
        raise MachineryError(f"replay is under {w.url}, the exported history under {row.get('url')}")
    if a["op"] in ("render", "finish") and obs["res"] == "ok":
        elsewhere = [[e["url"], e["loc"]] for e in obs["emitted"] if e["loc"] != row.get("eloc", DEFAULT_URL)]
        if elsewhere:
            bad.append({"what": "emitted_location", "expected": row.get("eloc", DEFAULT_URL), "observed": elsewhere})
        want = sorted(map(tuple, row["emitted"]))
        got = sorted(tuple(e["entry"]) for e in obs["emitted"])
        if sorted(set(got)) != want:
            bad.append({"what": "emitted_set", "expected": want, "observed": got})
        chan = "loaded" if a["mode"] == "document" else "toload"
        if any(e["chan"] != chan for e in obs["emitted"]):
            bad.append({"what": "channel", "expected": chan, "observed": [[e["url"], e["chan"]] for e in obs["emitted"]]})
        for e in obs["emitted"]:
            if e["entry"][0] >= 1 and e["entry"][2] in ("main", "vars"):
                judge("emitted_served", entry_req(e["entry"]), e["out"], e["url"])
    if probe:
        for n, t in enumerate(row["table"]):
            req = {"c": t[0], "k": t[1], "i": t[2], "m": t[3]}
            url = w.url_for(req, salt + n)
            if url is None:
                continue
            judge("probe", req, w.fetch(url, req["m"], req), url)
    return bad, devs


class Rows:
    """The export of one TLC run: history -> expectation after its last action."""

    def __init__(self, name: str, rows: List[Dict[str, Any]]):
        self.name = name
        self.by_key: Dict[Tuple[str, ...], Dict[str, Any]] = {}
        has_child = set()
        for r in rows:
            k = tuple(akey(a) for a in r["hist"])
            self.by_key[k] = r
            has_child.add(k[:-1])
        self.conf = rows[0]["conf"] if rows else []
        drives = {}
        for k, r in self.by_key.items():
            if k not in has_child:
                d = tuple(akey(a, "") for a in r["hist"])
                drives.setdefault(d, [dict(a, res="") for a in r["hist"]])
        self.drives = [drives[d] for d in sorted(drives)]


_ROWS: Dict[str, Rows] = {}
_EXPORTS: Dict[str, Any] = {}      # selftest only: the specification side is the same for every probe
_KEEP_EXPORTS = False


def walk(rows: Rows, acts: List[Dict[str, Any]], checked: set, salt: int) -> Dict[str, Any]:
    """Replay one maximal history; every prefix is compared with its exported row (once)."""
    res = {"viol": [], "known": [], "steps": 0, "checked": 0, "fetched": 0, "nontrivial": 0}
    w = World(rows.conf, mech=salt)
    w.clear()
    key: Tuple[str, ...] = ()
    done: List[Dict[str, Any]] = []
    try:
        for s, a in enumerate(acts):
            obs = perform(w, a, s)
            res["steps"] += 1
            res["fetched"] += len(obs["emitted"])
            order = [obs["res"]] + (["dev"] if a["op"] == "finish" and obs["res"] == "ok" else [])
            first_bad = None
            chosen = None
            for r_ in order:
                k2 = key + (akey(a, r_),)
                row = rows.by_key.get(k2)
                if row is None:
                    continue
                fresh = k2 not in checked
                bad, devs = compare_step(w, a, obs, row, probe=fresh or r_ == "dev" or a["op"] == "finish", salt=salt + s)
                if r_ == "dev" and not bad:
                    dead = set(map(tuple, row["dead"]))
                    for e in obs["emitted"]:
                        if tuple(e["entry"]) in dead and e["out"]["st"] != 404:
                            bad.append({"what": "deviation-predicts-404", "observed": e["out"], "url": e["url"]})
                if not bad:
                    chosen = (k2, row, devs, r_, fresh)
                    break
                if first_bad is None:
                    first_bad = (k2, row, bad)
            case_hist = done + [dict(a, res=obs["res"])]
            if chosen is None:
                if first_bad is None:
                    res["viol"].append(({"kind": "history", "cfg": rows.name, "mech": salt % 2, "conf": rows.conf, "hist": case_hist, "row": None},
                                        {"what": "outcome-not-admitted", "observed_res": obs["res"], "exc": obs["exc"]}, None))
                else:
                    res["viol"].append(({"kind": "history", "cfg": rows.name, "mech": salt % 2, "conf": rows.conf, "hist": case_hist,
                                         "row": first_bad[1]}, {"mismatches": first_bad[2][:6], "exc": obs["exc"]}, None))
                break
            k2, row, devs, r_, fresh = chosen
            case = {"kind": "history", "cfg": rows.name, "mech": salt % 2, "conf": rows.conf, "hist": done + [dict(a, res=r_)], "row": row}
            if fresh:
                checked.add(k2)
                res["checked"] += 1
                if row["emitted"]:
                    res["nontrivial"] += 1
                if r_ == "dev":
                    res["known"].append((case, {"deviation": row["dev"], "dead": row["dead"]}, row["dev"]))
                for d in sorted(set(devs)):
                    res["known"].append((case, {"deviation": d}, d))
            key = k2
            done.append(dict(a, res=r_))
    finally:
        w.close()
    return res


def _walk_chunk(args) -> Dict[str, Any]:
    name, lo, hi = args
    rows = _ROWS[name]
    checked: set = set()
    tot = {"viol": [], "known": [], "steps": 0, "checked": 0, "fetched": 0, "nontrivial": 0, "walks": 0}
    for n in range(lo, hi):
        r = walk(rows, rows.drives[n], checked, salt=n)
        for k in ("viol", "known"):
            tot[k].extend(r[k])
        for k in ("steps", "checked", "fetched", "nontrivial"):
            tot[k] += r[k]
        tot["walks"] += 1
        if len(tot["viol"]) > 40:
            break
    return tot


# ================================================================= TLC configurations
def conf_num(conf: List[Dict[str, bool]]) -> int:
    return sum((int(c["js"]) + 2 * int(c["css"]) + 4 * int(c["vars"])) << (3 * i) for i, c in enumerate(conf))


def cf(js=False, css=False, vars=False) -> Dict[str, bool]:
    return {"js": js, "css": css, "vars": vars}


def tla_set(xs) -> str:
    return "{" + ",".join(xs) + "}"


def tla_str_set(xs) -> str:
    return tla_set(f'"{x}"' for x in xs)


def tla_pages(pages) -> str:
    return tla_set(tla_set(str(c) for c in p) for p in pages)


def mc_cfg(path, conf, pages, modes, maxlen, ext=(), maxver=1, devs=(), kinds=("js", "css"),
           inputs=("none", "vars"), methods=("GET",), urls=(DEFAULT_URL,), export=True) -> None:
    path.write_text(
        "SPECIFICATION MCSpec\nCONSTANTS\n"
        f"  NC = {len(conf)}\n  ConfNum = {conf_num(conf)}\n  Pages = {tla_pages(pages)}\n"
        f"  Modes = {tla_str_set(modes)}\n  MaxLen = {maxlen}\n  Ext = {tla_str_set(ext)}\n  MaxVer = {maxver}\n"
        f"  Devs = {tla_str_set(devs)}\n  ReqKinds = {tla_str_set(kinds)}\n  ReqInputs = {tla_str_set(inputs)}\n"
        f"  ReqMethods = {tla_str_set(methods)}\n  UrlCfgs = {tla_str_set(urls)}\n"
        "INVARIANT InvEmittedAreServed\nINVARIANT InvMustServeDetermined\nINVARIANT InvAnswersSane\n"
        "INVARIANT InvKeptCoversCache\n" + ("INVARIANT Export\n" if export else "") +
        "PROPERTY MCRenderRecaches\nPROPERTY MCOnlyClearDrops\n")


BOTH = ["document", "fragment"]
INVALID_KINDS = ["js", "css", "txt", "JS", "jss", "js:vars", "css:vars", "j s"]
INVALID_INPUTS = ["none", "vars", "zzzzzz"]
METHODS = ["GET", "POST", "PUT", "DELETE", "HEAD"]


def configurations(tier: str) -> List[Dict[str, Any]]:
    """The TLC runs of a tier.  Every run enumerates *all* histories up to maxlen over its alphabet."""
    q = tier == "quick"
    singles = [[1], [2], [3]]
    c1 = [cf(js=True), cf(css=True), cf(js=True, css=True)]                 # js only / css only / both
    c2 = [cf(js=True, css=True, vars=True), cf(), cf(js=True)]              # with variables / neither / js only
    out = []
    if q:
        # all histories <= 5 of single-class renders and clears in each mode, <= 4 with the modes mixed
        out += [dict(name="H1f", conf=c1, pages=singles, modes=["fragment"], maxlen=5, inputs=["none"]),
                dict(name="H1d", conf=c1, pages=singles, modes=["document"], maxlen=5, inputs=["none"]),
                dict(name="H1", conf=c1, pages=singles, modes=BOTH, maxlen=4, inputs=["none"]),
                dict(name="H2", conf=c2, pages=[[1, 3], [1, 2, 3]], modes=BOTH, maxlen=4)]
    else:
        out += [dict(name="H1", conf=c1, pages=singles, modes=BOTH, maxlen=5, inputs=["none"]),
                dict(name="H2", conf=c2, pages=[[1, 3], [2], [1, 2, 3]], modes=BOTH, maxlen=5),
                dict(name="H3", conf=[cf(css=True, vars=True), cf(js=True, css=True), cf(js=True)],
                     pages=[[1], [2], [3], [1, 2], [1, 3], [2, 3], [1, 2, 3]], modes=BOTH, maxlen=3)]
    out += [
        # request alphabet: unknown hashes, invalid kinds / input hashes, methods
        dict(name="R", conf=[cf(js=True, css=True, vars=True), cf(js=True)], pages=[[1], [1, 2]], modes=BOTH,
             maxlen=2 if q else 3, kinds=INVALID_KINDS, inputs=INVALID_INPUTS, methods=METHODS),
        # extension: HTML pre-rendered with render_dependencies=False, post-processed later
        dict(name="S", conf=[cf(js=True, css=True), cf(css=True)], pages=[[1, 2]] if q else [[1], [1, 2]], modes=BOTH,
             maxlen=4 if q else 5, ext=["split"]),
        # extension: class redefined under the same import path
        dict(name="D", conf=[cf(js=True, css=True), cf(js=True, vars=True)], pages=[[1, 2]] if q else [[1], [2]],
             modes=BOTH, maxlen=4 if q else 5, ext=["redef"], maxver=3),
        # the URL configuration (script prefix x URLconf) changes between the renders of one process:
        # prefix only, URLconf only, both at once, and back
        dict(name="U", conf=[cf(js=True, css=True), cf(js=True, vars=True)], pages=[[1, 2]], modes=BOTH,
             maxlen=4 if q else 5, ext=["url"], urls=["none/root", "app/root", "none/tenant", "app/deep"]),
    ]
    return out


def model_check_and_replay(chk: Check, tier: str, procs: int, only: Optional[List[str]] = None,
                           limit: Optional[int] = None) -> None:
    import multiprocessing as mp
    w = workdir("c19mc")
    for c in configurations(tier):
        if only and c["name"] not in only:
            continue
        name = c.pop("name")
        cfg = w / f"{name}.cfg"
        out = w / f"{name}.ndjson"
        if (tier, name) in _EXPORTS:
            r, raw = _EXPORTS[(tier, name)]
        else:
            mc_cfg(cfg, devs=ALL_DEVS, **c)
            r = tlc.require_ok(tlc.run("MC_C19", str(cfg), env={"OUT": str(out)}, workers=1, heap="3g"), f"MC_C19 {name}")
            raw = tlc.read_ndjson(out)
            if len(raw) != r.distinct - 1:
                raise MachineryError(f"export incomplete: {len(raw)} rows for {r.distinct} states ({name})")
            if _KEEP_EXPORTS:
                _EXPORTS[(tier, name)] = (r, raw)
        rows = Rows(name, raw)
        _ROWS[name] = rows
        n = len(rows.drives) if limit is None else min(limit, len(rows.drives))
        chunks = [(name, lo, min(n, lo + max(1, -(-n // (procs * 4))))) for lo in range(0, n, max(1, -(-n // (procs * 4))))]
        if procs > 1 and n > 20:
            with mp.get_context("fork").Pool(procs) as pool:
                results = pool.map(_walk_chunk, chunks)
        else:
            results = [_walk_chunk(ch) for ch in chunks]
        checked = sum(t["checked"] for t in results)
        for t in results:
            for case, detail, key in t["viol"]:
                chk.violation(case, detail, key)
            for case, detail, key in t["known"]:
                chk.violation(case, detail, key)
        chk.add("states", r.distinct)
        chk.add("transitions", r.generated)
        chk.add("histories_exported", len(raw))
        chk.add("histories_replayed", sum(t["walks"] for t in results))
        chk.add("history_prefix_checks", checked)
        chk.add("real_actions_executed", sum(t["steps"] for t in results))
        chk.add("emitted_urls_fetched", sum(t["fetched"] for t in results))
        chk.cov.setdefault("per_configuration", {})[name] = {
            "states": r.distinct, "histories": len(raw), "maximal_histories_replayed": sum(t["walks"] for t in results),
            "tlc_s": round(r.wall_s, 1)}
        for row in raw:
            chk.count([name, row["hist"]], nontrivial=bool(row["emitted"]))
        split = "split" in c.get("ext", ())
        if limit is None and not split and checked < len(raw) and not any(t["viol"] for t in results):
            raise MachineryError(f"{name}: only {checked} of {len(raw)} exported histories were reached by the replay")
        mid = raw[len(raw) // 2]
        chk.sample({"history": {"cfg": name, "hist": mid["hist"], "emitted": mid["emitted"], "must": mid["must"]}}, limit=6)
        _ROWS.pop(name, None)


# ================================================================= code -> spec: recorded traces
REQ_KINDS = ["js", "css", "js", "css", "txt", "JS", "jss", "js:vars", "css:vars", "j s", "map"]
REQ_INPUTS = ["none", "none", "none", "vars", "vars", "zzzzzz", "0a1b2d", "x.y"]


def record_trace(rnd: random.Random, tid: int, length: int, ext: bool) -> Dict[str, Any]:
    n = rnd.randint(3, 6)
    conf = []
    for _ in range(n):
        shape = rnd.choice(["js", "css", "both", "both", "neither"])
        conf.append(cf(js=shape in ("js", "both"), css=shape in ("css", "both"),
                       vars=shape != "neither" and rnd.random() < 0.3))
    if not any(c["js"] or c["css"] for c in conf):
        conf[0] = cf(js=True, css=True)
    w = World(conf, mech=rnd.randrange(2))
    w.clear()
    events: List[Dict[str, Any]] = []
    try:
        for s in range(length):
            x = rnd.random()
            page = sorted(rnd.sample(range(1, n + 1), rnd.choice([1, 1, 2, 2, 3])))
            mode = rnd.choice(BOTH)
            # a variables script cannot be regenerated from pre-rendered HTML (the data is gone) and the
            # feature is marked TODO: pages with such classes are not pre-rendered (unspecified zone)
            plain = [c for c in page if not conf[c - 1]["vars"]]
            if x < 0.34:
                a = {"op": "render", "page": page, "mode": mode, "c": 0}
                obs = perform_via(w, a, rnd.randrange(8))
                events.append(_emit_event(a, obs))
            elif x < 0.44:
                w.clear()
                events.append({"op": "clear"})
            elif x < 0.51:
                # another script prefix and / or another URLconf from now on
                u = rnd.choice([v for v in ALL_URLS if v != w.url])
                w.set_url(u)
                events.append({"op": "seturl", "u": u})
            elif x < 0.80 or not ext:
                c = rnd.choice([0] + list(range(1, n + 1)) * 3)
                # a path of the endpoint under the active configuration (mostly) or under another one
                at = w.url if rnd.random() < 0.85 else rnd.choice(ALL_URLS)
                req = {"c": c, "k": rnd.choice(REQ_KINDS), "i": rnd.choice(REQ_INPUTS),
                       "m": rnd.choice(["GET"] * 6 + METHODS[1:]), "at": at}
                url = w.url_for(req, rnd.randrange(100))
                if url is None:
                    continue
                events.append({"op": "get", "req": req, "out": _noextra(w.fetch(url, req["m"], req)), "url": url,
                               "under": w.url})
            elif x < 0.87:
                if not plain:
                    continue
                page = plain
                a = {"op": "prerender", "page": page, "mode": "", "c": 0}
                obs = perform(w, a, s)
                events.append({"op": "prerender", "page": page, "err": obs["res"] != "ok"})
            elif x < 0.95:
                if not w.held:
                    continue
                page = list(rnd.choice(sorted(w.held)))
                a = {"op": "finish", "page": page, "mode": mode, "c": 0}
                obs = perform(w, a, s)
                events.append(_emit_event(a, obs))
            else:
                c = rnd.randint(1, n)
                w.redefine(c)
                events.append({"op": "redefine", "c": c})
    finally:
        w.close()
    return {"id": tid, "conf": conf, "events": events}


def perform_via(w: World, a: Dict[str, Any], via: int) -> Dict[str, Any]:
    r = w.render(a["page"], a["mode"], via)
    obs: Dict[str, Any] = {"res": "ok", "emitted": [], "exc": None}
    if r["err"]:
        obs.update(res="error", exc=r.get("exc"))
    else:
        em = w.emitted(r["html"])
        for e in em:
            e["out"] = w.fetch(e["url"], "GET", entry_req(e["entry"]))
        obs["emitted"] = em
    return obs


def _noextra(o: Dict[str, Any]) -> Dict[str, Any]:
    return {k: o[k] for k in ("st", "c", "k", "i", "v", "ct")}


def _emit_event(a: Dict[str, Any], obs: Dict[str, Any]) -> Dict[str, Any]:
    return {"op": a["op"], "page": a["page"], "mode": a["mode"], "err": obs["res"] != "ok",
            "emitted": [e["entry"] for e in obs["emitted"]], "chan": [e["chan"] for e in obs["emitted"]],
            "loc": [e["loc"] for e in obs["emitted"]],
            "fetch": [_noextra(e["out"]) for e in obs["emitted"]], "urls": [e["url"] for e in obs["emitted"]],
            "exc": obs.get("exc") or ""}


class media_backend:
    """Run with COMPONENTS.cache naming a configured Django cache (here Django's own default
    LocMemCache alias, TIMEOUT 300 s / MAX_ENTRIES 300) instead of the library's private LocMemCache."""

    def __init__(self, alias: Optional[str]):
        self.alias = alias

    def __enter__(self):
        from django.conf import settings
        import django_components.cache as dcache
        self.old = settings.COMPONENTS
        if self.alias is not None:
            settings.COMPONENTS = dict(self.old, cache=self.alias)
            dcache.component_media_cache = None
            from django.core.cache import caches
            if dcache.get_component_media_cache() is not caches[self.alias]:
                raise MachineryError("COMPONENTS.cache was not honoured by get_component_media_cache()")

    def __exit__(self, *a):
        from django.conf import settings
        import django_components.cache as dcache
        if self.alias is not None:
            settings.COMPONENTS = self.old
            dcache.component_media_cache = None


def validate_traces(chk: Check, ntraces: int, length: int, ext: bool, tag: str, backend: Optional[str] = None) -> None:
    rnd = random.Random(chk.seed * 7919 + 19 + (1000 if ext else 0) + (5000 if backend else 0))
    with media_backend(backend):
        traces = [record_trace(rnd, i + 1, length, ext) for i in range(ntraces)]
    w = workdir("c19tr")
    f = w / f"traces_{tag}.ndjson"
    tlc.write_ndjson(f, traces)
    cfg = w / f"trace_{tag}.cfg"
    cfg.write_text("SPECIFICATION TrSpec\nINVARIANT TrMustServeDetermined\n")
    r = tlc.run("Trace_C19", str(cfg), env={"IN": str(f)}, workers=1, heap="3g")
    if r.violated:
        chk.violation({"kind": "trace-invariant", "tag": tag}, {"violated": r.violated, "tlc_tail": r.out.splitlines()[-30:]})
        return
    tlc.require_ok(r, f"Trace_C19 {tag}")
    v = tlc.verdicts(r, len(traces), f"Trace_C19 {tag}")
    for line in r.out.splitlines():
        m = re.match(r'<<"DEV", (\d+), (\d+), "([^"]+)">>', line)
        if m:
            t = traces[int(m.group(1)) - 1]
            n = int(m.group(2))
            chk.violation({"kind": "trace", "conf": t["conf"], "events": t["events"][:n]},
                          {"deviation": m.group(3), "event": t["events"][n - 1]}, key=m.group(3))
    for tid, why in v["rejected"].items():
        t = traces[tid - 1]
        chk.violation({"kind": "trace", "conf": t["conf"], "events": t["events"][: why["event"]]},
                      {"clauses": why["clauses"], "event": t["events"][why["event"] - 1]})
    nev = 0
    for t in traces:
        chk.count([t["conf"], [(e["op"], e.get("page"), e.get("mode"), e.get("req"), e.get("u")) for e in t["events"]]])
        nev += len(t["events"])
        chk.add("trace_urls_fetched", sum(len(e.get("emitted", [])) for e in t["events"]))
        chk.add("trace_gets", sum(1 for e in t["events"] if e["op"] == "get"))
        chk.add("trace_url_configuration_changes", sum(1 for e in t["events"] if e["op"] == "seturl"))
        chk.add("trace_urls_emitted_off_default_configuration",
                sum(sum(1 for x in e.get("loc", []) if x != DEFAULT_URL) for e in t["events"]))
    chk.add("traces_validated_against_impl", len(traces))
    chk.add("trace_events", nev)
    chk.add("trace_states", r.distinct)
    chk.sample({"trace_head": {"conf": traces[0]["conf"], "events": traces[0]["events"][:3]}}, limit=8)


def corrupted_traces() -> int:
    """Selftest (i): corrupt one field of a recorded trace; Trace_C19 must reject it at that event
    with the right clause.  Returns the number of corruptions that were NOT rejected as expected."""
    import copy
    rnd = random.Random(1919)
    base = [record_trace(rnd, i + 1, 30, ext=False) for i in range(8)]

    def first(t, pred):
        for n, e in enumerate(t["events"]):
            if pred(e):
                return n
        return None

    def is_render(e):
        return e["op"] == "render" and len(e["emitted"]) >= 1 and not e["err"]

    def to404(e):
        e["fetch"][0].update(st=404, c=0, k="", i="", v=0, ct="text/html")

    def drop(e):
        e["emitted"].pop(); e["chan"].pop(); e["fetch"].pop(); e["loc"].pop()

    muts = [
        ("emitted-url-answers-404", "emitted_served", is_render, to404),
        ("emitted-url-answers-500", "emitted_served", is_render, lambda e: e["fetch"][0].update(st=500, c=0, k="", i="", v=0)),
        ("served-with-text/plain", "content_type", is_render, lambda e: e["fetch"][0].update(ct="text/plain")),
        ("announced-url-missing", "emitted_set", is_render, drop),
        ("announced-in-the-other-list", "channel", is_render,
         lambda e: e["chan"].__setitem__(0, "toload" if e["chan"][0] == "loaded" else "loaded")),
        ("another-components-code", "emitted_served", is_render, lambda e: e["fetch"][0].update(c=e["fetch"][0]["c"] + 1)),
        ("other-kind-served", "emitted_served", is_render,
         lambda e: e["fetch"][0].update(k="css" if e["fetch"][0]["k"] == "js" else "js")),
        ("render-raised", "render_error", is_render, lambda e: e.update(err=True)),
        ("url-addressed-to-another-configuration", "emitted_location", is_render,
         lambda e: e["loc"].__setitem__(0, "app/tenant" if e["loc"][0] != "app/tenant" else "none/root")),
        ("other-configurations-path-answers-200", "answer",
         lambda e: e["op"] == "get" and e["req"]["at"] != e["under"] and e["req"]["m"] == "GET" and e["req"]["c"] > 0,
         lambda e: e["out"].update(st=200, c=e["req"]["c"], k="js", i="main", v=1, ct="text/javascript")),
        ("post-answers-200", "answer", lambda e: e["op"] == "get" and e["req"]["m"] == "POST",
         lambda e: e["out"].update(st=200, c=max(1, e["req"]["c"]), k="js", i="main", v=1, ct="text/javascript")),
        ("unknown-hash-answers-500", "answer", lambda e: e["op"] == "get" and e["req"]["c"] == 0 and e["req"]["m"] == "GET",
         lambda e: e["out"].update(st=500)),
        ("invalid-kind-answers-200", "answer",
         lambda e: e["op"] == "get" and e["req"]["k"] in ("txt", "JS", "jss", "map") and e["req"]["m"] == "GET" and e["req"]["c"] > 0,
         lambda e: e["out"].update(st=200, c=e["req"]["c"], k="js", i="main", v=1, ct="text/javascript")),
    ]
    traces, expect = [], {}
    for name, clause, pred, mut in muts:
        for t in base:
            n = first(t, pred)
            if n is not None:
                t2 = copy.deepcopy(t)
                mut(t2["events"][n])
                t2["id"] = len(traces) + 1
                traces.append(t2)
                expect[t2["id"]] = (name, clause, n + 1)
                break
        else:
            raise MachineryError(f"no recorded event to corrupt for {name}")
    control = copy.deepcopy(base[0])
    control["id"] = len(traces) + 1
    traces.append(control)
    w = workdir("c19cor")
    f = w / "corrupted.ndjson"
    tlc.write_ndjson(f, traces)
    cfg = w / "trace.cfg"
    cfg.write_text("SPECIFICATION TrSpec\nINVARIANT TrMustServeDetermined\n")
    r = tlc.require_ok(tlc.run("Trace_C19", str(cfg), env={"IN": str(f)}, workers=1), "Trace_C19 corrupted")
    v = tlc.verdicts(r, len(traces), "Trace_C19 corrupted")
    missed = 0
    for tid, (name, clause, ev) in expect.items():
        why = v["rejected"].get(tid)
        ok = why is not None and why["event"] == ev and f'"{clause}"' in why["clauses"]
        print(f"  corrupted trace {name}: {'rejected at event %d by %s' % (ev, why['clauses']) if ok else 'NOT REJECTED AS EXPECTED ' + repr(why)}")
        missed += 0 if ok else 1
    if control["id"] not in v["accepted"]:
        print("  control trace: NOT ACCEPTED")
        missed += 1
    return missed


# ================================================================= entry points
def core(chk: Check, tier: str, procs: int, small: bool = False) -> None:
    if small:       # selftest body: same machinery, reduced sizes, one process
        model_check_and_replay(chk, "quick", 1, only=["H1"], limit=250)
        model_check_and_replay(chk, "quick", 1, only=["H2", "R", "S", "D"], limit=60)
        model_check_and_replay(chk, "quick", 1, only=["U"], limit=120)
        validate_traces(chk, 10, 25, ext=False, tag="core")
        validate_traces(chk, 6, 25, ext=True, tag="ext")
        validate_traces(chk, 4, 25, ext=True, tag="backend", backend="default")
        return
    q = tier == "quick"
    model_check_and_replay(chk, tier, procs)
    validate_traces(chk, 150 if q else 1500, 30 if q else 40, ext=False, tag="core")
    validate_traces(chk, 100 if q else 1000, 30 if q else 40, ext=True, tag="ext")
    # the same histories with COMPONENTS.cache = a configured Django cache alias
    validate_traces(chk, 50 if q else 500, 30 if q else 40, ext=True, tag="backend", backend="default")


def run(tier: str) -> int:
    from . import boot
    boot.setup()
    chk = Check(PID, tier, "model_checking")
    core(chk, tier, procs=4 if tier == "quick" else 6)
    if not chk.cov.get("emitted_urls_fetched") or not chk.cov.get("trace_urls_fetched"):
        raise MachineryError("no emitted URL was ever fetched - the binding is vacuous")
    chk.cov["exhaustive"] = True
    chk.cov["rule"] = ("every history (sequence of renders in document/fragment mode, media-cache clears, and in the "
                       "extension configurations pre-render/finish, class redefinition, changes of the URL "
                       "configuration = script prefix x URLconf) of length <= MaxLen over the "
                       "listed pages is one TLC state, exported and replayed on real Component classes; after every "
                       "prefix all emitted URLs and the whole request table are fetched with django.test.Client and "
                       "compared with ScriptEndpoint!Adm.  Non-trivial = the last action emits at least one URL; "
                       "distinct by hash of (configuration, history).  Random longer histories: Trace_C19.")
    chk.assumptions += [
        "served body is compared modulo leading/trailing whitespace (the library stores script.strip())",
        "the body of a JS/CSS *variables* script is unspecified (feature marked TODO): status and type only",
        "an entry outside the must-serve set may answer 404 or the class's code",
        "non-GET on a path that is 404 for GET: 404 or 405",
        "document pages contain <head>/<body> or the placeholder tags; ASCII class names; LocMemCache default "
        "backend (COMPONENTS.cache unset); evictions during a single render call not modelled",
        "the endpoint lives at <script prefix><mount point of django_components.urls>components/cache/ (docs); a path "
        "addressed to another URL configuration than the active one is 404; a path outside SCRIPT_NAME never reaches "
        "the application (the harness answers 404 for it)",
        "class redefinition is emulated in-process by a second class object with the same __module__ and "
        "__qualname__ (what a module reload, or a redeploy against a persistent cache backend, produces)",
    ]
    return chk.finish()


def replay(path: str) -> int:
    """Re-run one recorded case on the current tree and compare with the stored expectation."""
    from . import boot
    boot.setup()
    d = json.load(open(path))
    case = d["case"]
    if case.get("kind") == "history":
        w = World(case["conf"], mech=case.get("mech", 0))
        w.clear()
        bad: List[Any] = []
        try:
            for s, a in enumerate(case["hist"]):
                obs = perform(w, a, s)
                last = s == len(case["hist"]) - 1
                want = "ok" if a["res"] == "dev" else a["res"]
                if obs["res"] != want:
                    bad.append({"step": s, "expected_res": a["res"], "observed_res": obs["res"], "exc": obs["exc"]})
                    break
                if last and case.get("row"):
                    b, devs = compare_step(w, a, obs, case["row"], probe=True, salt=s)
                    bad += b
                    bad += [{"deviation": x} for x in devs]
                    if a["res"] == "dev":
                        dead = set(map(tuple, case["row"]["dead"]))
                        if any(tuple(e["entry"]) in dead and e["out"]["st"] == 404 for e in obs["emitted"]):
                            bad.append({"deviation": case["row"]["dev"],
                                        "answers": [[e["url"], e["out"]["st"]] for e in obs["emitted"]]})
                        else:
                            bad = [x for x in bad if x.get("what") != "emitted_served"]
        finally:
            w.close()
        print(json.dumps(bad, indent=1, default=repr))
        return 1 if bad else 0
    if case.get("kind") == "trace":
        print("trace case: the events are listed in the file; re-run `./check C19` with the same VERIF_SEED "
              "to re-record and re-validate it")
        return 2
    return 2


def selftest(tier: str) -> int:
    """In-process mutation probes (never touch /repo): each is a realistic bug of the caching /
    URL / endpoint code that the repository's unit tests would not notice."""
    from contextlib import ExitStack, contextmanager
    from . import boot
    from .core import run_probes
    boot.setup()
    import django_components.component as dcomp
    import django_components.dependencies as dep
    from django.http import HttpResponse

    @contextmanager
    def patch(obj, name, new):
        old = getattr(obj, name)
        setattr(obj, name, new)
        try:
            yield
        finally:
            setattr(obj, name, old)

    @contextmanager
    def patch_view(make):
        orig = dep.cached_script_view
        new = make(orig)
        olds = [p.callback for p in dep.urlpatterns]
        for p in dep.urlpatterns:
            p.callback = new
        try:
            yield
        finally:
            for p, o in zip(dep.urlpatterns, olds):
                p.callback = o

    def shortcut_survives_clear():
        seen = set()

        def is_in(comp_cls, script_type, input_hash):
            k = (comp_cls._class_hash, script_type, input_hash)
            if k in seen:
                return True
            seen.add(k)
            return False
        return patch(dep, "_is_script_in_cache", is_in)

    def css_needs_js():
        orig = dep.cache_component_css

        def f(comp_cls):
            if not comp_cls.js:
                return None
            return orig(comp_cls)

        @contextmanager
        def both():
            with ExitStack() as st:
                st.enter_context(patch(dep, "cache_component_css", f))
                st.enter_context(patch(dcomp, "cache_component_css", f))
                yield
        return both()

    def wrong_content_type():
        return patch(dep, "_CONTENT_TYPES", {"js": "text/javascript", "css": "text/plain"})

    def url_trailing_slash():
        orig = dep.get_script_url
        return patch(dep, "get_script_url", lambda *a, **k: orig(*a, **k) + "/")

    def url_memoised_per_script():
        # "the URL is determined by hash, kind and input hash": reverse() once per script
        orig = dep.get_script_url
        memo: Dict[Any, str] = {}

        def f(script_type, comp_cls, input_hash):
            k = (comp_cls._class_hash, script_type, input_hash)
            if k not in memo:
                memo[k] = orig(script_type, comp_cls, input_hash)
            return memo[k]
        return patch(dep, "get_script_url", f)

    def url_ignores_script_prefix():
        from django.urls import get_script_prefix
        orig = dep.get_script_url

        def f(*a, **k):
            u = orig(*a, **k)
            sp = get_script_prefix()
            return "/" + u[len(sp):] if u.startswith(sp) else u
        return patch(dep, "get_script_url", f)

    def url_reversed_against_root_urlconf():
        from django.conf import settings
        from django.urls import reverse

        def f(script_type, comp_cls, input_hash):
            kw = {"comp_cls_hash": comp_cls._class_hash, "script_type": script_type}
            if input_hash is not None:
                kw["input_hash"] = input_hash
            return reverse(dep.CACHE_ENDPOINT_NAME, urlconf=settings.ROOT_URLCONF, kwargs=kw)
        return patch(dep, "get_script_url", f)

    def key_without_kind():
        return patch(dep, "_gen_cache_key", lambda h, t, i: f"__components:{h}" + (f":{i}" if i else ""))

    def key_without_full_hash():
        return patch(dep, "_gen_cache_key", lambda h, t, i: f"__components:{h[:3]}:{t}" + (f":{i}" if i else ""))

    def view_ignores_method():
        def make(orig):
            def v(req, *a, **k):
                req.method = "GET"
                return orig(req, *a, **k)
            return v
        return patch_view(make)

    def head_allowed():
        def make(orig):
            def v(req, *a, **k):
                if req.method == "HEAD":
                    req.method = "GET"
                return orig(req, *a, **k)
            return v
        return patch_view(make)

    def unknown_hash_raises():
        def make(orig):
            def v(req, comp_cls_hash, script_type, input_hash=None):
                dep.comp_hash_mapping[comp_cls_hash]
                return orig(req, comp_cls_hash, script_type, input_hash)
            return v
        return patch_view(make)

    def invalid_kind_raises():
        def make(orig):
            def v(req, comp_cls_hash, script_type, input_hash=None):
                dep._get_content_types(script_type)
                return orig(req, comp_cls_hash, script_type, input_hash)
            return v
        return patch_view(make)

    def css_falls_back_to_js():
        def make(orig):
            def v(req, comp_cls_hash, script_type, input_hash=None):
                r = orig(req, comp_cls_hash, script_type, input_hash)
                if r.status_code == 404 and script_type == "css" and req.method == "GET":
                    r2 = orig(req, comp_cls_hash, "js", input_hash)
                    if r2.status_code == 200:
                        return HttpResponse(r2.content, content_type="text/css")
                return r
            return v
        return patch_view(make)

    def input_hash_ignored():
        def make(orig):
            def v(req, comp_cls_hash, script_type, input_hash=None):
                return orig(req, comp_cls_hash, script_type, None)
            return v
        return patch_view(make)

    def first_class_only_cached():
        # "one script per page": only the first class rendered after a clear gets cached
        orig = dep._cache_script

        def f(comp_cls, script, script_type, input_hash):
            cache = dep.get_component_media_cache()
            others = [k for k in getattr(cache, "_cache", {}) if comp_cls._class_hash not in k]
            if others:
                return None
            return orig(comp_cls, script, script_type, input_hash)
        return patch(dep, "_cache_script", f)

    def body(chk):
        global _KEEP_EXPORTS
        _KEEP_EXPORTS = True
        core(chk, "quick", 1, small=True)

    missed = corrupted_traces()
    rc = run_probes(PID, [
        ("already-cached-shortcut-survives-clear", shortcut_survives_clear),
        ("css-cached-only-when-class-has-js", css_needs_js),
        ("css-served-as-text/plain", wrong_content_type),
        ("emitted-url-has-trailing-slash", url_trailing_slash),
        ("script-url-memoised-per-(hash,kind,input)", url_memoised_per_script),
        ("script-url-ignores-script-prefix", url_ignores_script_prefix),
        ("script-url-reversed-against-settings.ROOT_URLCONF", url_reversed_against_root_urlconf),
        ("cache-key-without-kind", key_without_kind),
        ("cache-key-with-truncated-class-hash", key_without_full_hash),
        ("view-ignores-method", view_ignores_method),
        ("view-allows-HEAD", head_allowed),
        ("unknown-hash-raises-KeyError", unknown_hash_raises),
        ("invalid-kind-raises-ValueError", invalid_kind_raises),
        ("css-url-falls-back-to-js", css_falls_back_to_js),
        ("view-ignores-input-hash", input_hash_ignored),
        ("only-first-class-after-clear-is-cached", first_class_only_cached),
    ], body)
    return 1 if (rc or missed) else 0
