"""C16 - component assets = own class plus the bases selected by Media.extend.

Oracle: specs/MediaInherit.tla (layer A, written from the property text and the docs):
Files(c, t) = own declared files + transitively those of the bases selected by the class's
own Media.extend (no own Media: the default, all bases); each file once per type (js, css/all,
css/print); order = a linear extension of every contributing declared list whenever those
lists are acyclic; template/js/css (and the _file forms) by the pair rule along the C3 MRO
(transcribed, cross-checked against Python's __mro__); both members of a pair in one class ->
rejected; a memo machine with Access actions and the invariants OrderIndependent / MemoSound /
MemoClosed, model-checked by TLC (MC_C16) over every hierarchy of a catalogue and every order.

spec -> code: TLC (MC_C16) builds every hierarchy of <= 3 (4) classes from catalogues of own
              Media contents / extend forms / asset kinds / relative files / plain mixins and exports
              each one with what MediaInherit expects; the harness builds the classes with type()
              in a fresh module per run (the library's memo table is process-global, so every run
              starts cold), drives permutations of the first accesses (classes and instances;
              media before / after / between template, js, css) and compares every access.
code -> spec: seeded random deeper hierarchies (<= 6 classes, <= 3 bases, longer lists,
              relative files, str/list/tuple/dict/bytes/Path/callable forms, template_name) with
              random access histories are recorded and validated by TLC (Trace_C16) against the
              same MediaInherit operators.  Runs of the first direction that contradict the
              exported expectation are judged by Trace_C16 as well (two forms of one oracle; a
              disagreement between them is a machinery error).

Known deviations of the code are NAMED in specs/MediaInheritImpl.tla (layer B: a transcription
of _get_comp_cls_media / _resolve_media incl. Django's Media.merge, switchable per deviation).
A run that MediaInherit rejects is a known finding only if TLC shows that a set of named
deviations predicts every media observation of that run exactly; the finding keys are the names
of those deviations (shape of the case : outcome the deviation predicts).  With the proposed
repairs applied the deviations predict nothing that differs, so no key is produced (checked in
--selftest).  Anything else is a VIOLATION.

Blank definitions: `js = ""`, `css = "\\n"`, an empty / whitespace-only `js_file` ... are DEFINED values
(MediaInherit!Content): the nearest class that sets either member of the pair wins also when its text is
blank, `x = ""` beside `x_file` is rejected, and a rendered document (access "render": template with the
dependency placeholders) carries the script / style of the nearest definition only when that text is not
blank - never the one of a class further up the MRO.  Whitespace-only texts encode the defining class in
their length, so the source of a blank value is compared too; the empty string has no identity and is
compared as a value.  Families "blank" / "blank4" enumerate blank definitions at every level of 3- and
4-class hierarchies (single, multiple, diamond), accessed on classes and instances, before and after a render.

Fault, then retry (code -> spec, validated by Trace_C16 with MediaInherit!MustRaise / MayRaise): seeded histories on 2-4
classes in which some `js_file` / `css_file` do not exist at the first accesses and appear later (files only appear,
in stages; accesses of js / css / template / media on base classes, subclasses and instances in between and at the end
with everything present).  What an access answers is determined by the hierarchy and the files as they are at that
moment, never by earlier failed accesses: `C.<p>` whose nearest definition is a missing file raises every time; any
access of a class with a missing file in its MRO may raise or answer with the regular value (the property does not say
whether the files of a class are loaded together); everything else answers with the regular value.  Left out: missing
template files (Django's cached template loader remembers a miss - not the library's state), files that disappear
after they were loaded, renders and the shapes of the named deviations in such histories.

Not determined by the property, therefore not asserted: what rendering does when no class defines a template
(it raises), where tags go in a blank document (only: nothing foreign in it); the relative order of files that no
declared list relates, the order when the declared lists are cyclic (Django warns; compared
as sets), which classes end up memoised.  Hierarchies Python itself rejects (no C3 order) are
only used to cross-check the MRO transcription (a disagreement there is a machinery error).
SafeString entries and custom media_class are not generated; plain (non-Component) mixins carry
only a nested Media in canonical form, no assets and no component-relative files.
"""
from __future__ import annotations

import itertools
import json
import random
import re
import sys
import time
import types
import warnings
from pathlib import Path
from typing import Any, Dict, List, Optional, Tuple

from . import tlc
from .core import Check, MachineryError, canon, workdir

PID = "C16"
TYPES = ("js", "all", "print")
PAIRS = ("template", "js", "css")
EXT = {"js": "js", "all": "css", "print": "css", "css": "css", "template": "html"}
REL_OFFSET = 10
UNKNOWN = 99
OBJ = 100            # `object` in an MRO

# finding keys: named deviation (shape of the case) : outcome the deviation predicts
KEYS = {
    "inherit": "no-own-media-under-restricted-extend:uses-inherited-media-and-drops-other-bases",
    "flatten": "consistent-lists-pairwise-flattened-merge:declared-order-contradicted",
    "lazy": "media-read-before-template-js-css:relative-paths-not-converted",
}

DEV_CODES = {"I": "inherit", "F": "flatten", "L": "lazy"}

_world: Optional["World"] = None


# ---------------------------------------------------------------- the real side
class World:
    """File system and naming shared by all runs of one process.
    <root>/            = COMPONENTS.dirs[0]; holds the files of js_file / css_file / template_file
    <root>/sub/m.py    = (virtual) module file of every generated class
    <root>/sub/r<i>.*  = the component-relative Media files (ids listed in the case's `rel`)"""

    def __init__(self) -> None:
        self.root = workdir("c16fs")
        (self.root / "sub").mkdir()
        for i in range(1, 9):
            for ext in ("js", "css"):
                (self.root / "sub" / f"r{i}.{ext}").write_text(f"/* r{i} */")
        for c in range(1, 9):
            for p in PAIRS:
                for text in ("text", "empty", "ws"):
                    (self.root / self.attr_file(c, p, text)).write_text(self.content(c, p, "file", text))
        self.counter = 0

    @staticmethod
    def attr_file(c: int, p: str, text: str = "text") -> str:
        return f"a{c}_{p}{'' if text == 'text' else '_' + text}.{EXT[p]}"

    @staticmethod
    def content(c: int, p: str, kind: str, text: str = "text") -> str:
        """The text class c writes for p (inline or in its file).  Ordinary text names pair, member and class
        (a template also holds the dependency placeholders, so that a rendered document shows script and
        style); a whitespace-only text encodes the class in its length and the member in its last character."""
        if text == "empty":
            return ""
        if text == "ws":
            return " " * c + ("\n" if kind == "inline" else "\t")
        mark = f"{p}:{kind}:c{c}"
        return mark if p != "template" else \
            "{% component_css_dependencies %}<div>" + mark + "</div>{% component_js_dependencies %}"

    @staticmethod
    def decode_value(p: str, v: Any) -> Tuple[int, str, str]:
        """(src, member, val) of a value of `C.<p>`."""
        if v is None:
            return 0, "none", "none"
        if not isinstance(v, str):
            return UNKNOWN, "unknown", "unknown"
        if v == "":
            return 0, "none", "empty"                      # no class identity in an empty string
        m = re.fullmatch(r"( +)([\n\t])", v)
        if m:
            return len(m.group(1)), "inline" if m.group(2) == "\n" else "file", "ws"
        pat = rf"{p}:(inline|file):c(\d+)"
        if p == "template":
            pat = r"\{% component_css_dependencies %\}<div>" + pat + r"</div>\{% component_js_dependencies %\}"
        m = re.fullmatch(pat, v)
        return (int(m.group(2)), m.group(1), "text") if m else (UNKNOWN, "unknown", "unknown")

    @staticmethod
    def shipped(p: str, html: str) -> List[int]:
        """MediaInherit!RCode of every text of pair p found in a rendered document."""
        return sorted({int(c) * 10 + (1 if k == "inline" else 2)
                       for k, c in re.findall(rf"{p}:(inline|file):c(\d+)", html)})

    @staticmethod
    def fname(f: int, t: str, rel) -> str:
        return (f"r{f}" if f in rel else f"f{f}") + "." + EXT[t]

    @staticmethod
    def decode(name: Any, t: str) -> int:
        if not isinstance(name, str):
            return UNKNOWN
        m = re.fullmatch(r"(sub/r|r|f)(\d+)\.(\w+)", name)
        if not m or m.group(3) != EXT[t]:
            return UNKNOWN
        return int(m.group(2)) + (REL_OFFSET if m.group(1) == "sub/r" else 0)


def world() -> World:
    global _world
    if _world is None:
        _world = World()
        from . import boot
        boot.setup(dirs=[str(_world.root)])
        from django.conf import settings
        if [str(d) for d in settings.COMPONENTS.get("dirs", [])] != [str(_world.root)]:
            raise MachineryError("Django was configured before C16 could set COMPONENTS.dirs")
    return _world


def _elem(name: str, rnd: random.Random):
    x = rnd.random()
    if x < 0.82:
        return name
    if x < 0.88:
        return name.encode()
    if x < 0.94:
        return Path(name)
    return lambda name=name: name


def _media_class(rec, rel, classes, rnd: random.Random, canonical: bool = False):
    """The nested Media of a class record, in a randomly chosen accepted surface form.
    canonical: the class is not a Component, nobody normalises its Media (js list, css dict of lists)."""
    d: Dict[str, Any] = {}
    if canonical:
        d["js"] = [World.fname(f, "js", rel) for f in rec["lists"]["js"]]
        d["css"] = {m: [World.fname(f, m, rel) for f in rec["lists"][m]] for m in ("all", "print") if rec["lists"][m]}
        if rec["ext"] == "false":
            d["extend"] = False
        elif rec["ext"] == "list":
            d["extend"] = [classes[j] for j in rec["extl"]]
        return type("Media", (), d)
    js = [_elem(World.fname(f, "js", rel), rnd) for f in rec["lists"]["js"]]
    if js:
        if len(js) == 1 and rnd.random() < 0.4:
            d["js"] = js[0]
        else:
            d["js"] = tuple(js) if rnd.random() < 0.2 else js
    elif rnd.random() < 0.3:
        d["js"] = []
    al = [_elem(World.fname(f, "all", rel), rnd) for f in rec["lists"]["all"]]
    pr = [_elem(World.fname(f, "print", rel), rnd) for f in rec["lists"]["print"]]

    def one(lst):
        return lst[0] if len(lst) == 1 and rnd.random() < 0.4 else lst
    if pr:
        css: Any = {"print": one(pr)}
        if al or rnd.random() < 0.3:
            css = {"all": one(al) if al else [], "print": one(pr)}
        d["css"] = css
    elif al:
        x = rnd.random()
        d["css"] = {"all": one(al)} if x < 0.4 else (al[0] if len(al) == 1 and x < 0.6 else al)
    elif rnd.random() < 0.3:
        d["css"] = {}
    if rec["ext"] == "false":
        d["extend"] = False
    elif rec["ext"] == "list":
        d["extend"] = [classes[j] for j in rec["extl"]]
        if rnd.random() < 0.2:
            d["extend"] = tuple(d["extend"])
    elif rnd.random() < 0.3:
        d["extend"] = True
    return type("Media", (), d)


def run_real(cls_recs, rel, accesses, forms: int, keep_memo: bool = False,
             missing: Optional[List[List[Any]]] = None) -> List[Dict[str, Any]]:
    """Build the hierarchy with type() in a fresh module and perform the accesses.
    `accesses` is a list of [c, attr, via]; accesses to classes that could not be created are
    dropped.  Returns the events (creation outcomes, then one observation per access).
    Every run uses the class names K1..Kn in a module of its own; with keep_memo the classes stay
    in the library's memo table afterwards (same-named classes of earlier runs must not matter).
    `missing` (fault-then-retry runs): the [c, p] whose `<p>_file` (js / css) does not exist when the run starts;
    the js / css files of such a run live in a directory of their own (other processes share the world's files),
    an entry [c, "mkfile", p] among the accesses creates the file of class c; every access event records the
    files missing at that moment (`miss`)."""
    from django.core.exceptions import ImproperlyConfigured
    from django_components import Component
    w = world()
    w.counter += 1
    # every third run re-uses ONE module name, so distinct classes with the same module + qualname exist
    # over time (a class factory / module reload): results must still be per class object
    # (not for runs that render: the script cache and the class table of the dependency manager are keyed by
    # module + name, which is C19's subject)
    shared = w.counter % 3 == 0 and not any(a == "render" for _, a, _ in accesses)
    modname = "vf_c16_case_shared" if shared else f"vf_c16_case_{w.counter}"
    mod = types.ModuleType(modname)
    mod.__file__ = str(w.root / "sub" / "m.py")
    sys.modules[modname] = mod
    rnd = random.Random(forms)
    rel = set(rel)
    classes: Dict[int, Any] = {0: Component}
    events: List[Dict[str, Any]] = []
    fdir = ""
    miss: List[List[Any]] = sorted([int(c), str(p)] for c, p in (missing or []))
    if missing is not None:
        import os
        fdir = f"flt/{os.getpid()}_{w.counter}/"
        (w.root / fdir).mkdir(parents=True)
    try:
        with warnings.catch_warnings():
            warnings.simplefilter("ignore")
            for i, rec in enumerate(cls_recs, start=1):
                attrs: Dict[str, Any] = {"__module__": modname}
                plain = rec.get("plain", False)
                bases = tuple(classes[b] for b in rec["bases"])
                if plain:
                    bases = bases or (object,)
                elif not any(not cls_recs[b - 1].get("plain", False) for b in rec["bases"]):
                    bases = bases + (Component,)
                try:
                    if rec["media"] == "null":
                        attrs["Media"] = None
                    elif rec["media"] == "def":
                        attrs["Media"] = _media_class(rec, rel, classes, rnd, canonical=plain)
                    for p in PAIRS:
                        k = "none" if plain else rec["attr"][p]
                        member, _, text = k.partition("-")          # e.g. "inline-empty", "file-ws", "both-empty"
                        text = text or "text"
                        if member in ("inline", "both"):
                            attrs[p] = World.content(i, p, "inline", text)
                        if member in ("file", "both"):
                            # `template_name` is the documented older spelling of `template_file`
                            name = "template_name" if p == "template" and rnd.random() < 0.25 else p + "_file"
                            fname = World.attr_file(i, p, "text" if member == "both" else text)
                            if fdir and p != "template":
                                fname = fdir + fname
                                if [i, p] not in miss:
                                    (w.root / fname).write_text(World.content(i, p, "file", text))
                            attrs[name] = fname
                    classes[i] = type(f"K{i}", bases, attrs)
                    out = "ok"
                except ImproperlyConfigured:
                    out = "improperly"
                except TypeError as e:
                    out = "typeerror" if "MRO" in str(e) or "order" in str(e) else "other:TypeError"
                except Exception as e:  # noqa
                    out = "other:" + type(e).__name__
                # the MRO Python computed, as class indices (cross-check of the C3 transcription)
                index = {v: k for k, v in classes.items()}
                index[object] = OBJ
                mro = [index[k] for k in classes[i].__mro__ if k in index] if out == "ok" else []
                events.append({"op": "create", "c": i, "out": out, "mro": mro})
                if out != "ok":
                    break
            for c, a, via in accesses:
                if a == "mkfile":
                    if [c, via] in miss:
                        rec = cls_recs[c - 1]
                        (w.root / (fdir + World.attr_file(c, via, rec["attr"][via].partition("-")[2] or "text"))
                         ).write_text(World.content(c, via, "file", rec["attr"][via].partition("-")[2] or "text"))
                        miss.remove([c, via])
                    continue
                if c not in classes or (c and cls_recs[c - 1].get("plain", False)):
                    continue
                ev = {"op": "access", "c": c, "a": a, "via": via, "exc": False, "js": [], "all": [],
                      "print": [], "other": 0, "src": 0, "kind": "none", "val": "none", "file": 0,
                      "rtpl": [], "rjs": [], "rcss": [], "miss": [{"c": mc, "p": mp} for mc, mp in miss]}
                try:
                    target = classes[c] if via == "cls" else classes[c]()
                    if a == "media":
                        m = target.media
                        ev["js"] = [World.decode(x, "js") for x in m._js]
                        css = m._css
                        for medium, lst in css.items():
                            if medium in ("all", "print"):
                                ev[medium] = [World.decode(x, medium) for x in lst]
                            elif lst:
                                ev["other"] += 1
                    elif a == "render":
                        html = target.render()
                        ev["rtpl"], ev["rjs"], ev["rcss"] = (World.shipped(p, html) for p in PAIRS)
                    else:
                        v = getattr(target, a)
                        fv = getattr(target, a + "_file")
                        if a == "template" and target.template_name != fv:
                            fv = ("template_name differs", fv, target.template_name)
                        ev["src"], ev["kind"], ev["val"] = World.decode_value(a, v)
                        if fv is not None:
                            m_ = re.fullmatch(rf"(?:flt/\w+/)?a(\d+)_{a}(?:_empty|_ws)?\.{EXT[a]}", fv) if isinstance(fv, str) else None
                            ev["file"] = int(m_.group(1)) if m_ else UNKNOWN
                except Exception as e:  # the specification never raises on an access
                    ev["exc"] = True
                    ev["err"] = f"{type(e).__name__}: {e}"[:200]
                events.append(ev)
    finally:
        sys.modules.pop(modname, None)
        if fdir:
            import shutil
            shutil.rmtree(w.root / fdir, ignore_errors=True)
        if not keep_memo:
            try:  # hygiene only: do not let 10^5 dead classes pile up in the process-global memo
                import django_components.component_media as cm
                for k, cls in classes.items():
                    if k:
                        cm.media_cache.pop(cls, None)
            except Exception:
                pass
    return events


# ---------------------------------------------------------------- comparing with the export
ROOT_EXP = {"create": ["ok"], "files": {t: [] for t in TYPES}, "cons": {t: True for t in TYPES},
            "prec": {t: [] for t in TYPES}, "mro": [0, OBJ],
            "attr": {p: {"src": 0, "kind": "none", "val": "none"} for p in PAIRS},
            "render": {"determined": False, "document": False, "template": [], "js": [], "css": []}}


def failing(ev, exp) -> List[str]:
    """Clauses of the exported expectation `exp` (for the class of the event) that `ev` violates."""
    if ev["op"] == "create":
        if "typeerror" in (ev["out"], *exp["create"]) and [ev["out"]] != exp["create"] or \
                (ev["out"] == "ok" and ev["mro"] != exp["mro"]):
            raise MachineryError(f"C3 transcription and Python disagree: {ev} vs {exp['create']} {exp['mro']}")
        return [] if ev["out"] in exp["create"] else [f"creation:{ev['out']}/{'|'.join(exp['create'])}"]
    if ev["a"] == "render":
        want = exp["render"]
        if not want["determined"]:
            return []
        if ev["exc"]:
            return ["exception:render"]
        got = {"template": ev["rtpl"], "js": ev["rjs"], "css": ev["rcss"]}
        if want["document"]:
            return ["render:" + p for p in PAIRS if sorted(got[p]) != sorted(want[p])]
        return ["render:" + p for p in PAIRS if (got[p] if p == "template" else set(got[p]) - set(want[p]))]
    if ev["exc"]:
        return ["exception:" + ev["a"]]
    bad = []
    if ev["a"] == "media":
        for t in TYPES:
            obs = ev[t]
            if set(obs) != set(exp["files"][t]):
                bad.append("files:" + t)
            elif len(set(obs)) != len(obs):
                bad.append("once:" + t)
            elif any(obs.index(u) > obs.index(v) for u, v in exp["prec"][t]):
                bad.append("order:" + t)
        if ev["other"]:
            bad.append("media-type:css")
    else:
        want = exp["attr"][ev["a"]]
        if ev["val"] != want["val"] or \
                (want["val"] != "empty" and (ev["src"], ev["kind"]) != (want["src"], want["kind"])):
            bad.append("nearest:" + ev["a"])
        if ev["file"] != (want["src"] if want["kind"] == "file" else 0):
            bad.append("file-form:" + ev["a"])
    return bad


# ---------------------------------------------------------------- TLC plumbing
def _cfg(path: Path, spec: str, *, maxn=3, maxbases=2, maxacc=0, lists="ListsQuick", attrs="AttrsNone",
         kinds="KindsBasic", exts="ExtsAll", rel="NoRel", impld="NoDevs", accattrs="AccAll", accvias="ViasBoth",
         trim=False, plains=False, extra="") -> None:
    path.write_text(
        f"SPECIFICATION {spec}\nCONSTANTS\n  MaxN = {maxn}\n  MaxBases = {maxbases}\n  MaxAcc = {maxacc}\n"
        f"  Lists <- {lists}\n  Attrs <- {attrs}\n  Kinds <- {kinds}\n  Exts <- {exts}\n"
        f"  RelFiles <- {rel}\n  ImplD <- {impld}\n  AccAttrs <- {accattrs}\n  AccVias <- {accvias}\n"
        f"  Trim = {'TRUE' if trim else 'FALSE'}\n  Plains = {'TRUE' if plains else 'FALSE'}\n{extra}")


TLC_PAR = 4          # concurrent single-worker TLC processes for trace batches


def _tlc_validate_chunk(args) -> Tuple[Dict[int, Dict[str, Any]], int]:
    traces, w, tag = args
    f = w / f"{tag}.ndjson"
    tlc.write_ndjson(f, traces)
    cfg = w / f"{tag}.cfg"
    cfg.write_text("SPECIFICATION TrSpec\nINVARIANT OrderIndependent\nINVARIANT MemoSound\nINVARIANT MemoClosed\n")
    r = tlc.run("Trace_C16", str(cfg), env={"IN": str(f)}, workers=1)
    if r.violated:
        raise MachineryError(f"Trace_C16: specification invariant violated {r.violated}\n" +
                             "\n".join(r.out.splitlines()[-30:]))
    tlc.require_ok(r, f"Trace_C16 {tag}")
    v = tlc.verdicts(r, len(traces), f"Trace_C16 {tag}")
    res: Dict[int, Dict[str, Any]] = {}
    for tid in v["accepted"]:
        res[tid] = {"verdict": "accept", "known": []}
    for tid, why in v["rejected"].items():
        res[tid] = {"verdict": "reject", "event": why["event"], "clauses": why["clauses"], "known": []}
    for line in r.out.splitlines():
        m = re.match(r'<<"KNOWN", (\d+), (\d+), "([IFL|]*)", "(.*)">>$', line)
        if m:
            alts = [sorted(DEV_CODES[ch] for ch in alt) for alt in m.group(3).split("|")]
            res[int(m.group(1))]["known"].append({"event": int(m.group(2)), "alternatives": sorted(alts),
                                                  "clauses": m.group(4).strip()})
        elif line.startswith('<<"KNOWN"'):
            raise MachineryError(f"unparsable verdict line: {line}")
    return res, r.distinct


def tlc_validate(traces: List[Dict[str, Any]], tag: str, chunk: int = 500) -> Dict[Any, Any]:
    """Batch-validate recorded runs with Trace_C16 (several single-worker TLC processes side by
    side).  Returns id -> {verdict, event, clauses, known:[...]} plus "_states"."""
    from concurrent.futures import ThreadPoolExecutor
    out: Dict[Any, Any] = {"_states": 0}
    if not traces:
        return out
    w = workdir("c16tr")
    jobs = [(traces[k:k + chunk], w, f"{tag}_{k}") for k in range(0, len(traces), chunk)]
    with ThreadPoolExecutor(max_workers=TLC_PAR) as ex:
        for res, states in ex.map(_tlc_validate_chunk, jobs):
            out.update(res)
            out["_states"] += states
    return out


def as_traces(pending: List[Dict[str, Any]]) -> List[Dict[str, Any]]:
    return [{"id": i + 1, "cls": p["cls"], "rel": p["rel"], "events": p["events"]} for i, p in enumerate(pending)]


def apply_verdicts(chk: Check, pending: List[Dict[str, Any]], res: Dict[Any, Any], py_flagged: bool) -> None:
    """`pending`: runs (case + events) judged by TLC (`res` = tlc_validate(as_traces(pending))).
    REJECT -> violation; KNOWN -> violation carrying the finding key of each named deviation;
    ACCEPT -> conforming.  With py_flagged the harness already found the run to contradict the
    exported expectation, so a plain ACCEPT means the two forms of the oracle disagree: machinery."""
    if not pending:
        return
    chk.add("trace_states", res.get("_states", 0))
    for i, p in enumerate(pending):
        r = res[i + 1]
        case = {"kind": "run", "cls": p["cls"], "rel": p["rel"], "accesses": p["accesses"], "forms": p["forms"]}
        if p.get("missing") is not None:
            case["missing"] = p["missing"]
        if r["verdict"] == "reject":
            ev = p["events"][r["event"] - 1]
            if ("C." in r["clauses"] and "typeerror" in r["clauses"]) or "M.mro" in r["clauses"]:
                raise MachineryError(f"C3 transcription and Python disagree: {r['clauses']} on {canon(p['cls'])}")
            chk.violation(case, {"event_index": r["event"], "event": ev, "failing_clauses": r["clauses"],
                                 "py_clauses": p.get("py_clauses")})
            continue
        for k in r["known"]:
            # explained by named deviations; among the minimal explanations prefer one whose
            # deviations are all still listed as open findings
            ev = p["events"][k["event"] - 1]
            alts = k["alternatives"]
            devs = next((a for a in alts if all(chk.known.lookup(PID, KEYS[d]) for d in a)), alts[0])
            for d in devs:
                chk.violation(case, {"event_index": k["event"], "event": ev, "failing_clauses": k["clauses"],
                                     "explained_by_deviations": devs, "all_minimal_explanations": alts},
                              key=KEYS[d])
        if py_flagged and not r["known"]:
            raise MachineryError(f"exported expectation and Trace_C16 disagree on {canon(case)}: {p.get('py_clauses')}")


# ---------------------------------------------------------------- spec -> code
FAMILIES = {
    # name: per tier (cfg constants, number of hierarchies replayed (None: all), first-access orders per hierarchy)
    # three classes: single and multiple inheritance, every extend form, 4 (5) Media contents
    "media": {"quick": (dict(maxn=3, lists="ListsQuick", kinds="KindsBasic", trim=True), None, 2),
              "thorough": (dict(maxn=3, lists="ListsThorough", kinds="KindsAll"), None, 6)},
    # the pair rule and the rejection of both members
    "attr": {"quick": (dict(maxn=3, lists="ListsNone", kinds="KindsNone", attrs="AttrsAll"), None, 2),
             "thorough": (dict(maxn=3, lists="ListsNone", kinds="KindsNone", attrs="AttrsAll"), None, 6)},
    # blank definitions ("" / whitespace only / empty file) at every level, read on classes and instances,
    # before and after rendering
    "blank": {"quick": (dict(maxn=3, lists="ListsNone", kinds="KindsNone", attrs="AttrsBlank"), None, 2),
              "thorough": (dict(maxn=3, lists="ListsNone", kinds="KindsNone", attrs="AttrsBlank"), None, 6)},
    "blank4": {"quick": (dict(maxn=4, lists="ListsNone", kinds="KindsNone", attrs="AttrsBlankFew"), 1000, 2),
               "thorough": (dict(maxn=4, lists="ListsNone", kinds="KindsNone", attrs="AttrsBlankFew"), 4000, 4)},
    # four classes (diamonds): pair rule along the C3 MRO / Media through two paths
    "attr4": {"quick": (dict(maxn=4, lists="ListsNone", kinds="KindsNone", attrs="AttrsFew"), 1500, 2),
              "thorough": (dict(maxn=4, lists="ListsNone", kinds="KindsNone", attrs="AttrsFew"), None, 8)},
    "media4": {"quick": (dict(maxn=4, lists="ListsPos", kinds="KindsBasic", exts="ExtsTF"), 1500, 2),
               "thorough": (dict(maxn=4, lists="ListsPos", kinds="KindsBasic", exts="ExtsTF"), None, 8)},
    # plain (non-Component) mixins with a nested Media as bases and in extend lists
    "mixin": {"quick": (dict(maxn=3, lists="ListsPos", kinds="KindsBasic", plains=True, trim=True), 3000, 2),
              "thorough": (dict(maxn=3, lists="ListsPos", kinds="KindsBasic", plains=True), None, 6)},
    # component-relative files, media read before / after template, js, css (every second run
    # contradicts the specification here and has to be explained by TLC, hence the caps)
    "rel": {"quick": (dict(maxn=2, lists="ListsRel", kinds="KindsBasic", attrs="AttrsFew", rel="Rel1"), 1000, 2),
            "thorough": (dict(maxn=3, lists="ListsRel", kinds="KindsBasic", attrs="AttrsFew", rel="Rel1",
                              exts="ExtsTF"), 2500, 2)},
}
ORDER = ("attr", "blank", "rel", "attr4", "blank4", "media4", "mixin", "media")     # cheap exports first
_export_cache: Dict[Any, Any] = {}


def plans(fam: str, usable: List[int], idx: int, nperms: int) -> List[List[List[Any]]]:
    """Access histories driven on one exported hierarchy whose `usable` classes were created and are
    Components: `nperms` permutations of them as first-access order (all of them if there are not
    more; else a selection rotating with the index of the hierarchy, so that every order occurs on
    every shape)."""
    perms = list(itertools.permutations(usable or [0]))
    L = len(perms)
    if L > nperms:
        if nperms == 2:
            first = (2 * idx) % L
            perms = [perms[first], perms[(first + 1 + (idx // L) % (L - 1)) % L]]
        else:
            rnd = random.Random(idx)
            perms = [perms[0], perms[-1]] + rnd.sample(perms[1:-1], nperms - 2)
    out = []
    for n, perm in enumerate(perms):
        v = ["cls", "inst"] if (idx + n) % 2 == 0 else ["inst", "cls"]
        if fam.startswith("media"):
            acc = [[c, "media", v[i % 2]] for i, c in enumerate(perm)]
            acc += [[c, "media", v[(c + 1) % 2]] for c in sorted(perm)]
            out.append(acc)
        elif fam.startswith("attr"):
            ps = PAIRS[n % 3:] + PAIRS[:n % 3]
            out.append([[c, p, v[(i + j) % 2]] for i, c in enumerate(perm) for j, p in enumerate(ps)])
        elif fam.startswith("blank"):
            ps = PAIRS[n % 3:] + PAIRS[:n % 3]
            att = [[c, p, v[(i + j) % 2]] for i, c in enumerate(perm) for j, p in enumerate(ps)]
            ren = [[c, "render", v[(i + 1) % 2]] for i, c in enumerate(perm)]
            out.append(ren + att if (idx + n) % 3 == 0 else att + ren)
        else:
            med = [[c, "media", v[i % 2]] for i, c in enumerate(perm)]
            att = [[c, p, v[i % 2]] for i, c in enumerate(perm) for p in ("js", "template")]
            out.append(med + att + med)
            out.append(att + med)
            out.append([x for c in perm for x in ([c, "js", v[0]], [c, "media", v[1]])] + med)
    return out


REPLAY_PROCS = 4


def _replay_chunk(args):
    """Worker: replay exported hierarchies under their access plans; returns counts and the runs
    that contradict the exported expectation (to be judged by TLC in the parent)."""
    fam, nperms, seed, items = args
    pending, counted, samples = [], [], []
    for idx, cls, rel, exps, m in items:
        nontrivial = m >= 2 and any(c["media"] == "def" or any(v != "none" for v in c["attr"].values())
                                    for c in cls)
        usable = [c for c in range(1, m + 1) if not cls[c - 1].get("plain", False)]
        for n, acc in enumerate(plans(fam, usable, idx, nperms)):
            forms = seed * 1000003 + idx * 13 + n
            events = run_real(cls, rel, acc, forms)
            bad = []
            for j, ev in enumerate(events):
                b = failing(ev, exps[ev["c"]])
                if b:
                    bad.append([j + 1, b])
            counted.append((idx, n, nontrivial))
            if bad:
                pending.append({"cls": cls, "rel": rel, "accesses": acc, "forms": forms, "events": events,
                                "py_clauses": bad})
            elif idx % 4001 == 0 and n == 0:
                samples.append({"family": fam, "cls": cls, "rel": rel, "accesses": acc,
                                "observed": [e for e in events if e["op"] == "access"][:3]})
    return pending, counted, samples


def export_cases(fam: str, quick: bool):
    """TLC: build and export every hierarchy of the family (runs in a thread)."""
    if (fam, quick) in _export_cache:
        return _export_cache[(fam, quick)]
    w = workdir("c16mc")
    consts = FAMILIES[fam]["quick" if quick else "thorough"][0]
    cfg = w / f"mc_{fam}.cfg"
    out = w / f"cases_{fam}.ndjson"
    _cfg(cfg, "MCSpec", extra="INVARIANT Export\n", **consts)
    r = tlc.require_ok(tlc.run("MC_C16", str(cfg), env={"OUT": str(out)}, workers=1), f"MC_C16 export {fam}")
    rows = tlc.read_ndjson(out)
    if len(rows) != r.distinct - 1:
        raise MachineryError(f"export incomplete: {len(rows)} rows for {r.distinct} states")
    _export_cache[(fam, quick)] = (rows, r.distinct, r.generated, consts["maxn"])
    return _export_cache[(fam, quick)]


def replay_cases(chk: Check, fam: str, quick: bool, exported, pool, small: bool = False):
    """Replay the exported hierarchies on the real library; returns the runs that contradict the
    exported expectation (TLC then cross-checks and classifies them)."""
    rows, distinct, generated, maxn = exported
    _, limit, nperms = FAMILIES[fam]["quick" if quick else "thorough"]
    if small:
        limit = 400
    chk.add("states", distinct)
    chk.add("transitions", generated)
    exp_of = {canon(row["cls"]): row["last"] for row in rows}
    # a hierarchy that can still be extended is replayed as the prefix of its extensions
    todo = [(i, row) for i, row in enumerate(rows)
            if len(row["cls"]) == maxn or row["last"]["create"] != ["ok"]]
    if limit is not None and len(todo) > limit:
        todo = random.Random(chk.seed * 31 + 16).sample(todo, limit)
    items = []
    for idx, row in todo:
        cls = row["cls"]
        exps = {0: ROOT_EXP}
        for k in range(1, len(cls) + 1):
            exps[k] = exp_of[canon(cls[:k])]
        m = len(cls) if row["last"]["create"] == ["ok"] else len(cls) - 1
        items.append((idx, cls, row["rel"], exps, m))
    if pool is not None and len(items) > 500:
        n = REPLAY_PROCS * 4
        results = pool.map(_replay_chunk, [(fam, nperms, chk.seed, items[k::n]) for k in range(n)])
    else:
        results = [_replay_chunk((fam, nperms, chk.seed, items))]
    pending: List[Dict[str, Any]] = []
    runs = 0
    for pend, counted, samples in results:
        pending += pend
        runs += len(counted)
        for idx, n, nontrivial in counted:
            chk.count([fam, idx, n], nontrivial)
        for smp in samples:
            chk.sample(smp, limit=6)
    pending.sort(key=lambda p: canon([p["cls"], p["accesses"]]))
    chk.add("hierarchies_exported", len(rows))
    chk.add("hierarchies_replayed", len(todo))
    chk.add("runs_replayed", runs)
    chk.add("runs_contradicting_spec", len(pending))
    return pending


def model_check_machine(quick: bool) -> Dict[str, Any]:
    """The memo machine of MediaInherit on every hierarchy of a catalogue, every access order:
    OrderIndependent, MemoSound, MemoClosed; layer B without deviations refines layer A
    (ImplRefines); the "inherit" deviation changes file sets only on its named shape; and, as
    design-level counterexamples, layer B WITH each named deviation does not refine layer A.
    Pure TLC work (runs beside the replays); returns the numbers for the evidence."""
    from concurrent.futures import ThreadPoolExecutor
    w = workdir("c16mm")
    inv = ("INVARIANT OrderIndependent\nINVARIANT MemoSound\nINVARIANT MemoClosed\nINVARIANT ImplRefines\n"
           "INVARIANT InheritOnlyOnShape\n")
    jobs = {
        # two classes, every attribute, classes and instances
        "machine2": dict(maxn=2, maxacc=2, lists="ListsQuick", attrs="AttrsNone" if quick else "AttrsFew",
                         extra=inv),
        # three classes (multiple inheritance, extend lists), media only
        "machine3": dict(maxn=3, maxacc=2, lists="ListsTiny" if quick else "ListsQuick", accattrs="AccMedia",
                         accvias="ViasCls", trim=True, extra=inv + "INVARIANT FlattenOnlyOnShape\n"),
        # relative files, media and js in every order: the repaired model conforms
        "machine_rel": dict(maxn=2, maxacc=2 if quick else 3, lists="ListsRel", rel="Rel1", attrs="AttrsFew",
                            exts="ExtsTF", accattrs="AccMediaJs", accvias="ViasCls", extra=inv),
        # blank definitions: attributes and renders in every order
        "machine_blank": dict(maxn=2, maxacc=2, lists="ListsNone", kinds="KindsNone", attrs="AttrsBlank",
                              accattrs="AccRender", accvias="ViasCls", extra=inv),
        "dev_inherit": dict(maxn=3, maxacc=1, lists="ListsTiny", accattrs="AccMedia", accvias="ViasCls",
                            impld="DevInherit", extra="INVARIANT ImplRefines\n"),
        "dev_flatten": dict(maxn=3, maxacc=1, lists="ListsQuick", accattrs="AccMedia", accvias="ViasCls",
                            impld="DevFlatten", extra="INVARIANT ImplRefines\n"),
        "dev_lazy": dict(maxn=1, maxacc=2, lists="ListsRel", rel="Rel1", accattrs="AccMediaJs", accvias="ViasCls",
                         impld="DevLazy", extra="INVARIANT ImplRefines\n"),
    }

    def one(item):
        name, consts = item
        cfg = w / f"{name}.cfg"
        _cfg(cfg, "MCSpec", **consts)
        return name, tlc.run("MC_C16", str(cfg), workers=2 if quick else 4)
    out: Dict[str, Any] = {"states": 0, "transitions": 0, "design_level_counterexamples": {}}
    with ThreadPoolExecutor(max_workers=3) as ex:
        for name, r in ex.map(one, jobs.items()):
            if name.startswith("machine"):
                tlc.require_ok(r, f"MC_C16 {name}")
                out["states"] += r.distinct
                out["transitions"] += r.generated
                out[name + "_states"] = r.distinct
            else:
                if not r.violated and not r.ok:
                    tlc.require_ok(r, f"MC_C16 {name}")
                out["design_level_counterexamples"][name] = "ImplRefines" in r.violated
    return out


# ---------------------------------------------------------------- code -> spec
def gen_hierarchy(rnd: random.Random, rnd_b: random.Random) -> Tuple[List[Dict[str, Any]], List[int]]:
    """rnd_b: a second stream for the blank flavours (so that the shapes drawn from rnd stay what they were)."""
    n = rnd.choice([3, 4, 4, 5, 5, 6])
    rel = rnd.choice([[], [], [1], [1, 2], [2]])
    cls = []
    for i in range(1, n + 1):
        nb = min(i - 1, rnd.choice([0, 1, 1, 1, 2, 2, 3]))
        bases = rnd.sample(range(1, i), nb)
        # a mixin that is not a Component: only plain bases, no assets, no relative files
        plain = rnd.random() < 0.15 and not rel
        if plain:
            bases = [b for b in bases if cls[b - 1]["plain"]]
        x = rnd.random()
        media = "none" if x < 0.25 else ("null" if x < 0.32 else "def")
        lists = {t: [] for t in TYPES}
        ext, extl = "true", []
        if media == "def":
            for t in TYPES:
                k = rnd.choice([0, 1, 1, 2, 2, 3]) if t == "js" else rnd.choice([0, 0, 1, 2, 3])
                lists[t] = rnd.sample([1, 2, 3, 4], k)
            y = rnd.random()
            if y < 0.2:
                ext = "false"
            elif y < 0.5 and i > 1:
                ext = "list"
                extl = rnd.sample(range(1, i), min(i - 1, rnd.choice([0, 1, 1, 2, 3])))
                if extl and rnd.random() < 0.1:
                    extl.append(extl[0])          # a class listed twice
        attr = {}
        for p in PAIRS:
            z = rnd.random()
            attr[p] = "none" if plain or z < 0.55 else ("inline" if z < 0.76 else ("file" if z < 0.97 else "both"))
            if attr[p] != "none" and rnd_b.random() < 0.3:      # a blank text: "", whitespace only, an empty file
                attr[p] += "-empty" if attr[p] == "both" or rnd_b.random() < 0.5 else "-ws"
        cls.append({"plain": plain, "bases": bases, "media": media, "lists": lists, "ext": ext, "extl": extl,
                    "attr": attr})
    return cls, rel


def random_traces(chk: Check, ntraces: int) -> List[Dict[str, Any]]:
    """Record seeded random deeper runs on the real library (validated by TLC afterwards)."""
    rnd = random.Random(chk.seed * 7919 + 16)
    rnd_b = random.Random(chk.seed * 7919 + 1616)
    pending = []
    for n in range(ntraces):
        cls, rel = gen_hierarchy(rnd, rnd_b)
        forms = rnd.randrange(1 << 30)
        # create first (a rejected class ends the hierarchy), then choose the history
        created = run_real(cls, rel, [], forms, keep_memo=True)
        m = sum(1 for e in created if e["out"] == "ok")
        cls = cls[:len(created)]
        acc = []
        for _ in range(rnd.randint(4, 14)):
            comps = [k for k in range(1, m + 1) if not cls[k - 1]["plain"]]
            c = rnd.choice([0] + comps * 3)
            a = "media" if rnd.random() < 0.5 else rnd.choice(PAIRS)
            acc.append([c, a, rnd.choice(["cls", "inst"])])
            if rnd_b.random() < 0.12:                           # rendered tags, somewhere in the history
                acc.append([rnd_b.choice([c] + comps), "render", rnd_b.choice(["cls", "inst"])])
        events = run_real(cls, rel, acc, forms, keep_memo=n < 2000)
        pending.append({"cls": cls, "rel": rel, "accesses": acc, "forms": forms, "events": events})
        chk.count({"cls": cls, "rel": rel, "accesses": acc})
        if n < 3:
            chk.sample({"random_run": {"cls": cls, "rel": rel, "events": events[-2:]}}, limit=9)
    chk.add("traces_validated_against_impl", len(pending))
    return pending


def gen_fault_run(rnd: random.Random):
    """A hierarchy of 2-4 Component classes of which some define `js_file` / `css_file`, a non-empty set of those
    files that does not exist at the start, and a history: accesses (media / js / css / template, on classes -
    base and subclass - and instances) while files are missing, files appearing in stages with accesses in
    between, and at the end every attribute of every class with all files present.  Media: none or single-file
    lists with extend = True (the shapes of the named deviations are the subject of the other families)."""
    n = rnd.choice([2, 3, 3, 4])
    cls, filed = [], []
    for i in range(1, n + 1):
        bases = sorted(rnd.sample(range(1, i), min(i - 1, rnd.choice([1, 1, 1, 2]))), reverse=True)
        lists = {t: [] for t in TYPES}
        media = "def" if rnd.random() < 0.6 else "none"
        if media == "def":
            lists["js"] = [rnd.choice([1, 2, 3, 4])]
            if rnd.random() < 0.5:
                lists["all"] = [rnd.choice([1, 2, 3, 4])]
        attr = {}
        for p in PAIRS:
            z = rnd.random()
            if p == "template":
                attr[p] = "none" if z < 0.5 else ("inline" if z < 0.8 else "file")
            else:
                attr[p] = "none" if z < 0.35 else ("inline" if z < 0.5 else "file")
                if attr[p] == "file":
                    if rnd.random() < 0.2:
                        attr[p] += rnd.choice(["-empty", "-ws"])
                    filed.append([i, p])
        cls.append({"plain": False, "bases": bases, "media": media, "lists": lists, "ext": "true", "extl": [],
                    "attr": attr})
    if not filed:
        p = rnd.choice(["js", "css"])
        cls[0]["attr"][p] = "file"
        filed.append([1, p])
    missing = sorted(rnd.sample(filed, rnd.randint(1, len(filed))))
    left = list(missing)
    acc: List[List[Any]] = []
    what = ["js", "css", "js", "css", "template", "media"]
    while left:
        for _ in range(rnd.randint(1, 4)):
            acc.append([rnd.choice([0] + list(range(1, n + 1)) * 4), rnd.choice(what), rnd.choice(["cls", "inst"])])
        for m in rnd.sample(left, rnd.randint(1, len(left))):
            acc.append([m[0], "mkfile", m[1]])
            left.remove(m)
    order = list(range(1, n + 1))
    rnd.shuffle(order)
    for c in order:
        for a in rnd.sample(["js", "css", "template", "media"], 4):
            acc.append([c, a, rnd.choice(["cls", "inst"])])
    return cls, missing, acc


def fault_traces(chk: Check, ntraces: int) -> List[Dict[str, Any]]:
    """Record seeded fault-then-retry histories on the real library (validated by TLC afterwards:
    MediaInherit!MustRaise / MayRaise and the regular clauses)."""
    rnd = random.Random(chk.seed * 7919 + 160016)
    pending = []
    for n in range(ntraces):
        cls, missing, acc = gen_fault_run(rnd)
        forms = rnd.randrange(1 << 30)
        events = run_real(cls, [], acc, forms, keep_memo=n % 2 == 0, missing=missing)
        if any(e["op"] == "create" and e["out"] != "ok" for e in events):
            raise MachineryError(f"fault run: a class could not be created: {canon(cls)}")
        pending.append({"cls": cls, "rel": [], "accesses": acc, "forms": forms, "events": events, "missing": missing})
        chk.count({"cls": cls, "missing": missing, "accesses": acc})
        if n < 2:
            chk.sample({"fault_run": {"cls": cls, "missing": missing, "accesses": acc,
                                      "observed": [[e["c"], e["a"], e["via"], "raised" if e["exc"] else e["val"],
                                                    len(e["miss"])] for e in events if e["op"] == "access"]}}, limit=9)
    chk.add("fault_runs", len(pending))
    chk.add("fault_accesses_raised", sum(1 for p in pending for e in p["events"] if e.get("exc")))
    chk.add("traces_validated_against_impl", len(pending))
    return pending


# ---------------------------------------------------------------- entry points
def _body(chk: Check, quick: bool, small: bool = False) -> None:
    """The whole check.  TLC work (exports, memo machine, trace validation) runs in threads beside
    the Python replays; the replay workers are forked before any thread exists."""
    import multiprocessing as mp
    from concurrent.futures import ThreadPoolExecutor
    world()
    t_start = time.time()
    phase = chk.cov.setdefault("phase_done_at_s", {})
    pool = None if small else mp.get_context("fork").Pool(REPLAY_PROCS)
    try:
        with ThreadPoolExecutor(max_workers=8) as ex:
            exports = {fam: ex.submit(export_cases, fam, quick) for fam in ORDER}
            machine = None if small else ex.submit(model_check_machine, quick)
            judged = []          # (pending runs, future of their TLC verdicts, py_flagged)
            rnd_runs = random_traces(chk, 250 if small else (1000 if quick else 12000))
            judged.append((rnd_runs, ex.submit(tlc_validate, as_traces(rnd_runs), "random"), False))
            phase["random_recorded"] = round(time.time() - t_start, 1)
            flt_runs = fault_traces(chk, 60 if small else (400 if quick else 4000))
            judged.append((flt_runs, ex.submit(tlc_validate, as_traces(flt_runs), "fault"), False))
            phase["fault_recorded"] = round(time.time() - t_start, 1)
            for fam in ORDER:
                pend = replay_cases(chk, fam, quick, exports[fam].result(), pool, small=small)
                judged.append((pend, ex.submit(tlc_validate, as_traces(pend), f"explain_{fam}"), True))
                phase[f"{fam}_replayed"] = round(time.time() - t_start, 1)
            for pend, fut, flagged in judged:
                apply_verdicts(chk, pend, fut.result(), flagged)
            phase["verdicts"] = round(time.time() - t_start, 1)
            if machine is not None:
                for k, v in machine.result().items():
                    if isinstance(v, int):
                        chk.add(k, v)
                    else:
                        chk.cov[k] = v
            phase["machine"] = round(time.time() - t_start, 1)
    finally:
        if pool is not None:
            pool.terminate()
            pool.join()


def run(tier: str) -> int:
    chk = Check(PID, tier, "model_checking")
    quick = tier == "quick"
    _body(chk, quick)
    chk.cov["exhaustive"] = True
    chk.cov["sampled_families"] = {f: FAMILIES[f][tier][1] for f in FAMILIES if FAMILIES[f][tier][1] is not None}
    chk.cov["rule"] = (
        "spec -> code: every hierarchy TLC builds by AddClass from the catalogues of MC_C16 is exported with what "
        "MediaInherit expects and replayed on fresh classes under permutations of the first accesses (on classes "
        "and instances; the rotation makes every order occur on every shape): family media = 3 classes, <= 2 bases, "
        "own Media none / (None) / 4-5 contents x extend True / False / every list of <= 2 earlier classes, "
        "exhaustive; attr = 3 classes x 7 asset-kind triples incl. both members, exhaustive; attr4 / media4 = 4 "
        "classes (diamonds); blank = 3 classes x 6 asset-kind triples with blank definitions (empty string, whitespace "
        "only, empty / whitespace-only file, blank member beside the other member) at every level, exhaustive, read on "
        "classes and instances before / after a render of every class; blank4 = the same on 4 classes (diamonds, the "
        "blank class first / second among the bases); mixin = plain non-Component classes with a nested Media as bases / in extend lists; "
        "rel = component-relative files with media read before / after / between template, js, css (families in "
        "sampled_families: seeded sample of that many hierarchies).  A hierarchy that can still be "
        "extended is replayed as prefix of its extensions.  code -> spec: seeded random hierarchies of 3-6 classes, "
        "<= 3 bases, lists of <= 3 files from 4, relative files, all surface forms, blank texts for 30% of the defined "
        "assets, 4-14 random accesses plus renders, validated "
        "by Trace_C16; fault-then-retry histories (2-4 classes, js_file / css_file missing at first and appearing in "
        "stages, accesses on classes, subclasses and instances in between and afterwards) validated by Trace_C16 "
        "(MustRaise / MayRaise); every run contradicting the exported expectation is also judged by Trace_C16.  Non-trivial = "
        ">= 2 usable classes and some class declares Media or an asset; distinct by hash of (family, hierarchy, "
        "access plan) resp. of the random run")
    chk.assumptions += [
        "order is asserted only as 'linear extension of every contributing declared list' and only when those "
        "lists are acyclic; cyclic lists are compared as sets",
        "a component-relative path denotes the converted path (docs: 'the component's file path is re-written')",
        "a class without own Media has the default extend=True (DESIGN C16; docs: Media holds only the class's own definition)",
        "Python's own rejection of hierarchies without C3 order is used only to cross-check the MRO transcription",
        "SafeString entries and media_class subclasses are not generated; plain mixins carry only a Media in "
        "canonical form (nobody normalises it), never assets or component-relative files",
        "an access depends on the hierarchy and on the asset files as they are at that moment, not on earlier failed "
        "accesses; which accesses of a class with a missing file in its MRO raise is fixed only for the attribute "
        "whose nearest definition is the missing file (must raise), all others may raise or answer",
        "layer B (MediaInheritImpl) is used only to classify an observation the specification already rejected",
        "a blank text (empty string, whitespace only, empty file) is a defined value; the empty string carries no class "
        "identity and is compared as a value, whitespace-only texts encode their class; rendering is judged only when some "
        "class defines a template, and for a blank template only 'nothing foreign in the document'",
    ]
    return chk.finish()


def replay(path: str) -> int:
    d = json.load(open(path))
    case = d["case"]
    world()
    events = run_real(case["cls"], case["rel"], case["accesses"], case.get("forms", 0), missing=case.get("missing"))
    res = tlc_validate([{"id": 1, "cls": case["cls"][:sum(1 for e in events if e["op"] == "create")],
                         "rel": case["rel"], "events": events}], "replay")
    r = res[1]
    print(json.dumps({"events": events, "verdict": r}, indent=1, default=repr))
    return 1 if r["verdict"] == "reject" or r["known"] else 0


def _variant(mod, fn_name: str, edits: List[Tuple[str, str]]):
    """A copy of a library function with source-level edits (a realistic bug); None if the source
    no longer contains the edited text (probe inapplicable)."""
    import inspect
    src = inspect.getsource(getattr(mod, fn_name))
    for old, new in edits:
        if old not in src:
            return None
        src = src.replace(old, new)
    g = mod.__dict__
    orig = g[fn_name]
    try:
        exec(compile(src, f"<probe {fn_name}>", "exec"), g)
        return g[fn_name]
    finally:
        g[fn_name] = orig


def selftest(tier: str) -> int:
    """(i) corrupted recorded traces must be rejected with the right clause; (ii) in-process
    mutation probes of component_media.py must each be reported as a violation that no named
    deviation explains; (iii) with the three proposed repairs applied in-process (and their
    findings no longer listed) the check must be clean.  Never touches /repo."""
    from contextlib import contextmanager
    world()
    import django_components.component_media as cm

    @contextmanager
    def patch(obj, name, new):
        old = getattr(obj, name)
        setattr(obj, name, new)
        try:
            yield
        finally:
            setattr(obj, name, old)

    def media_probe(*edits):
        def cmgr():
            fn = _variant(cm, "_get_comp_cls_media", list(edits))
            if fn is None:
                raise MachineryError("probe inapplicable: source text not found")
            return patch(cm, "_get_comp_cls_media", fn)
        return cmgr

    def attr_probe(*edits):
        def cmgr():
            fn = _variant(cm, "_get_comp_cls_attr", list(edits))
            if fn is None:
                raise MachineryError("probe inapplicable: source text not found")
            return patch(cm, "_get_comp_cls_attr", fn)
        return cmgr

    def asset_probe(*edits):
        def cmgr():
            fn = _variant(cm, "_get_asset", list(edits))
            if fn is None:
                raise MachineryError("probe inapplicable: source text not found")
            return patch(cm, "_get_asset", fn)
        return cmgr

    def post_init_truthy(self):
        from django.core.exceptions import ImproperlyConfigured
        for inlined_attr in ("template", "js", "css"):
            if getattr(self, inlined_attr) and getattr(self, inlined_attr + "_file"):
                raise ImproperlyConfigured(f"both '{inlined_attr}' and '{inlined_attr}_file' set")

    class NameKeyed(dict):
        """the memo table keyed by the class name instead of the class"""
        @staticmethod
        def _k(k):
            return getattr(k, "__name__", k)

        def __contains__(self, k):
            return dict.__contains__(self, self._k(k))

        def __getitem__(self, k):
            return dict.__getitem__(self, self._k(k))

        def __setitem__(self, k, v):
            dict.__setitem__(self, self._k(k), v)

        def get(self, k, d=None):
            return dict.get(self, self._k(k), d)

        def pop(self, k, *d):
            return dict.pop(self, self._k(k), *d)

    def resolve_probe(*edits):
        def cmgr():
            fn = _variant(cm, "_resolve_media", list(edits))
            if fn is None:
                raise MachineryError("probe inapplicable: source text not found")
            return patch(cm, "_resolve_media", fn)
        return cmgr

    LIST = "        else:\n            bases = media_extend\n"
    probes = [
        ("extend-list-ignored", media_probe((LIST, "        else:\n            bases = curr_cls.__bases__\n"))),
        ("extend-list-added-to-bases",
         media_probe((LIST, "        else:\n            bases = (*curr_cls.__bases__, *media_extend)\n"))),
        ("extend-false-ignored",
         media_probe(("        elif media_extend is False:\n            bases = tuple()\n",
                      "        elif media_extend is False:\n            bases = curr_cls.__bases__\n"))),
        ("only-first-base-merged", media_probe(("        for base in bases:\n", "        for base in list(bases)[:1]:\n"))),
        ("grandparents-only-if-already-memoised (order dependent)",
         media_probe(("        if unresolved_bases:\n", "        if unresolved_bases and curr_cls is comp_cls:\n"))),
        ("memo-keyed-by-class-name", lambda: patch(cm, "media_cache", NameKeyed())),
        ("css-media-types-other-than-all-dropped-on-merge",
         media_probe(("media._css_lists = merged_media._css_lists",
                      "media._css_lists = [{k: v for k, v in d.items() if k == 'all'} for d in merged_media._css_lists]"))),
        ("base-files-replace-own-files",
         media_probe(("media._js_lists = merged_media._js_lists",
                      "media._js_lists = base_media._js_lists if base_media._js else merged_media._js_lists"))),
        ("plain-mixin-bases-skipped",
         media_probe(("unresolved_bases = [base for base in bases if base not in media_cache]",
                      "unresolved_bases = [base for base in bases if base not in media_cache "
                      "and hasattr(base, '_component_media')]"))),
        ("own-js-list-reversed",
         media_probe(('media_js = getattr(media_input, "js", [])', 'media_js = list(reversed(getattr(media_input, "js", [])))'))),
        ("pair-rule-dropped (nearest non-null value of the attribute itself)",
         attr_probe(('if attr in ("js", "js_file"):', "if False:"), ('if attr in ("css", "css_file"):', "if False:"),
                    ('if attr in ("template", "template_file"):', "if False:"))),
        ("pair-rule-only-for-js",
         attr_probe(('if attr in ("css", "css_file"):', "if False:"),
                    ('if attr in ("template", "template_file"):', "if False:"))),
        ("attribute-walk-depth-first-instead-of-mro",
         attr_probe(("    for base in comp_cls.mro():\n",
                     "    def _dfs(k, seen):\n"
                     "        if k in seen:\n            return []\n"
                     "        seen.add(k)\n"
                     "        return [k] + [x for b in k.__bases__ for x in _dfs(b, seen)]\n"
                     "    for base in _dfs(comp_cls, set()):\n"))),
        ("bases-not-loaded-on-child-access (order dependent)",
         attr_probe(("        if not comp_media.resolved:\n", "        if not comp_media.resolved and base is comp_cls:\n"))),
        ("both-members-accepted", lambda: patch(cm.ComponentMedia, "__post_init__", lambda self: None)),
        # blank definitions ("" / whitespace only / empty file) are defined values
        ("pair-emptiness-by-truthiness (blank override falls through to the parents)",
         attr_probe(("inline_attr_empty = getattr(comp_media, inline_attr, None) is None",
                     "inline_attr_empty = not getattr(comp_media, inline_attr, None)"))),
        ("blank-js-css-normalised-to-None-when-resolved",
         asset_probe(("    return asset_content\n",
                      "    if type == 'static' and asset_content is not None and not asset_content.strip():\n"
                      "        return None\n    return asset_content\n"))),
        ("asset-text-stripped-when-resolved",
         asset_probe(("    return asset_content\n",
                      "    return asset_content.strip() if isinstance(asset_content, str) else asset_content\n"))),
        # fault, then retry: a failed resolution leaves no state behind
        ("resolved-flag-set-before-the-files-are-loaded (None after a failed first access)",
         resolve_probe(("    comp_dirs = get_component_dirs()\n",
                        "    comp_media.resolved = True\n    comp_dirs = get_component_dirs()\n"))),
        ("missing-asset-file-swallowed (None instead of an error)",
         asset_probe(('            raise ValueError(f"Could not find {inlined_attr} file {asset_file}")\n',
                      "            return None\n"))),
        ("both-members-check-by-truthiness (`js = \"\"` beside js_file accepted)",
         lambda: patch(cm.ComponentMedia, "__post_init__", post_init_truthy)),
    ]

    # ---- (i) corrupted traces
    chk0 = Check(PID, "quick", "other", silent=True)
    runs = random_traces(chk0, 150)
    res = tlc_validate(as_traces(runs), "st_base")
    good = [p for i, p in enumerate(runs) if res[i + 1]["verdict"] == "accept" and not res[i + 1]["known"]]
    corrupted, want = [], []
    for p in good:
        evs = json.loads(json.dumps(p["events"]))
        med = [e for e in evs if e["op"] == "access" and e["a"] == "media" and not e["exc"]]
        att = [e for e in evs if e["op"] == "access" and e["a"] in PAIRS and not e["exc"] and e["val"] != "empty"]
        kind = len(corrupted) % 4
        if kind == 0 and med:
            med[-1]["js"] = med[-1]["js"] + [UNKNOWN]
            want.append("F.js")
        elif kind == 1 and any(e["all"] for e in med):
            e = next(e for e in med if e["all"])
            e["all"] = e["all"] + e["all"][:1]
            want.append("O.all")
        elif kind == 2 and att:
            att[0]["src"] = att[0]["src"] + 1
            want.append("N." + att[0]["a"])
        elif kind == 3 and any(e["print"] for e in med):
            e = next(e for e in med if e["print"])
            e["print"] = e["print"][1:]
            want.append("F.print")
        else:
            continue
        corrupted.append({"cls": p["cls"], "rel": p["rel"], "events": evs})
    res = tlc_validate(as_traces(corrupted), "st_corrupt")
    missed = [i for i in range(len(corrupted))
              if res[i + 1]["verdict"] != "reject" or want[i] not in res[i + 1]["clauses"]]
    print(f"selftest {PID}: corrupted traces rejected with the right clause: {len(corrupted) - len(missed)}/{len(corrupted)}")
    ok = not missed and len(corrupted) >= 20

    # ---- (ii) mutation probes
    def body(chk: Check) -> None:
        _body(chk, True, small=True)
    from .core import run_probes
    ok = run_probes(PID, probes, body) == 0 and ok

    # ---- (iii) the proposed repairs, applied in-process, leave nothing to report
    fixed = _variant(cm, "_get_comp_cls_media", [
        ('media_input = getattr(curr_cls, "Media", None)', 'media_input = curr_cls.__dict__.get("Media", None)'),
        ("            media = media_cls(js=merged_media._js, css=merged_media._css)\n",
         "            media = media_cls()\n            media._js_lists = merged_media._js_lists\n"
         "            media._css_lists = merged_media._css_lists\n"),
        ('        media_cls = getattr(curr_cls, "media_class", MediaCls)\n',
         '        _cm = curr_cls.__dict__.get("_component_media", None)\n'
         "        if _cm is not None and not _cm.resolved:\n            _resolve_media(curr_cls, _cm)\n"
         '        media_cls = getattr(curr_cls, "media_class", MediaCls)\n'),
    ])
    if fixed is None:
        print("  repaired variant: inapplicable (source changed)")
    else:
        chk = Check(PID, "quick", "other", silent=True)
        for k in KEYS.values():
            chk.known.findings.pop((PID, k), None)
        with patch(cm, "_get_comp_cls_media", fixed):
            body(chk)
        print(f"  repaired variant (3 proposed fixes, no finding listed): violations={chk.violations}")
        ok = ok and chk.violations == 0
    return 0 if ok else 1
