"""C17 - the static-files finder exposes exactly the allowed, non-forbidden files.

Oracle: specs/Finder.tla.  `Exposed(path, cfg)` = some allowed pattern matches the path relative to the
component directory and no forbidden pattern does; a suffix string matches by *literal* "ends with" exactly as
given - with or without a leading dot (".js", but also "_test.js", "min.js", "js", a whole file name such as
"LICENSE"; the property says "ends with an allowed suffix", an entry is never rewritten) -, a compiled regex by its own semantics (small catalogue, each regex with a TLA+ predicate; the harness
calibrates predicate against `re` before blaming the library).  Lookup paths are normalised by the
specification's own `Norm` (".", "..", absolute): only lookups resolving to an exposed file under the
root may be answered.

spec -> code: MC_C17  - TLC enumerates every tree of <= MaxFiles files over (5 dirs x 35 names) under the
                        17 catalogue configurations, checks the theorems (DefaultsHideBackend, ForbidWins,
                        EmptyAllowedHidesAll, NoEscape, ...) and exports every state; each is materialised
                        under workdir() and observed through finder.list, finder.find (canonical path,
                        "./", "x/../", absolute, "../r0/", base name, traversal / prefix-trick escapes)
                        and the staticfiles `serve` view.
              MC_C17K - TLC enumerates configurations (allowed / forbidden = unset, empty, or <= k
                        patterns of a 21-pattern pool: 8 dotted suffixes, 9 regexes, 4 plain suffixes
                        without a leading dot; current or deprecated setting name) over one tree
                        holding all 175 pool paths.  FinderPools asserts (ASSUME PlainSuffixesTold) that for
                        every plain suffix the name pool holds a file that ends with it but not with "." + suffix.
code -> spec: seeded random sessions (random names incl. regex metacharacters, newlines, upper case;
              random suffix lists derived from the names: extensions cut at a dot, and plain tails cut
              anywhere - "_a.js" of "test_a.js", "min.js" of "admin.js", whole names -; 1-2 roots, one of them possibly the
              components/ directory of a generated installed app; files added and removed between
              observations; random lookup spellings) recorded on the real finder and validated in one
              TLC batch by Trace_C17.

Not determined by the property, therefore not demanded (see Finder.tla):
  * whether a non-canonical spelling ("./a.js", "x/../a.js", absolute path) of an *exposed* file is
    answered ("may"); a hidden or outside file must never be answered however it is spelled;
  * SuspiciousFileOperation counts as "not exposed";
  * which of static_files_forbidden / forbidden_static_files wins when both are given (never generated);
  * suffix strings that are empty, contain "/" (is "the name" the base name or the path?) or a newline: never
    generated (Finder!SuffixInScope).  Suffix strings without a leading dot ARE generated: the settings docs call
    the entries "file extensions (including the leading dot)", the property statement determines them as suffixes;
  * regexes that can tell the absolute from the relative path (find() matches the absolute path,
    list() the relative one): the catalogue has none, the sandbox directory names are neutral and the
    harness asserts that for every file;
  * lookups that resolve to a directory; symlinks; tuple entries in COMPONENTS.dirs;
  * the `serve` channel for names containing a newline (Django's view itself raises BadHeaderError);
  * with two roots only canonical lookups are made (an escape attempt raises in the first root);
  * files of django_components' own components/ app directory (reached when app_dirs is used) are projected away.

Known deviation, classified by the specification (Finder.tla, "the known deviation"): a suffix string
is compiled as the regex  "\\" + suffix + "$" : inner dots are wildcards, "$" also matches before a final
newline, other metacharacters keep their meaning.  Keys `suffix-inner-dot:as-regex`,
`suffix-trailing-newline:as-regex`, `suffix-regex-operator:as-regex` are used only when every observation
of the file equals what that deviation predicts.
"""
from __future__ import annotations

import json
import os
import random
import re
import shutil
from contextlib import contextmanager
from pathlib import Path
from typing import Any, Dict, Iterable, List, Optional, Tuple

from . import tlc
from .core import Check, MachineryError, workdir

PID = "C17"

# id -> compiled regex; the TLA+ predicate of the same id is RegexPred in specs/Finder.tla
REGEXES = {
    "any": re.compile(r".*"),
    "js_dollar": re.compile(r"\.js$"),
    "min_asset": re.compile(r"\.min\.(js|css)\Z"),
    "upper_ext": re.compile(r"\.[A-Z]+\Z"),
    "test_part": re.compile(r"(^|/)test_"),
    "vendor_dir": re.compile(r"(^|/)vendor/"),
    "hidden": re.compile(r"(^|/)\.[^/]*\Z"),
    "py_anycase": re.compile(r"(?i)\.py\Z"),
    "no_ext": re.compile(r"(^|/)[^./]+\Z"),
}
N_NAMES, N_DIRS, N_CFGS, N_PATS = 35, 5, 17, 21
OPCHARS = set("+*?()[]{}|^$\\")


def _set(xs: Iterable[int]) -> str:
    return "{" + ",".join(str(x) for x in xs) + "}"


# ---------------------------------------------------------------- sandbox
class Sandbox:
    """S/r0 [, S/r1] component roots, S/r0x/a.js look-alike sibling, S/outside.js."""

    def __init__(self, tag: str, nroots: int = 1, app: bool = False):
        self.S = workdir(tag).resolve()
        self.roots = [self.S / f"r{i}" for i in range(nroots)]
        self.app: Optional[str] = None
        if app:
            # the last root is [app]/components of a generated app (reached through COMPONENTS.app_dirs)
            self.app = "vfapp17_" + self.S.name.replace("-", "_")
            pkg = self.S / self.app
            pkg.mkdir()
            (pkg / "__init__.py").write_text("")
            (pkg / "apps.py").write_text(
                f"from django.apps import AppConfig\n\n\nclass Cfg(AppConfig):\n    name = {self.app!r}\n")
            self.roots[-1] = pkg / "components"
        for r in self.roots:
            r.mkdir()
        (self.S / "r0x").mkdir()
        (self.S / "r0x" / "a.js").write_text("outside:r0x/a.js")
        (self.S / "outside.js").write_text("outside:outside.js")
        self.present: set = set()
        self._neutral: set = set()

    @staticmethod
    def content(r: int, rel: str) -> str:
        return f"file:{r}:{rel}"

    def add(self, r: int, rel: str) -> None:
        p = self.roots[r] / rel
        p.parent.mkdir(parents=True, exist_ok=True)
        p.write_text(self.content(r, rel))
        self.present.add((r, rel))
        if rel not in self._neutral:
            # the sandbox prefix must be invisible to every catalogue regex (find() sees the absolute path)
            for rid, rx in REGEXES.items():
                if bool(rx.search(str(p))) != bool(rx.search(rel)):
                    raise MachineryError(f"sandbox prefix not neutral for regex {rid} on {str(p)!r}")
            self._neutral.add(rel)

    def remove(self, r: int, rel: str) -> None:
        p = self.roots[r] / rel
        p.unlink()
        self.present.discard((r, rel))
        d = p.parent
        while d != self.roots[r]:
            try:
                d.rmdir()
            except OSError:
                break
            d = d.parent

    def sync(self, files: Iterable[Tuple[int, str]]) -> None:
        want = set(files)
        for r, rel in sorted(self.present - want):
            self.remove(r, rel)
        for r, rel in sorted(want - self.present):
            self.add(r, rel)

    def lookup_str(self, abs_: bool, parts: List[str]) -> str:
        s = "/".join(parts)
        return f"{self.S}/{s}" if abs_ else s

    def locate(self, res: str) -> Tuple[str, str, int]:
        """Classify a path returned by the finder: (got, rel, root)."""
        res = os.path.normpath(str(res))
        for i, root in enumerate(self.roots):
            pre = str(root) + os.sep
            if res.startswith(pre):
                rel = res[len(pre):]
                return ("hit" if os.path.isfile(res) else "dir"), rel, i
        return "outside", "", -1


def _py_pat(p: Dict[str, str]):
    return p["s"] if p["k"] == "suffix" else REGEXES[p["s"]]


@contextmanager
def installed_app(sbx: "Sandbox"):
    """Install the sandbox's generated app for the duration (override_settings re-populates the registry)."""
    import sys
    from django.test.utils import override_settings
    sys.path.insert(0, str(sbx.S))
    ov = override_settings(INSTALLED_APPS=("django_components", sbx.app))
    ov.enable()
    try:
        yield
    finally:
        ov.disable()
        sys.path.remove(str(sbx.S))
        for m in [m for m in sys.modules if m.split(".")[0] == sbx.app]:
            del sys.modules[m]


@contextmanager
def configured(cfg: Dict[str, Any], roots: List[Path], as_path: bool = False, last_is_app: bool = False,
               as_instance: bool = False):
    """COMPONENTS for one abstract configuration (settings are read lazily by app_settings)."""
    from django.conf import settings
    from django.contrib.staticfiles import finders as sf
    old = settings.COMPONENTS
    droots = roots[:-1] if last_is_app else roots
    comp: Dict[str, Any] = {"autodiscover": False, "app_dirs": ["components"] if last_is_app else [],
                            "dirs": [Path(r) if as_path else str(r) for r in droots]}
    for field, name in (("a", "static_files_allowed"), ("f", "static_files_forbidden"),
                        ("fo", "forbidden_static_files")):
        if cfg[field]["set"]:
            comp[name] = [_py_pat(p) for p in cfg[field]["pats"]]
    # the setting may be given as a dict or as a ComponentsSettings instance (documented as equivalent; the
    # specification does not depend on the form)
    if as_instance:
        from django_components import ComponentsSettings
        settings.COMPONENTS = ComponentsSettings(**comp)
    else:
        settings.COMPONENTS = comp
    settings.STATICFILES_FINDERS = ["django_components.finders.ComponentsFileSystemFinder"]
    sf.get_finder.cache_clear()
    try:
        yield
    finally:
        settings.COMPONENTS = old
        sf.get_finder.cache_clear()


# ---------------------------------------------------------------- observation
def obs_list(finder, sbx: Sandbox) -> List[Tuple[int, str]]:
    out = []
    locs = {str(r): i for i, r in enumerate(sbx.roots)}
    for path, storage in finder.list([]):
        if sbx.app and not str(storage.location).startswith(str(sbx.S) + os.sep):
            continue             # app_dirs also reaches django_components' own components/ directory
        out.append((locs.get(str(storage.location), -1), path))
    return out


def obs_find(finder, sbx: Sandbox, s: str, **kw) -> Dict[str, Any]:
    from django.core.exceptions import SuspiciousFileOperation
    try:
        res = finder.find(s, **kw)
    except SuspiciousFileOperation:
        return {"got": "sfo", "rel": "", "r": -1}
    except Exception as e:  # noqa: BLE001
        return {"got": "error", "rel": "", "r": -1, "exc": repr(e)}
    if not res:
        return {"got": "miss", "rel": "", "r": -1}
    got, rel, r = sbx.locate(res)
    return {"got": got, "rel": rel, "r": r}


_rf = None


def obs_serve(sbx: Sandbox, rel: str) -> str:
    """django.contrib.staticfiles.views.serve (the dev-server path): hit / miss / sfo / wrongbody."""
    global _rf
    from django.contrib.staticfiles.views import serve
    from django.core.exceptions import SuspiciousFileOperation
    from django.http import Http404
    from django.test import RequestFactory
    if _rf is None:
        _rf = RequestFactory()
    try:
        resp = serve(_rf.get("/static/x"), rel, insecure=True)
    except Http404:
        return "miss"
    except SuspiciousFileOperation:
        return "sfo"
    except Exception:  # noqa: BLE001
        return "error"
    try:
        body = b"".join(resp.streaming_content) if getattr(resp, "streaming", False) else resp.content
    finally:
        resp.close()
    if resp.status_code != 200:
        return "error"
    ok = any(body == sbx.content(i, rel).encode() for i in range(len(sbx.roots)))
    return "hit" if ok else "wrongbody"


def _servable(rel: str) -> bool:
    """Django's own static view raises BadHeaderError for names with a newline (Content-Disposition)."""
    return "\n" not in rel


def complies(expect: str, want_rel: str, o: Dict[str, Any]) -> bool:
    """Python twin of Finder!Complies (comparison only)."""
    hidden = o["got"] in ("miss", "sfo")
    hit = o["got"] == "hit" and o["rel"] == want_rel
    return {"hide": hidden, "find": hit, "may": hidden or hit}[expect]


def _key(k: str) -> str:
    return f"{k}:as-regex"


# ---------------------------------------------------------------- spec -> code: trees
_exports: Dict[Tuple[str, str], Tuple[List[Any], int, int]] = {}


def _export(module: str, cfg: Path, out: Path) -> Tuple[List[Any], int, int]:
    """Run TLC once per (module, constants) and process: the export does not depend on the library,
    so the selftest probes share it."""
    k = (module, cfg.read_text())
    if k not in _exports:
        r = tlc.require_ok(tlc.run(module, str(cfg), env={"OUT": str(out)}, workers=1), module)
        rows = tlc.read_ndjson(out)
        if len(rows) != r.distinct:
            raise MachineryError(f"{module} export incomplete: {len(rows)} rows for {r.distinct} states")
        _exports[k] = (rows, r.distinct, r.generated)
    return _exports[k]


def replay_tree_row(chk: Check, row: Dict[str, Any], sbx: Sandbox, serve: bool = True) -> None:
    from django_components.finders import ComponentsFileSystemFinder
    files = row["files"]
    sbx.sync((0, f["p"]) for f in files)
    case = {"kind": "tree", "row": row}
    with configured(row["cfg"], sbx.roots, as_path=row["cid"] % 2 == 1, as_instance=row["cid"] % 3 == 2):
        finder = ComponentsFileSystemFinder()
        listed = obs_list(finder, sbx)
        lset = [p for _, p in listed]
        extra = [x for x in listed if x[0] != 0 or x[1] not in {f["p"] for f in files}]
        if extra or len(set(lset)) != len(lset):
            chk.violation(case, {"clause": "list yields unknown or duplicate paths", "listed": listed})
        for f in files:
            o = {"listed": lset.count(f["p"]) == 1,
                 "found": obs_find(finder, sbx, f["p"]),
                 "served": obs_serve(sbx, f["p"]) if serve and _servable(f["p"]) else None}
            bools = [o["listed"], o["found"]["got"] == "hit" and o["found"]["rel"] == f["p"]]
            clean = o["found"]["got"] in ("hit", "miss", "sfo")
            if o["served"] is not None:
                bools.append(o["served"] == "hit")
                clean = clean and o["served"] in ("hit", "miss", "sfo")
            chk.count([row["cfg"], f["p"]], nontrivial=True)
            if clean and all(b == f["exp"] for b in bools):
                continue
            detail = {"file": f["p"], "expected_exposed": f["exp"], "observed": o}
            if clean and f["keys"] and all(b == f["dev"] for b in bools):
                for k in f["keys"]:
                    chk.violation(case, detail, key=_key(k))
            else:
                chk.violation(case, detail)
        for lk in row["lookups"]:
            s = sbx.lookup_str(lk["abs"], lk["parts"])
            o = obs_find(finder, sbx, s)
            chk.add("lookups_replayed")
            if complies(lk["expect"], lk["rel"], o):
                continue
            detail = {"lookup": s.replace(str(sbx.S), "<S>"), "abs": lk["abs"], "parts": lk["parts"],
                      "expected": lk["expect"], "resolves_to": lk["rel"], "observed": o}
            if lk["keys"] and complies(lk["dexpect"], lk["rel"], o):
                for k in lk["keys"]:
                    chk.violation(case, detail, key=_key(k))
            else:
                chk.violation(case, detail)


def model_check_trees(chk: Check, max_files: int, small: List[int], small_dirs: Optional[List[int]] = None,
                      names: Optional[List[int]] = None, cfgs: Optional[List[int]] = None,
                      serve: bool = True) -> None:
    w = workdir("c17mc")
    cfg, out = w / "mc.cfg", w / "trees.ndjson"
    cfg.write_text(
        "SPECIFICATION MCSpec\nCONSTANTS\n"
        f"  CfgIdx = {_set(cfgs or range(1, N_CFGS + 1))}\n  NameIdx = {_set(names or range(1, N_NAMES + 1))}\n"
        f"  SmallIdx = {_set(small)}\n  SmallDirs = {_set(small_dirs or range(1, N_DIRS + 1))}\n"
        f"  DirIdx = {_set(range(1, N_DIRS + 1))}\n  MaxFiles = {max_files}\n"
        "INVARIANT Theorems\nINVARIANT PathsDistinct\nINVARIANT Export\n")
    rows, distinct, generated = _export("MC_C17", cfg, out)
    chk.add("states", distinct)
    chk.add("transitions", generated)
    chk.add("tree_cases_replayed", len(rows))
    sbx = Sandbox("c17sb")
    for row in rows:
        replay_tree_row(chk, row, sbx, serve=serve)
    for row in rows:
        if len(row["files"]) == 2:
            chk.sample({"tree_case": {"cid": row["cid"], "cfg": row["cfg"],
                                      "files": row["files"], "lookups": row["lookups"][:3]}}, limit=2)
            break


# ---------------------------------------------------------------- spec -> code: configurations
def calibrate(rows: List[Dict[str, Any]], all_paths: List[str]) -> int:
    """The TLA+ predicate of every catalogue regex must agree with Python's `re` on every pool path
    (rows with allowed=[that regex], forbidden=[] carry the predicate's extension)."""
    n = 0
    for row in rows:
        c = row["cfg"]
        if c["a"]["set"] and len(c["a"]["pats"]) == 1 and c["a"]["pats"][0]["k"] == "regex" \
                and c["f"]["set"] and not c["f"]["pats"] and not c["fo"]["set"]:
            rid = c["a"]["pats"][0]["s"]
            exp = set(row["exp"])
            for p in all_paths:
                if bool(REGEXES[rid].search(p)) != (p in exp):
                    raise MachineryError(f"regex catalogue out of calibration: {rid} on {p!r}")
                n += 1
    return n


def model_check_configs(chk: Check, max_a: int, max_f: int, dirs: List[int], serve: bool = False,
                        pats: Optional[List[int]] = None) -> None:
    from django_components.finders import ComponentsFileSystemFinder
    w = workdir("c17mk")
    cfg, out = w / "mk.cfg", w / "cfgs.ndjson"
    cfg.write_text(
        "SPECIFICATION KSpec\nCONSTANTS\n"
        f"  PatIdx = {_set(pats or range(1, N_PATS + 1))}\n  MaxA = {max_a}\n  MaxF = {max_f}\n"
        f"  NameIdx = {_set(range(1, N_NAMES + 1))}\n  DirIdx = {_set(dirs)}\n"
        "INVARIANT Theorems\nINVARIANT Export\n")
    rows, distinct, generated = _export("MC_C17K", cfg, out)
    chk.add("states", distinct)
    chk.add("transitions", generated)
    chk.add("config_cases_replayed", len(rows))
    # the full tree: the default configuration exposes or hides each path, "allow any / forbid none" lists all
    everything = [row for row in rows if row["cfg"]["a"]["set"] and row["cfg"]["f"]["set"]
                  and not row["cfg"]["f"]["pats"] and [p["s"] for p in row["cfg"]["a"]["pats"]] == ["any"]]
    if len(everything) != 1:
        raise MachineryError("MC_C17K: the allow-any/forbid-none configuration is missing")
    all_paths = sorted(everything[0]["exp"])
    chk.add("regex_calibration_points", calibrate(rows, all_paths))
    sbx = Sandbox("c17sk")
    sbx.sync((0, p) for p in all_paths)
    for i, row in enumerate(rows):
        exp = set(row["exp"])
        dev = {d["p"]: d for d in row["dev"]}
        case = {"kind": "config", "cfg": row["cfg"]}      # + file, expectation (added per failing path)
        with configured(row["cfg"], sbx.roots, as_path=i % 2 == 1, as_instance=i % 3 == 2):
            finder = ComponentsFileSystemFinder()
            listed = [p for _, p in obs_list(finder, sbx)]
            lset = set(listed)
            if len(lset) != len(listed) or not lset <= set(all_paths):
                chk.violation(case, {"clause": "list yields unknown or duplicate paths", "listed": listed})
            for p in all_paths:
                o = {"listed": p in lset, "found": obs_find(finder, sbx, p),
                     "served": obs_serve(sbx, p) if serve and _servable(p) else None}
                bools = [o["listed"], o["found"]["got"] == "hit" and o["found"]["rel"] == p]
                clean = o["found"]["got"] in ("hit", "miss", "sfo")
                if o["served"] is not None:
                    bools.append(o["served"] == "hit")
                    clean = clean and o["served"] in ("hit", "miss", "sfo")
                want = p in exp
                chk.count([row["cfg"], p], nontrivial=True)
                if clean and all(b == want for b in bools):
                    continue
                detail = {"file": p, "expected_exposed": want, "observed": o}
                d = dev.get(p)
                fcase = dict(case, file={"p": p, "exp": want, "dev": d["dev"] if d else want,
                                         "keys": d["keys"] if d else []})
                if clean and d and d["keys"] and all(b == d["dev"] for b in bools):
                    for k in d["keys"]:
                        chk.violation(fcase, detail, key=_key(k))
                else:
                    chk.violation(fcase, detail)
    chk.sample({"config_case": {"cfg": rows[len(rows) // 2]["cfg"], "exposed": rows[len(rows) // 2]["exp"][:6]}}, limit=3)


# ---------------------------------------------------------------- code -> spec: random sessions
DIRPOOL = ["", "", "sub", "sub/deep", "vendor", "vendor/lib", "x/vendor", "test_x", "k.js", "pkg.py/in", "A/B/C/D"]
DIRPARTS = {p for d in DIRPOOL for p in d.split("/") if p} | {"r0", "r1", "r0x", "zz", "outside.js", "ghost.js"}
STEMS = ["a", "b", "x", "test_a", "w[1]", "a$", "m.min", ".h", "A", "c.tar", "i.d", "v", "a b", "q(1)", "e^", "n|m", "z*",
         "admin", "form_test", "LICENSE", "nodejs", "Makefile"]
EXTS = [".js", ".py", ".css", ".html", ".JS", ".Js", ".tar.gz", ".tarXgz", ".min.js", ".minXjs", ".c++", ".c",
        ".ccc", ".d.ts", ".dXts", ".pyc", ".py~", "", ".map", ".tpl", ".jsx", ".j", ".ts", ".dj", ".django", ".PY",
        ".js.py", ".py.js", ".svg", ".woff", ".jss", "js", ".", ".."]
ALPHA = list("abjspycXJS.+-_ $~[]()") + ["\n"]
CURATED_SFX = [".js", ".py", ".tar.gz", ".min.js", ".c++", ".d.ts", ".JS", ".css", ".html", ".map", ".ts", ".", "..",
               ".j", ".s", ".p.", ".js.", ".a b"]
# plain suffixes, no leading dot: extension without its dot, tail of a stem, part of a multi-dot extension, whole names
PLAIN_SFX = ["js", "py", "_test.js", "_a.js", "min.js", "LICENSE", "Makefile", "s", "y", "gz", "tar.gz", "ss", "JS",
             "est_a.js", "a.js", "a.py", "x.py", "in.min.js", "E", "nodejs", "html", "c++", "1].js", "$.js", "b.css"]


def _rand_name(rnd: random.Random) -> str:
    while True:
        if rnd.random() < 0.75:
            n = rnd.choice(STEMS) + rnd.choice(EXTS)
        else:
            n = "".join(rnd.choice(ALPHA) for _ in range(rnd.randint(1, 8)))
        if rnd.random() < 0.10:
            n += "\n"
        if n in (".", "..") or n in DIRPARTS or "/" in n or not n:
            continue
        return n


def _modelled(s: str) -> bool:
    """Finder!SuffixInScope without the "/" and newline clauses (the caller has them)."""
    if not s.startswith("."):
        return bool(s)                   # a plain suffix: literal, any character
    if s.endswith("++") and len(s) >= 4 and s[-3] != ".":
        return not (set(s[:-2]) & OPCHARS)
    return not (set(s) & OPCHARS)


def _rand_suffix(rnd: random.Random, names: List[str]) -> str:
    for _ in range(50):
        x = rnd.random()
        if x < 0.25 or not names:
            s = rnd.choice(CURATED_SFX)
        elif x < 0.35:
            s = rnd.choice(PLAIN_SFX)
        elif x < 0.55:
            # a plain tail of a generated name, cut anywhere (mostly not at a dot), or the whole name: the name
            # ends with it, and ends with "." + tail only if the cut happens to follow a dot
            n = rnd.choice(names).rstrip("\n")
            if not n:
                continue
            s = n[rnd.randrange(len(n)):] if rnd.random() < 0.75 else n
            if rnd.random() < 0.1:
                s = s.swapcase()
        else:
            n = rnd.choice(names).rstrip("\n")
            dots = [i for i, c in enumerate(n) if c == "."]
            if not dots:
                continue
            s = n[rnd.choice(dots):]
            if len(s) > 2 and rnd.random() < 0.5:
                i = rnd.randrange(1, len(s))
                s = s[:i] + "." + s[i + 1:]          # an inner dot where the name has another character
            if rnd.random() < 0.1:
                s = s.upper() if rnd.random() < 0.5 else s.lower()
        if _modelled(s) and "\n" not in s and "/" not in s:
            return s
    return ".js"


def _rand_list(rnd: random.Random, names: List[str], p_unset: float, p_empty: float) -> Dict[str, Any]:
    x = rnd.random()
    if x < p_unset:
        return {"set": False, "pats": []}
    if x < p_unset + p_empty:
        return {"set": True, "pats": []}
    pats = []
    for _ in range(rnd.randint(1, 3)):
        if rnd.random() < 0.6:
            pats.append({"k": "suffix", "s": _rand_suffix(rnd, names)})
        else:
            pats.append({"k": "regex", "s": rnd.choice(sorted(REGEXES))})
    return {"set": True, "pats": pats}


def _rand_lookup(rnd: random.Random, target: List[str]) -> Tuple[bool, List[str]]:
    """A spelling that ends in a file name (never resolves to a directory of the sandbox)."""
    x = rnd.random()
    if x < 0.08:
        # the request path is normalised by the join: a trailing "/", "/." or "//" still names the file
        return False, target + rnd.choice([[""], ["."], ["", ""], [".", ""]])
    if x < 0.35:
        return False, target
    if x < 0.45:
        return False, ["."] + target
    if x < 0.55:
        return False, ["zz", ".."] + target
    if x < 0.65:
        return True, ["r0"] + target
    if x < 0.72:
        return False, ["..", "r0"] + target
    if x < 0.80:
        return rnd.random() < 0.5, rnd.choice([["..", "outside.js"], ["outside.js"], ["..", "r0x", "a.js"],
                                               ["r0x", "a.js"], ["sub", "..", "..", "outside.js"],
                                               ["r0", "..", "outside.js"], ["r0x", "..", "r0"] + target])
    parts = [rnd.choice([".", "..", "", "sub", "vendor", "r0", "r0x", "zz"]) for _ in range(rnd.randint(1, 4))]
    return rnd.random() < 0.3, parts + target[-1:]


def record_session(rnd: random.Random, tid: int, sbx: Sandbox) -> Dict[str, Any]:
    from django_components.finders import ComponentsFileSystemFinder
    nroots = len(sbx.roots)
    sbx.sync([])
    plan = []
    for _ in range(rnd.randint(4, 16)):
        d = rnd.choice(DIRPOOL)
        n = _rand_name(rnd)
        plan.append((rnd.randrange(nroots), f"{d}/{n}" if d else n))
    names = [p.rsplit("/", 1)[-1] for _, p in plan]
    fo_name = rnd.random() < 0.25
    flist = _rand_list(rnd, names, 0.4, 0.1)
    cfg = {"a": _rand_list(rnd, names, 0.25, 0.05),
           "f": {"set": False, "pats": []} if fo_name else flist,
           "fo": flist if fo_name else {"set": False, "pats": []}}
    events: List[Dict[str, Any]] = []
    with configured(cfg, sbx.roots, as_path=tid % 2 == 0, last_is_app=bool(sbx.app), as_instance=tid % 3 == 1):
        finder = ComponentsFileSystemFinder()          # one finder for the whole session, as Django keeps it

        def observe() -> None:
            events.append({"op": "list", "got": [{"r": r, "p": p} for r, p in sorted(obs_list(finder, sbx))]})
            cands = sorted(sbx.present) + [(0, "ghost.js")]
            for r, p in rnd.sample(cands, min(len(cands), 5)):
                x = rnd.random()
                if x < 0.25 and _servable(p):
                    events.append({"op": "serve", "p": p, "got": obs_serve(sbx, p)})
                elif x < 0.40 or nroots > 1 and x < 0.6:
                    try:
                        res = finder.find(p, all=True)
                        got = sorted(sbx.locate(q)[2] for q in res)
                    except Exception:  # noqa: BLE001
                        got = [-9]
                    events.append({"op": "findall", "p": p, "got": got})
                else:
                    abs_, parts = (False, p.split("/")) if nroots > 1 else _rand_lookup(rnd, p.split("/"))
                    o = obs_find(finder, sbx, sbx.lookup_str(abs_, parts))
                    events.append({"op": "find", "abs": abs_, "parts": parts, "got": o["got"], "rel": o["rel"],
                                   "r": o["r"]})

        pending = list(dict.fromkeys(plan))
        while pending:
            k = rnd.randint(1, 5)
            for r, p in pending[:k]:
                if (r, p) not in sbx.present:
                    sbx.add(r, p)
                    events.append({"op": "add", "r": r, "p": p})
            pending = pending[k:]
            observe()
            if sbx.present and rnd.random() < 0.5:
                for r, p in rnd.sample(sorted(sbx.present), rnd.randint(1, min(3, len(sbx.present)))):
                    sbx.remove(r, p)
                    events.append({"op": "del", "r": r, "p": p})
                observe()
    return {"id": tid, "nroots": nroots, "app_root": bool(sbx.app), "cfg": cfg, "events": events}


def _clauses(s: str) -> List[str]:
    return re.findall(r'"([^"]*)"', s)


def _rejects(out: str, n: int, what: str) -> List[Tuple[int, int, List[str]]]:
    """Parse the verdict lines of a Trace_* run (TLC wraps long tuples over several lines); every
    trace must have an ACCEPT or at least one REJECT."""
    acc = {int(m.group(1)) for m in re.finditer(r'<<\s*"ACCEPT",\s*(\d+)\s*>>', out)}
    rej = [(int(m.group(1)), int(m.group(2)), re.findall(r'"([^"]*)"', m.group(3)))
           for m in re.finditer(r'<<\s*"REJECT",\s*(\d+),\s*(\d+),\s*\{([^}]*)\}\s*>>', out)]
    if acc & {t for t, _, _ in rej} or len(acc | {t for t, _, _ in rej}) != n:
        raise MachineryError(f"{what}: verdicts for {len(acc | {t for t, _, _ in rej})} of {n} traces\n"
                             + "\n".join(out.splitlines()[-30:]))
    return rej



def validate_sessions(chk: Check, n: int, salt: int = 0) -> None:
    rnd = random.Random(chk.seed * 7919 + 17 + salt)
    w = workdir("c17tr")
    boxes = {1: Sandbox("c17t1", 1), 2: Sandbox("c17t2", 2), 3: Sandbox("c17t3", 2, app=True)}
    with installed_app(boxes[3]):
        traces = []
        for i in range(n):
            x = rnd.random()
            traces.append(record_session(rnd, i + 1, boxes[1 if x < 0.6 else 2 if x < 0.8 else 3]))
    f = w / "sessions.ndjson"
    tlc.write_ndjson(f, traces)
    cfg = w / "trace.cfg"
    cfg.write_text("SPECIFICATION TrSpec\nINVARIANT TraceTheorems\n")
    r = tlc.run("Trace_C17", str(cfg), env={"IN": str(f)}, workers=1)
    if r.violated:
        chk.violation({"kind": "session-theorem", "file": str(f)}, {"violated": r.violated,
                                                                   "tlc_tail": r.out.splitlines()[-30:]})
        return
    tlc.require_ok(r, "Trace_C17")
    nev = 0
    for tno, at, clauses in _rejects(r.out, len(traces), "Trace_C17"):
        t = traces[tno - 1]
        if "bad_case" in clauses:
            raise MachineryError(f"Trace_C17: generator produced a configuration outside the model: {t['cfg']}")
        case = {"kind": "session", "nroots": t["nroots"], "app_root": t["app_root"], "cfg": t["cfg"],
                "files_before": [[e["r"], e["p"], e["op"]] for e in t["events"][:at] if e["op"] in ("add", "del")],
                "event": t["events"][at - 1]}
        plain = [c for c in clauses if not c.startswith("dev:")]
        if plain:
            chk.violation(case, {"failing_clauses": clauses})
        else:
            for c in clauses:
                chk.violation(case, {"failing_clauses": clauses}, key=_key(c[4:]))
    for t in traces:
        chk.count([t["cfg"], t["events"]])
        nev += sum(1 for e in t["events"] if e["op"] not in ("add", "del"))
    chk.add("traces_validated_against_impl", len(traces))
    chk.add("trace_observations", nev)
    chk.add("trace_states", r.distinct)
    chk.sample({"session_head": {"cfg": traces[0]["cfg"], "events": traces[0]["events"][:6]}}, limit=6)


# ---------------------------------------------------------------- tiers
def core(chk: Check, tier: str) -> None:
    quick = tier == "quick"
    if quick:
        model_check_trees(chk, max_files=2, small=[1, 2, 8, 9])
    else:
        model_check_trees(chk, max_files=3, small=[1, 2, 8, 9, 17, 19], small_dirs=[1, 2, 3, 4])
    model_check_configs(chk, max_a=1, max_f=1, dirs=[1, 3] if quick else [1, 2, 3, 4, 5], serve=not quick)
    if not quick:
        model_check_configs(chk, max_a=2, max_f=1, dirs=[1, 3], pats=[1, 2, 3, 4, 5, 9, 10, 13, 14, 16])
    validate_sessions(chk, 150 if quick else 1500)


def run(tier: str) -> int:
    from . import boot
    boot.setup()
    chk = Check(PID, tier, "model_checking")
    core(chk, tier)
    chk.cov["exhaustive"] = True
    chk.cov["rule"] = ("every state of MC_C17 (trees x catalogue configurations) and MC_C17K (pattern-pool "
                       "configurations x full pool tree) replayed on the real finder through list / find / serve; "
                       "random sessions validated by Trace_C17. One evaluation = one (configuration, file) pair "
                       "or one session; all are non-trivial; distinct by hash")
    chk.assumptions += [
        "suffix strings are non-empty and hold no '/' or newline (with or without a leading dot, matched as given); "
        "regexes of the catalogue cannot see the sandbox prefix",
        "non-canonical spellings of exposed files may or may not be answered; hidden/outside files never",
        "static_files_forbidden and forbidden_static_files are never set together",
        "TLA+ regex predicates calibrated against Python re on every pool path before use",
        "collectstatic itself is not run (staticfiles app not installed in the harness); finder.list is what it calls",
    ]
    return chk.finish()


# ---------------------------------------------------------------- selftest
def selftest(tier: str) -> int:
    """In-process mutation probes (never touch /repo) + validation of the proposed fix."""
    from . import boot
    from .core import run_probes
    boot.setup()
    import django_components.finders as fi
    from django_components.app_settings import InternalSettings, app_settings, defaults
    from django_components.util.misc import any_regex_match, no_regex_match
    F = fi.ComponentsFileSystemFinder

    @contextmanager
    def patch(obj, name, new):
        old = obj.__dict__[name] if isinstance(obj, type) else getattr(obj, name)
        setattr(obj, name, new)
        try:
            yield
        finally:
            setattr(obj, name, old)

    def pats(lst, fmt=r"{}\Z", flags=0):
        # the library's own translation of a suffix string (re.escape + \Z), varied by the probes
        return [re.compile(fmt.format(re.escape(p)), flags) if isinstance(p, str) else p for p in lst]

    def valid_with(fn):
        return lambda: patch(F, "_is_path_valid", fn)

    def forbid_ignored(self, path):
        return any_regex_match(path, pats(app_settings.STATIC_FILES_ALLOWED))

    def unanchored(self, path):
        return any_regex_match(path, pats(app_settings.STATIC_FILES_ALLOWED, "{}")) and \
            no_regex_match(path, pats(app_settings.STATIC_FILES_FORBIDDEN, "{}"))

    def ignorecase(self, path):
        return any_regex_match(path, pats(app_settings.STATIC_FILES_ALLOWED, flags=re.I)) and \
            no_regex_match(path, pats(app_settings.STATIC_FILES_FORBIDDEN, flags=re.I))

    def basename_only(self, path):
        b = os.path.basename(path)
        return any_regex_match(b, pats(app_settings.STATIC_FILES_ALLOWED)) and \
            no_regex_match(b, pats(app_settings.STATIC_FILES_FORBIDDEN))

    def forbid_all_must_match(self, path):
        fb = pats(app_settings.STATIC_FILES_FORBIDDEN)
        return any_regex_match(path, pats(app_settings.STATIC_FILES_ALLOWED)) and \
            not (fb and all(p.search(path) for p in fb))

    def find_unfiltered():
        def find_location(self, root, path, prefix=None):
            from django.utils._os import safe_join
            path = safe_join(root, path)
            return path if os.path.exists(path) else None
        return patch(F, "find_location", find_location)

    def no_safe_join():
        def find_location(self, root, path, prefix=None):
            path = os.path.join(root, path)
            return path if os.path.exists(path) and self._is_path_valid(path) else None
        return patch(F, "find_location", find_location)

    def prefix_join():
        def find_location(self, root, path, prefix=None):
            from django.core.exceptions import SuspiciousFileOperation
            path = os.path.abspath(os.path.join(root, path))
            if not path.startswith(root):            # forgets the separator: /S/r0x passes for root /S/r0
                raise SuspiciousFileOperation(path)
            return path if os.path.exists(path) and self._is_path_valid(path) else None
        return patch(F, "find_location", find_location)

    def deprecated_ignored():
        return patch(InternalSettings, "STATIC_FILES_FORBIDDEN", property(
            lambda self: self._settings.static_files_forbidden
            if self._settings.static_files_forbidden is not None else defaults.static_files_forbidden))

    def empty_allowed_is_default():
        return patch(InternalSettings, "STATIC_FILES_ALLOWED", property(
            lambda self: self._settings.static_files_allowed or defaults.static_files_allowed))

    def empty_forbidden_is_default():
        return patch(InternalSettings, "STATIC_FILES_FORBIDDEN", property(
            lambda self: self._settings.static_files_forbidden or self._settings.forbidden_static_files
            or defaults.static_files_forbidden))

    def list_first_root_only():
        orig = F.__dict__["list"]

        def lst(self, ignore_patterns):
            first = self.locations[:1]
            saved, self.locations = self.locations, first
            try:
                yield from orig(self, ignore_patterns)
            finally:
                self.locations = saved
        return patch(F, "list", lst)

    def find_first_root_only():
        def find(self, path, all=False):
            for prefix, root in self.locations[:1]:
                m = self.find_location(root, path, prefix)
                if m:
                    return [m] if all else m
            return []
        return patch(F, "find", find)

    def validity_cached():
        cache: Dict[str, bool] = {}
        orig = F.__dict__["_is_path_valid"]

        def valid(self, path):
            k = os.path.basename(path)
            if k not in cache:
                cache[k] = orig(self, path)
            return cache[k]
        return patch(F, "_is_path_valid", valid)

    def app_dirs_not_searched():
        orig = fi.get_component_dirs
        return patch(fi, "get_component_dirs", lambda: orig(include_apps=False))

    def rewritten(fn):
        """Both lists pass through `fn` when the settings are read (the finder itself is untouched)."""
        oa = InternalSettings.__dict__["STATIC_FILES_ALLOWED"]
        of = InternalSettings.__dict__["STATIC_FILES_FORBIDDEN"]

        @contextmanager
        def cm():
            with patch(InternalSettings, "STATIC_FILES_ALLOWED", property(lambda self: fn(oa.fget(self)))), \
                    patch(InternalSettings, "STATIC_FILES_FORBIDDEN", property(lambda self: fn(of.fget(self)))):
                yield
        return cm

    # "lenient" settings normalisation: "js" is taken to mean ".js" (so "_a.js" becomes "._a.js")
    dot_prepended = rewritten(
        lambda v: [f".{p}" if isinstance(p, str) and not p.startswith(".") else p for p in v])
    # the other spelling of the same idea: entries are stored without the dot (".js" then also matches "nodejs")
    dot_stripped = rewritten(lambda v: [p.lstrip(".") if isinstance(p, str) and len(p) > 1 else p for p in v])

    def ext_compare(self, path):
        # a plain suffix is compared with the file's extension / whole base name instead of "ends with"
        b = os.path.basename(path)

        def hit(p):
            return p.search(path) if not isinstance(p, str) else (path.endswith(p) if p.startswith(".") else
                                                                 b == p or os.path.splitext(b)[1] == "." + p)
        return any(hit(p) for p in app_settings.STATIC_FILES_ALLOWED) and \
            not any(hit(p) for p in app_settings.STATIC_FILES_FORBIDDEN)

    probes = [
        ("dot-prepended-to-plain-suffix", dot_prepended),
        ("leading-dot-stripped-from-suffix", dot_stripped),
        ("plain-suffix-compared-as-extension", valid_with(ext_compare)),
        ("app-directories-not-searched", app_dirs_not_searched),
        ("forbidden-list-ignored", valid_with(forbid_ignored)),
        ("suffix-regex-not-anchored", valid_with(unanchored)),
        ("case-insensitive-suffix", valid_with(ignorecase)),
        ("patterns-see-basename-only", valid_with(basename_only)),
        ("forbid-only-if-all-patterns-match", valid_with(forbid_all_must_match)),
        ("find-skips-validity-check", find_unfiltered),
        ("find-without-safe-join", no_safe_join),
        ("find-prefix-check-without-separator", prefix_join),
        ("deprecated-forbidden-name-ignored", deprecated_ignored),
        ("empty-allowed-treated-as-unset", empty_allowed_is_default),
        ("empty-forbidden-treated-as-unset", empty_forbidden_is_default),
        ("list-first-root-only", list_first_root_only),
        ("find-first-root-only", find_first_root_only),
        ("validity-cached-by-basename", validity_cached),
    ]

    def body(chk: Check) -> None:
        model_check_trees(chk, max_files=1, small=[], serve=True)
        model_check_configs(chk, max_a=1, max_f=1, dirs=[3], pats=[1, 2, 4, 9, 14, 16, 18, 19])
        validate_sessions(chk, 60)

    rc = run_probes(PID, probes, body)

    # the proposed repair (proposed_fixes/C17-*.diff), applied in-process: nothing may fail, known or not
    def escaped(lst):
        return [re.compile(re.escape(p) + r"\Z") if isinstance(p, str) else p for p in lst]

    def fixed_valid(self, path):
        return any_regex_match(path, escaped(app_settings.STATIC_FILES_ALLOWED)) and \
            no_regex_match(path, escaped(app_settings.STATIC_FILES_FORBIDDEN))

    class Counting(Check):
        keyed = 0

        def violation(self, case, detail, key=None):
            if key is not None:
                self.keyed += 1
            super().violation(case, detail, key)

    chk = Counting(PID, "quick", "other", silent=True)
    with patch(F, "_is_path_valid", fixed_valid):
        body(chk)
    ok = chk.violations == 0 and chk.keyed == 0
    print(f"  proposed fix (re.escape + \\Z) applied in-process: violations={chk.violations} "
          f"known-finding cases={chk.keyed} -> {'clean' if ok else 'NOT CLEAN'}")
    return rc if ok else 1


# ---------------------------------------------------------------- replay
def _reobserve(ev: Dict[str, Any], finder, sbx: Sandbox) -> Dict[str, Any]:
    ev = dict(ev)
    if ev["op"] == "list":
        ev["got"] = [{"r": r, "p": p} for r, p in sorted(obs_list(finder, sbx))]
    elif ev["op"] == "serve":
        ev["got"] = obs_serve(sbx, ev["p"])
    elif ev["op"] == "findall":
        try:
            ev["got"] = sorted(sbx.locate(q)[2] for q in finder.find(ev["p"], all=True))
        except Exception:  # noqa: BLE001
            ev["got"] = [-9]
    elif ev["op"] == "find":
        o = obs_find(finder, sbx, sbx.lookup_str(ev["abs"], ev["parts"]))
        ev.update(got=o["got"], rel=o["rel"], r=o["r"])
    return ev


def replay(path: str) -> int:
    """Re-run one stored case on the current tree.  Tree / config cases carry the expectation TLC
    exported; a session case is re-recorded and validated by Trace_C17 again."""
    from . import boot
    boot.setup()
    from django_components.finders import ComponentsFileSystemFinder
    d = json.load(open(path))
    case = d["case"]
    chk = Check(PID, "quick", "other", silent=True)
    kind = case.get("kind")
    if kind == "tree":
        replay_tree_row(chk, case["row"], Sandbox("c17rp"))
    elif kind == "config":
        replay_tree_row(chk, {"cid": 0, "cfg": case["cfg"], "files": [case["file"]], "lookups": []}, Sandbox("c17rp"))
    elif kind == "session":
        from contextlib import nullcontext
        sbx = Sandbox("c17rp", case["nroots"], app=case.get("app_root", False))
        evs = []
        for r, p, op in case["files_before"]:
            (sbx.add if op == "add" else sbx.remove)(r, p)
            evs.append({"op": op, "r": r, "p": p})
        with (installed_app(sbx) if sbx.app else nullcontext()), \
                configured(case["cfg"], sbx.roots, last_is_app=bool(sbx.app)):
            evs.append(_reobserve(case["event"], ComponentsFileSystemFinder(), sbx))
        w = workdir("c17rp")
        tlc.write_ndjson(w / "s.ndjson", [{"id": 1, "nroots": case["nroots"], "cfg": case["cfg"], "events": evs}])
        (w / "t.cfg").write_text("SPECIFICATION TrSpec\nINVARIANT TraceTheorems\n")
        r = tlc.require_ok(tlc.run("Trace_C17", str(w / "t.cfg"), env={"IN": str(w / "s.ndjson")}, workers=1), "Trace_C17")
        rej = _rejects(r.out, 1, "Trace_C17")
        print(json.dumps({"event": evs[-1], "verdict": [c for _, _, cl in rej for c in cl] or "ACCEPT"}, indent=1))
        return 1 if any(not c.startswith("dev:") for _, _, cl in rej for c in cl) else 0
    else:
        print("unknown case kind")
        return 2
    print(json.dumps({"violations_not_explained_by_known_deviation": chk.violations}, indent=1))
    return 1 if chk.violations else 0
