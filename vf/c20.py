"""C20 - autodiscovery selects exactly the public modules, with the right import paths.

Oracle: specs/Autodiscover.tla.  `Selected(entry, suffix)` = a *file* whose name ends with the suffix, no
directory part starting with "_", name not starting with "_" unless it is "__init__.py", no part starting
with "."; `DotPath` = prefix (path of the component directory from BASE_DIR, or app package name + app_dirs
entry) and path parts joined by ".", extension removed, final "__init__" dropped; `Loadable` = when Python's
import system loads exactly that file under that dotted path; `Searched(cfg, roots, k)` = WHICH directories are
component directories under a configuration: the elements of COMPONENTS.dirs when it is given (none for the
empty list - "Set to empty list to disable global components directories", ComponentsSettings.dirs), else the
legacy STATICFILES_DIRS when non-empty, else BASE_DIR/components; <app>/<name> for every name of app_dirs
(default "components"; none for the empty list).  Directories that exist but are not searched must contribute
nothing (get_component_files) and must not be imported (autodiscover, start-up).
HOW a directory is written means nothing (Autodiscover!Spells): an element of COMPONENTS.dirs / STATICFILES_DIRS
with a trailing slash, "." or ".." segments (<BASE_DIR>/conf/../comps, <BASE_DIR>/comps/../comps), through a
symbolic link lying in the project, or listed several times under different spellings is ONE component
directory, its files returned once each under the dotted path from the project root; an app_dirs entry is a
path relative to the app ("The paths must be relative to app", ComponentsSettings.app_dirs): "parts/inner",
"components/", "./components" denote <app>/parts/inner, <app>/components and give one dotted-path part per
segment; BASE_DIR spelled with ".." or through a symbolic link is still the project root.
The same for APPS (root.reach): an installed app is the package Python imported under its name and <app>/<path> the
directory that path leads to - an app located through a sys.path entry that is a symbolic link ("lnkapp": S/cur ->
S/rel, only S/cur on sys.path) and an app directory that is itself a symbolic link to a shared directory elsewhere
(S/shared/..., importable under no other name) give the app's files once each under <app>.<path>.<...>, importable,
and autodiscover() is demanded there.

spec -> code: MC_C20 - TLC enumerates every tree of <= MaxEntries entries (11 directories x 21 file names,
              5 explicit directory names incl. a directory called "e.py") x 9 ways of configuring the root
              (COMPONENTS.dirs as str / Path / nested, STATICFILES_DIRS plain and tuple form, the default
              BASE_DIR/components, app_dirs of an app inside BASE_DIR, of a nested app with a custom app_dirs
              name, of an app outside BASE_DIR, a project path containing "[1]") x 4 suffixes (".py", None,
              ".js", ".pyx"), plus 11 SPELLING variants (suffixes ".py", None) over a lighter tree pool (public, "_" and "." entries,
              packages): dirs with "..", STATICFILES_DIRS tuple with "x/../x", the same directory twice as
              Path with "." and str with trailing slash, real path + symbolic link, link only, app_dirs
              "parts/inner", "components/", "./parts/inner", the same app_dirs entry twice, BASE_DIR with ".."
              and through a link, and 4 LINK variants of app directories (app on a linked sys.path entry with
              app_dirs not given / "./ui"; <app>/components and <nested app>/parts/inner being links); checks the theorems (among them: spelling never changes the expected
              result) and exports each state; the harness materialises it,
              calls get_component_files, imports every file the specification calls Loadable and calls
              autodiscover() where the specification says it can be called.
              Second family ("cfg"): thirteen candidate directories (comps, outer/comps, assets, lib/more, the
              default components, eight app directories - one of the app on the linked sys.path entry, one that
              is a link to a shared directory) all exist with the same small tree; every
              combination of COMPONENTS.dirs (not given / [] / one / two incl. tuple form / a directory
              STATICFILES_DIRS lists too / the default directory) x STATICFILES_DIRS (empty / plain / tuple /
              two entries / the default directory) x app_dirs (not given / [] / one / two names) x COMPONENTS
              written as dict / dict with None / ComponentsSettings is exported with the expected result;
              3 more dirs lists, 2 more STATICFILES_DIRS lists (spelled with "..", "/", ".", through links,
              the same directory up to twice) and 3 more app_dirs lists (multi-segment, trailing slash, "./",
              repeated) crossed with every other choice, and BASE_DIR spelled with ".." / through a link
              crossed with a selection.
              A sample of the exported cases is started for real (fresh interpreter, autodiscover=True):
              one per root variant and one per stratum dirs {not given, [], non-empty} x STATICFILES_DIRS
              {empty, non-empty}.
code -> spec: seeded random sessions with several candidate directories at once (listed in COMPONENTS.dirs,
              in STATICFILES_DIRS, in both, the default directory, app directories, directories mentioned
              nowhere) under a random configuration (dirs not given / [] / non-empty x STATICFILES_DIRS empty /
              non-empty x app_dirs not given / [] / names; str, Path, (prefix, path) forms), deeper trees,
              entries created and removed between scans, a directory listed twice, `load` and `autodiscover`
              events; every listed path under a random spelling, symbolic links, repeated mentions, multi-
              segment / decorated / repeated app_dirs entries, a spelled BASE_DIR, app directories of the app
              on the linked sys.path entry and app directories that are links (30%); validated in one TLC batch
              by Trace_C20.

Everything runs in-process: get_component_files reads settings lazily, so BASE_DIR / COMPONENTS /
STATICFILES_DIRS are re-pointed per case; the three generated apps are installed once with
override_settings(INSTALLED_APPS=...).  sys.modules / sys.path / importer caches are cleaned after each case.

Not determined by the property, therefore not demanded:
  * the dotted path of entries with a dot in a directory name or in the stem ("a.b.py", "d.ot/x.py"):
    only their selection is compared (Autodiscover!DotDetermined);
  * names with consecutive dots or a trailing dot ("a..b.py"; the code drops them on purpose), suffixes
    without a leading dot or with glob metacharacters, an empty prefix (component dir == BASE_DIR),
    component dirs outside BASE_DIR, overlapping/nested component dirs (hence no app_dirs entry inside
    another one), symbolic links INSIDE a component directory or outside the project, ".." in app_dirs
    entries, app_dirs entries that are not str: never generated;
  * the dotted path of a file whose directory the configuration names through a symbolic link: Python can
    import it from the project root through the real location and through the link, the property does not say
    which - both are admitted (Autodiscover!DotPaths), each file still exactly once, and autodiscover() is not
    called in such a configuration;
  * importability is only demanded where Python's import system determines it (Loadable: no module file
    shadowing a package directory of the same name, ...);
  * entries of django_components' own `components` app directory are projected away;
  * the order of the result.

Known deviations, classified by the specification (Autodiscover.tla, "named deviations"):
  directory-matches-suffix:returned-as-file   - directories are returned as entries;
  root-path-has-glob-metachar:nothing-found   - the root path is pasted unescaped into the glob pattern;
  app_dirs-entry-repeated:files-returned-once-per-entry - app directories are searched once per app_dirs entry;
  base-dir-not-normalised:ValueError          - dotted paths are computed relative to str(BASE_DIR) as written
                                                while the component directories are resolve()d.
A failing observation is compared with the prediction of every non-empty set of triggered deviations
(Autodiscover!DevAlternatives); autodiscover() is not demanded where a deviation is triggered.
"""
from __future__ import annotations

import importlib
import json
import os
import random
import re
import shutil
import sys
from contextlib import contextmanager
from pathlib import Path
from typing import Any, Dict, Iterable, List, Optional, Tuple

from . import tlc
from .core import Check, MachineryError, workdir

PID = "C20"
N_DIRS, N_FILES, N_DIRNAMES, N_VARIANTS, N_SFX = 11, 21, 5, 24, 4
LIGHT_VARIANTS = list(range(10, 25))        # the spelling / link variants of MC_C20!Variants: trees over LIGHT_CODES only
LIGHT_EXTRA = [104, 501, 401, 102, 107, 10201]
# (app name, where the package really lies); "lnkapp" lies in S/rel, which is on sys.path only as the symbolic
# link S/cur -> S/rel (Autodiscover: reach "pathlink")
APPS = (("genapp", ("proj", "genapp")), ("pk.napp", ("proj", "pk", "napp")), ("extapp", ("site", "extapp")),
        ("lnkapp", ("rel", "lnkapp")))
PATHLINK_APPS = (["lnkapp"],)
APP_TOPS = tuple(sorted({n.split(".")[0] for n, _ in APPS}))
APP_KEEP = sorted({".".join(n.split(".")[:i]) for n, _ in APPS for i in range(1, len(n.split(".")) + 1)}
                  | {n + ".apps" for n, _ in APPS})
PURGE_TOPS = ("comps", "outer", "assets", "components", "lib", "ui", "lnk", "conf")


def _set(xs: Iterable[int]) -> str:
    return "{" + ",".join(str(x) for x in xs) + "}"


def _spelled(base: str, root: Dict[str, Any], spell: str) -> str:
    """The absolute path of a project directory under a spelling (Autodiscover!Spells); `base` is BASE_DIR as
    the configuration spells it."""
    pre = root["prefix"]
    if spell == "alias":
        if not root.get("alias"):
            raise MachineryError(f"a mention through a link of a root without link: {root}")
        return os.path.join(base, *root["alias"])
    if spell == "slash":
        return os.path.join(base, *pre) + "/"
    if spell == "dot":
        return os.path.join(base, *pre[:-1], ".", pre[-1])
    if spell == "dotdot":
        return os.path.join(base, "conf", "..", *pre)
    if spell == "updown":
        return os.path.join(base, *pre, "..", pre[-1])
    if spell != "plain":
        raise MachineryError(f"unknown spelling {spell!r}")
    return os.path.join(base, *pre)


def _written(s: str, form: str) -> Any:
    """How a directory (its spelled path `s`) is written in COMPONENTS.dirs / STATICFILES_DIRS."""
    if form == "path":
        return Path(s)
    if form == "tuple":
        return ("pfx", s)
    if form == "tuple-path":
        return ("pfx", Path(s))
    return s


def _app_entry(e: Dict[str, Any]) -> str:
    """An app_dirs entry [segs, spell] as the string written in the settings."""
    s = "/".join(e["segs"])
    return {"plain": s, "slash": s + "/", "dot": "./" + s}[e["spell"]]


# ---------------------------------------------------------------- the world
class World:
    """S/proj (BASE_DIR) with apps genapp and pk.napp, S/pr[1]j (BASE_DIR with glob metacharacters),
    S/site/extapp (an app outside BASE_DIR).  Apps are installed once for the whole run."""

    def __init__(self) -> None:
        from django.test.utils import override_settings
        sys.dont_write_bytecode = True
        self.S = workdir("c20w").resolve()
        self.proj = self.S / "proj"
        self.projb = self.S / "pr[1]j"
        self.site = self.S / "site"
        for d in (self.proj, self.projb, self.site):
            d.mkdir()
        for d in (self.proj, self.projb):
            (d / "conf").mkdir()             # the settings directory: <BASE_DIR>/conf/.. is BASE_DIR
            (d / "lnk").mkdir()              # symbolic links to component directories live here
        os.symlink(self.proj, self.S / "pl")          # BASE_DIR through a link
        os.symlink(self.projb, self.S / "plb")
        for name, rel in APPS:
            p = self.S.joinpath(*rel)
            p.mkdir(parents=True)
            (p / "__init__.py").write_text("")
            (p / "apps.py").write_text(
                f"from django.apps import AppConfig\n\n\nclass Cfg(AppConfig):\n    name = {name!r}\n")
        (self.proj / "pk" / "__init__.py").write_text("")
        os.symlink(self.S / "rel", self.S / "cur")    # the sys.path entry through which lnkapp is located
        (self.S / "shared").mkdir()                   # targets of app directories that are links (not importable)
        self.links: List[Path] = []                   # app directories of the current case that are symbolic links
        self.paths = [str(self.proj), str(self.projb), str(self.site), str(self.S / "cur")]
        sys.path[:0] = self.paths
        self._ov = override_settings(INSTALLED_APPS=("django_components",) + tuple(n for n, _ in APPS))
        self._ov.enable()
        self.active: List[Path] = []          # root directories of the current case, index k-1
        self.materialised: Optional[str] = None   # signature of the directories + trees replay_row left on disk

    def close(self) -> None:
        self._ov.disable()
        self.purge()
        for p in self.paths:
            if p in sys.path:
                sys.path.remove(p)
            sys.path_importer_cache.pop(p, None)

    # -- roots ---------------------------------------------------------
    def root_dir(self, root: Dict[str, Any]) -> Path:
        """Where a root of the abstract case lives: derived from kind and prefix."""
        pre = root["prefix"]
        if root["kind"] == "app":
            if (root.get("reach", "plain") == "pathlink") != (root["app"] in PATHLINK_APPS):
                raise MachineryError(f"reach of an app root does not fit the generated app: {root}")
            if root.get("reach", "plain") == "dirlink":          # the real directory; <app>/<path> is a link to it (reset)
                return self.S / "shared" / "_".join(pre)
            return self.app_dir(root)
        return (self.projb if root["globmeta"] else self.proj).joinpath(*pre)

    def app_dir(self, root: Dict[str, Any]) -> Path:
        """<app>/<path> at the real location of the app package."""
        pre = root["prefix"]
        for name, rel in APPS:
            pk = name.split(".")
            if root["app"] == pk and pre[:len(pk)] == pk and len(pre) > len(pk):
                return self.S.joinpath(*rel).joinpath(*pre[len(pk):])
        raise MachineryError(f"no generated app for prefix {pre}")

    def base_dir(self, bracket: bool, spell: str) -> Path:
        """BASE_DIR as the configuration spells it."""
        real = self.projb if bracket else self.proj
        if spell == "dotdot":
            return Path(os.path.join(str(real), "conf", ".."))
        if spell == "alias":
            return self.S / ("plb" if bracket else "pl")
        return real

    def reset(self, roots: List[Dict[str, Any]]) -> None:
        """Remove every root of the previous case, create the (empty) roots of this one."""
        self.materialised = None
        for ln in self.links:
            ln.unlink()
        self.links = []
        for d in self.active:
            shutil.rmtree(d, ignore_errors=True)
        for base in (self.proj, self.projb):
            for top in ("comps", "outer", "assets", "components", "lib", "ui"):
                shutil.rmtree(base / top, ignore_errors=True)
            for ln in (base / "lnk").iterdir():
                ln.unlink()
        self.active = [self.root_dir(r) for r in roots]
        if len(set(self.active)) != len(self.active):
            raise MachineryError("two roots of a case share a directory")
        for d in self.active:
            d.mkdir(parents=True)
        for r, d in zip(roots, self.active):
            if r["kind"] == "app" and r.get("reach", "plain") == "dirlink":
                ln = self.app_dir(r)
                ln.parent.mkdir(parents=True, exist_ok=True)
                os.symlink(d, ln)
                self.links.append(ln)
            if r.get("alias"):
                ln = (self.projb if r["globmeta"] else self.proj).joinpath(*r["alias"])
                if ln.parent.name != "lnk" or r["kind"] != "dirs":
                    raise MachineryError(f"link of a root not understood: {r}")
                os.symlink(d, ln)

    def mk(self, k: int, kind: str, parts: List[str]) -> None:
        p = self.active[k - 1].joinpath(*parts)
        if kind == "dir":
            p.mkdir(parents=True, exist_ok=True)
        else:
            p.parent.mkdir(parents=True, exist_ok=True)
            p.write_text("VF_FILE = __file__\n" if p.name.endswith(".py") else "x\n")

    def rm(self, k: int, kind: str, parts: List[str], keep: set) -> None:
        """Remove an entry and the parent directories no remaining entry needs (`keep` = their paths)."""
        root = self.active[k - 1]
        p = root.joinpath(*parts)
        if kind == "dir":
            if tuple(parts) not in keep:
                p.rmdir()
        else:
            p.unlink()
        for i in range(len(parts) - 1, 0, -1):
            if tuple(parts[:i]) in keep:
                break
            try:
                root.joinpath(*parts[:i]).rmdir()
            except OSError:
                break

    def locate(self, filepath: str) -> Tuple[int, List[str]]:
        """(root number, path below it) of a file given by its REAL path (links and ".." resolved)."""
        best = (0, [filepath])
        for i, d in enumerate(self.active):
            pre = str(d) + os.sep
            if filepath.startswith(pre):
                best = (i + 1, filepath[len(pre):].split(os.sep))
        return best

    # -- settings ------------------------------------------------------
    def settings_for(self, roots: List[Dict[str, Any]], cfg: Dict[str, Any], dup_first: bool = False) -> Dict[str, Any]:
        """BASE_DIR / COMPONENTS / STATICFILES_DIRS that say what the abstract case says: COMPONENTS.dirs is the
        list of the "dirs" mentions of the roots (each under its spelling) when cfg.dirs is "set" (possibly empty)
        and is not given otherwise, STATICFILES_DIRS the list of "static" mentions, app_dirs the entries
        cfg.appnames (as spelled) when cfg.appdirs is "set", BASE_DIR the project directory spelled cfg.base.  cfg.form: COMPONENTS as a dict, a dict with None for what is not given, or a ComponentsSettings."""
        comp: Dict[str, Any] = {"autodiscover": False}
        dirs: List[Any] = []
        static: List[Any] = []
        bracket = any(r["globmeta"] for r in roots)
        base = self.base_dir(bracket, cfg.get("base", "plain"))
        for r in roots:
            if r["kind"] == "app":
                continue
            if r["globmeta"] != bracket:
                raise MachineryError("project directories of one case under two BASE_DIRs")
            for m in r["src"]:
                if m["in"] in ("dirs", "static"):
                    (dirs if m["in"] == "dirs" else static).append(
                        _written(_spelled(str(base), r, m.get("spell", "plain")), m["form"]))
                elif m["in"] != "default" or r["prefix"] != ["components"]:
                    raise MachineryError(f"root mention not understood: {r}")
        if dup_first and dirs:
            first = dirs[0][1] if isinstance(dirs[0], tuple) else dirs[0]
            dirs.append(Path(first) if isinstance(first, str) else str(first))
        if cfg["dirs"] == "set":
            comp["dirs"] = dirs
        elif dirs:
            raise MachineryError("a COMPONENTS.dirs entry in a configuration without COMPONENTS.dirs")
        elif cfg["form"] == "dict-none":
            comp["dirs"] = None
        if cfg["appdirs"] == "set":
            comp["app_dirs"] = [_app_entry(e) for e in cfg["appnames"]]
        elif cfg["form"] == "dict-none":
            comp["app_dirs"] = None
        return {"BASE_DIR": base, "COMPONENTS": comp, "STATICFILES_DIRS": static, "form": cfg["form"]}

    @contextmanager
    def configured(self, roots: List[Dict[str, Any]], cfg: Dict[str, Any], dup_first: bool = False):
        from django.conf import settings
        old = (settings.BASE_DIR, settings.COMPONENTS, settings.STATICFILES_DIRS)
        st = self.settings_for(roots, cfg, dup_first)
        comp = st["COMPONENTS"]
        if st["form"] == "object":
            from django_components import ComponentsSettings
            comp = ComponentsSettings(**comp)
        settings.BASE_DIR, settings.COMPONENTS, settings.STATICFILES_DIRS = \
            st["BASE_DIR"], comp, st["STATICFILES_DIRS"]
        try:
            yield
        finally:
            settings.BASE_DIR, settings.COMPONENTS, settings.STATICFILES_DIRS = old

    # -- imports -------------------------------------------------------
    def purge(self) -> None:
        keep = set(APP_KEEP)
        for m in list(sys.modules):
            top = m.split(".")[0]
            if m in keep:
                continue
            if top in PURGE_TOPS or top in APP_TOPS:
                del sys.modules[m]
        importlib.invalidate_caches()

    def load(self, dot: str, filepath: Path) -> str:
        """import_module(dot): 'same' if it loaded exactly `filepath`, 'other', or 'fail:<exc>'."""
        self.purge()
        try:
            mod = importlib.import_module(dot)
            f = getattr(mod, "__file__", None)
            return "same" if f and os.path.realpath(f) == os.path.realpath(str(filepath)) else "other"
        except BaseException as e:  # noqa: BLE001
            return "fail:" + type(e).__name__
        finally:
            self.purge()


# ---------------------------------------------------------------- observation
def obs_scan(world: World, sfx: str) -> List[Dict[str, Any]]:
    from django_components import get_component_files
    rows = []
    pre = str(world.S) + os.sep
    for e in get_component_files(sfx or None):
        fp = str(e.filepath)
        if not fp.startswith(pre):
            continue                          # django_components' own components/ directory
        k, parts = world.locate(os.path.realpath(fp))     # a file is the same file under every spelling of its path
        rows.append({"k": k, "parts": parts, "dot": e.dot_path})
    rows.sort(key=lambda r: (r["k"], r["parts"]))
    return rows


def obs_auto(world: World) -> Dict[str, Any]:
    from django_components import autodiscover
    world.purge()
    try:
        names = [n for n in autodiscover() if not n.startswith("django_components.")]
        loaded = []
        for n in names:
            f = getattr(sys.modules.get(n), "__file__", None)
            k, parts = world.locate(os.path.realpath(f)) if f else (0, [])
            loaded.append({"dot": n, "k": k, "parts": parts})
        return {"got": names, "loaded": loaded}
    except BaseException as e:  # noqa: BLE001
        return {"got": ["<" + type(e).__name__ + ">"], "loaded": []}
    finally:
        world.purge()


def scan_or_raise(world: World, sfx: str) -> List[Dict[str, Any]]:
    """obs_scan; an exception is recorded as one row of root 0 (Autodiscover!Raised)."""
    try:
        return obs_scan(world, sfx)
    except Exception as e:  # noqa: BLE001  (the specification never raises)
        return [{"k": 0, "parts": ["<" + type(e).__name__ + ">"], "dot": ""}]


def agrees(got: List[Dict[str, Any]], rows: List[Dict[str, Any]]) -> bool:
    """Python twin of Trace_C20!Agrees (comparison only): the same files, each as often as the row says (the
    specification: once), an admitted dotted path where the specification determines it."""
    g: Dict[Tuple[int, Tuple[str, ...]], int] = {}
    for r in got:
        key = (r["k"], tuple(r["parts"]))
        g[key] = g.get(key, 0) + 1
    want = {(r["k"], tuple(r["parts"])): r for r in rows}
    if set(g) != set(want) or any(g[k] != want[k]["n"] for k in want):
        return False
    return all(not want[(r["k"], tuple(r["parts"]))]["cmpdot"] or r["dot"] in want[(r["k"], tuple(r["parts"]))]["dots"]
               for r in got)


# ---------------------------------------------------------------- spec -> code
_exports: Dict[str, Tuple[List[Any], int, int]] = {}


def replay_row(chk: Check, world: World, row: Dict[str, Any]) -> None:
    roots = row["roots"]
    # consecutive cases over the same directories and trees (the configuration family) share the files on disk
    sig = json.dumps([[[str(world.root_dir(r)), r.get("alias"), r.get("reach", "plain")] for r in roots],
                      [sorted([e["kind"], e["parts"]] for e in t) for t in row["trees"]]])
    if world.materialised != sig:
        world.reset(roots)
        for k, tree in enumerate(row["trees"], 1):
            for e in tree:
                world.mk(k, e["kind"], e["parts"])
        world.materialised = sig
    case = {"kind": "tree", "row": row}
    nontrivial = bool(row["exp"]) or any(row["trees"])
    chk.count([row["label"], row["cfg"], [[r["prefix"], r["src"]] for r in roots], row["sfx"], row["trees"]],
              nontrivial=nontrivial)
    with world.configured(roots, row["cfg"]):
        got = scan_or_raise(world, row["sfx"])
        if not agrees(got, row["exp"]):
            detail = {"suffix": row["sfx"] or None, "expected": row["exp"], "observed": got,
                      "searched_roots": row["active"]}
            # a named deviation (or several at once) predicts exactly this outcome: known finding(s)
            hits = sorted((a for a in row["devs"] if agrees(got, a["rows"])), key=lambda a: (len(a["keys"]), a["keys"]))
            if hits:
                for k in hits[0]["keys"]:
                    chk.violation(case, detail, key=k)
            else:
                chk.violation(case, detail)
            if got and got[0]["k"] == 0 and got[0]["parts"][0].startswith("<"):
                return
        for e in row["load"]:
            chk.add("imports_checked")
            res = world.load(e["dot"], world.active[e["k"] - 1].joinpath(*e["parts"]))
            if res != "same":
                chk.violation(case, {"stage": "import", "dot_path": e["dot"], "file": e["parts"], "result": res})
        if row["auto"] and row["sfx"] == ".py":
            chk.add("autodiscover_calls")
            a = obs_auto(world)
            want = sorted(r["dot"] for r in row["expauto"])
            okl = all(any(r["k"] == m["k"] and r["parts"] == m["parts"] and r["dot"] == m["dot"] for r in row["expauto"])
                      for m in a["loaded"])
            if sorted(a["got"]) != want or not okl:
                chk.violation(case, {"stage": "autodiscover", "expected_modules": want, "observed": a})


def model_check_and_replay(chk: Check, world: World, max_entries: int, small: List[int],
                           variants: Optional[List[int]] = None, sfx: Optional[List[int]] = None,
                           codes: Optional[List[int]] = None, cfg_sfx: Optional[List[int]] = None,
                           spelled_cfg_sfx: Optional[List[int]] = None) -> None:
    w = workdir("c20mc")
    if codes is None:
        codes = [d * 100 + n for d in range(1, N_DIRS + 1) for n in range(1, N_FILES + 1)] + \
                [10000 + d * 100 + n for d in range(1, N_DIRS + 1) for n in range(1, N_DIRNAMES + 1)]
    cfg, out = w / "mc.cfg", w / "cases.ndjson"
    cfg.write_text(
        "SPECIFICATION MCSpec\nCONSTANTS\n"
        f"  VarIdx = {_set(variants or range(1, N_VARIANTS + 1))}\n  SfxIdx = {_set(sfx or range(1, N_SFX + 1))}\n"
        f"  Codes = {_set(codes)}\n  SmallCodes = {_set(small)}\n  MaxEntries = {max_entries}\n"
        f"  CfgSfxIdx = {_set([1, 2] if cfg_sfx is None else cfg_sfx)}\n"
        f"  SpelledCfgSfxIdx = {_set([1] if spelled_cfg_sfx is None else spelled_cfg_sfx)}\n"
        f"  LightSfxIdx = {_set(sorted({1, 2} & set(sfx or range(1, N_SFX + 1))))}\n"
        f"  LightVarIdx = {_set(LIGHT_VARIANTS)}\n  LightCodes = {_set(sorted(set(SMALL_QUICK + LIGHT_EXTRA) & set(codes)))}\n"
        "INVARIANT Theorems\nINVARIANT Export\n")
    key = cfg.read_text()
    if key not in _exports:
        r = tlc.require_ok(tlc.run("MC_C20", str(cfg), env={"OUT": str(out)}, workers=1), "MC_C20")
        rows = tlc.read_ndjson(out)
        if not rows or len(rows) > r.distinct:
            raise MachineryError(f"MC_C20 export inconsistent: {len(rows)} rows for {r.distinct} states")
        _exports[key] = (rows, r.distinct, r.generated)
    rows, distinct, generated = _exports[key]
    chk.add("states", distinct)
    chk.add("transitions", generated)
    chk.add("tree_cases_replayed", sum(1 for r in rows if r["label"] != "cfg"))
    chk.add("configuration_cases_replayed", sum(1 for r in rows if r["label"] == "cfg"))
    chk.add("states_skipped_not_well_formed", distinct - len(rows))
    for row in rows:
        replay_row(chk, world, row)
    for row in rows:
        if row["label"] != "cfg" and len(row["trees"][0]) >= 2 and row["exp"]:
            chk.sample({"tree_case": {k: row[k] for k in ("roots", "cfg", "sfx", "trees", "exp", "load", "auto")}}, limit=2)
            break
    for row in rows:
        if row["label"] == "cfg" and row["cfg"]["dirs"] == "set" and not row["exp"] and \
                any(r["src"] for r in row["roots"]):
            chk.sample({"configuration_case": {"cfg": row["cfg"], "sfx": row["sfx"], "searched_roots": row["active"],
                                               "roots": [[r["prefix"], r["src"]] for r in row["roots"]],
                                               "exp": row["exp"]}}, limit=4)
            break


# ---------------------------------------------------------------- real start-up (subprocess)
_STARTUP = r"""
import json, os, sys
from pathlib import Path
spec = json.load(open(sys.argv[1]))
sys.dont_write_bytecode = True
sys.path[:0] = spec["syspath"]
def dec(x):
    if isinstance(x, dict):
        return Path(x["path"]) if "path" in x else tuple(dec(v) for v in x["tuple"])
    if isinstance(x, list):
        return [dec(v) for v in x]
    return x
import django
from django.conf import settings
comp = {k: dec(v) for k, v in spec["COMPONENTS"].items()}
comp["autodiscover"] = True
if spec["form"] == "object":
    from django_components import ComponentsSettings
    comp = ComponentsSettings(**comp)
settings.configure(BASE_DIR=dec(spec["BASE_DIR"]), SECRET_KEY="x", INSTALLED_APPS=spec["apps"], COMPONENTS=comp,
                   STATICFILES_DIRS=dec(spec["STATICFILES_DIRS"]), DATABASES={}, USE_TZ=True,
                   TEMPLATES=[{"BACKEND": "django.template.backends.django.DjangoTemplates", "DIRS": [],
                               "OPTIONS": {"builtins": ["django_components.templatetags.component_tags"]}}])
try:
    django.setup()                      # AppConfig.ready() -> autodiscover()
    out = {"error": None}
except BaseException as e:
    out = {"error": type(e).__name__ + ": " + str(e)[:200]}
pre = spec["S"] + os.sep
mods = []
for name, m in sorted(sys.modules.items()):
    f = getattr(m, "__file__", None)
    if f and os.path.realpath(f).startswith(pre) and name not in spec["ignore"]:
        mods.append([name, os.path.realpath(f)])
out["modules"] = mods
print("VFSTARTUP " + json.dumps(out))
"""


def _enc(x: Any) -> Any:
    if isinstance(x, Path):
        return {"path": str(x)}
    if isinstance(x, tuple):
        return {"tuple": [_enc(v) for v in x]}
    if isinstance(x, list):
        return [_enc(v) for v in x]
    return x


def startup_probe(chk: Check, world: World, row: Dict[str, Any], script: Path) -> None:
    """A fresh interpreter, COMPONENTS.autodiscover=True: after django.setup() exactly the files the
    specification selects for ".py" must have been imported, each under its dotted path."""
    import subprocess
    roots = row["roots"]
    world.reset(roots)
    for k, tree in enumerate(row["trees"], 1):
        for e in tree:
            world.mk(k, e["kind"], e["parts"])
    st = world.settings_for(roots, row["cfg"])
    spec = {"form": st["form"], "syspath": world.paths, "S": str(world.S), "apps": ["django_components"] + [n for n, _ in APPS],
            "ignore": APP_KEEP,
            "BASE_DIR": _enc(st["BASE_DIR"]), "COMPONENTS": {k: _enc(v) for k, v in st["COMPONENTS"].items()},
            "STATICFILES_DIRS": _enc(st["STATICFILES_DIRS"])}
    sp = script.with_suffix(".json")
    sp.write_text(json.dumps(spec))
    env = dict(os.environ, PYTHONHASHSEED="0", PYTHONDONTWRITEBYTECODE="1")
    p = subprocess.run([sys.executable, str(script), str(sp)], capture_output=True, text=True, timeout=120, env=env)
    line = [l for l in p.stdout.splitlines() if l.startswith("VFSTARTUP ")]
    if not line:
        raise MachineryError(f"start-up subprocess produced no result:\n{p.stdout[-500:]}\n{p.stderr[-1500:]}")
    out = json.loads(line[-1][len("VFSTARTUP "):])
    got = sorted((n, world.locate(f)[0], tuple(world.locate(f)[1])) for n, f in out["modules"])
    want = sorted((r["dot"], r["k"], tuple(r["parts"])) for r in row["expauto"])
    chk.add("startup_subprocess_cases")
    chk.count(["startup", row["label"], row["cfg"], [[r["prefix"], r["src"]] for r in roots], row["trees"]])
    # packages executed on the way (an __init__.py of a parent directory) are themselves selected files,
    # so the imported set must be exactly the selected set
    if out["error"] or got != want:
        chk.violation({"kind": "startup", "row": row},
                      {"stage": "django.setup() with autodiscover=True", "error": out["error"],
                       "expected_modules": want, "imported_modules": got})


def _stratum(r: Dict[str, Any]) -> str:
    """Sampling stratum of an exported case (which cases get a real start-up; expectations stay TLC's):
    the root variant (the spelling variants together: project directories / app directories), or for the
    configuration family COMPONENTS.dirs not given / empty / non-empty crossed
    with STATICFILES_DIRS empty / non-empty, and the configurations with spelled paths (dirs given / not)."""
    spelled = r["cfg"]["base"] != "plain" or any(m["spell"] != "plain" for x in r["roots"] for m in x["src"]) or \
        any(e["spell"] != "plain" or len(e["segs"]) > 1 for e in r["cfg"]["appnames"])
    if r["label"] != "cfg":
        return "spelled:" + r["roots"][0]["kind"] if spelled else r["label"]
    if spelled:
        return "cfg:spelled:dirs-" + r["cfg"]["dirs"]
    listed = any(m["in"] == "dirs" for x in r["roots"] for m in x["src"])
    static = any(m["in"] == "static" for x in r["roots"] for m in x["src"])
    return "cfg:dirs-%s:static-%s" % ("unset" if r["cfg"]["dirs"] == "unset" else "nonempty" if listed else "empty",
                                      "nonempty" if static else "empty")


def startup_checks(chk: Check, world: World, n: int) -> None:
    """Sample exported cases in which the specification says autodiscover() is determined: n spread over
    the root variants (with a non-empty expectation), and max(1, n // 8) of every configuration stratum."""
    rows = [r for rows, _, _ in _exports.values() for r in rows
            if r["auto"] and r["sfx"] == ".py" and (r["exp"] or r["label"] == "cfg")]
    rnd = random.Random(chk.seed * 31 + 2020)
    by_stratum: Dict[str, List[Any]] = {}
    for r in rows:
        by_stratum.setdefault(_stratum(r), []).append(r)
    script = workdir("c20su") / "startup.py"
    script.write_text(_STARTUP)
    picked = []
    nvar = max(1, sum(1 for k in by_stratum if not k.startswith("cfg:")))
    for sid in sorted(by_stratum):
        want = max(1, n // 8) if sid.startswith("cfg:") else max(1, n // nvar)
        picked += rnd.sample(by_stratum[sid], min(len(by_stratum[sid]), want))
    for r in picked:
        startup_probe(chk, world, r, script)


# ---------------------------------------------------------------- code -> spec: random sessions
PROJ_CANDS = [["comps"], ["outer", "comps"], ["lib", "ui", "c"], ["assets"], ["lib", "more"], ["components"]]
# (app package, app_dirs path): no path is a proper prefix of another one, and no first segment of a
# multi-segment path ("parts", "sec") is itself a path - component directories never nest
APP_CANDS = [(["genapp"], ["components"]), (["pk", "napp"], ["components"]), (["extapp"], ["components"]),
             (["genapp"], ["ui"]), (["pk", "napp"], ["ui"]), (["extapp"], ["widgets"]),
             (["extapp"], ["parts", "inner"]), (["pk", "napp"], ["parts", "inner"]), (["genapp"], ["sec", "w"]),
             (["lnkapp"], ["components"]), (["lnkapp"], ["ui"]), (["lnkapp"], ["parts", "inner"])]
APP_PATHS = [["components"], ["ui"], ["widgets"], ["parts", "inner"], ["sec", "w"]]
APP_SPELLS = ["plain", "plain", "slash", "dot"]
FORMS = ["str", "str", "path", "tuple", "tuple-path"]
SPELLS = ["plain", "plain", "plain", "slash", "dot", "dotdot", "updown"]


def pick_config(rnd: random.Random, clean: bool = False) -> Tuple[List[Dict[str, Any]], Dict[str, Any]]:
    """Candidate directories (all of them will exist and get files) and a configuration that mentions some of
    them: COMPONENTS.dirs not given / given empty / given non-empty, crossed with STATICFILES_DIRS empty /
    non-empty (plain and tuple form), app_dirs not given / empty / entries, the default BASE_DIR/components
    present or not, directories mentioned nowhere, COMPONENTS written as dict / dict with None / object.
    Every listed path under a random spelling (trailing slash, "." / ".." segments, through a symbolic link),
    possibly listed twice under two spellings; app_dirs entries single- and multi-segment, with trailing slash
    or leading "./", possibly repeated; BASE_DIR spelled with ".." or through a link.  `clean` sessions (in
    which autodiscover() is called) avoid what leaves autodiscover() undetermined (Trace_C20!AutoOK): links,
    repeated app_dirs entries, a spelled BASE_DIR."""
    form = rnd.choice(["dict", "dict", "dict-none", "object"])
    if rnd.random() < 0.06:
        # a project path with glob metacharacters
        return ([{"id": "dirs-bracket", "kind": "dirs", "prefix": ["comps"], "app": [], "alias": [], "globmeta": True,
                  "reach": "plain",
                  "src": [{"in": "dirs", "form": "str", "spell": rnd.choice(["plain", "slash", "dotdot"])}]},
                 {"id": "app", "kind": "app", "prefix": ["extapp", "components"], "app": ["extapp"], "alias": [],
                  "globmeta": False, "src": [], "reach": "plain"}],
                {"dirs": "set", "appdirs": "unset", "appnames": [], "form": form, "base": "plain"})
    cands = rnd.sample(PROJ_CANDS, rnd.randint(1, 4))
    dirs_state = rnd.choice(["unset", "unset", "empty", "nonempty", "nonempty", "nonempty"])
    static_state = rnd.choice(["empty", "empty", "nonempty", "nonempty", "nonempty"] if dirs_state != "nonempty"
                              else ["empty", "empty", "nonempty"])
    in_dirs = {i for i in range(len(cands)) if rnd.random() < 0.5} | {rnd.randrange(len(cands))} \
        if dirs_state == "nonempty" else set()
    in_static = {i for i in range(len(cands)) if rnd.random() < 0.4} | {rnd.randrange(len(cands))} \
        if static_state == "nonempty" else set()
    roots = []
    for i, pre in enumerate(cands):
        alias = ["lnk", "l%d" % i] if rnd.random() < 0.35 else []
        spells = SPELLS + (["alias", "alias", "alias"] if alias and not clean else [])
        src = []
        for where, chosen in (("dirs", in_dirs), ("static", in_static)):
            if i in chosen:
                src.append({"in": where, "form": rnd.choice(FORMS), "spell": rnd.choice(spells)})
                if rnd.random() < 0.25:        # the same directory once more, under another spelling
                    src.append({"in": where, "form": rnd.choice(FORMS), "spell": rnd.choice(spells)})
        if pre == ["components"]:
            src.append({"in": "default", "form": "", "spell": "plain"})
        roots.append({"id": "p:" + "/".join(pre), "kind": "dirs", "prefix": pre, "app": [], "alias": alias,
                      "globmeta": False, "src": src, "reach": "plain"})
    for app, path in rnd.sample(APP_CANDS, rnd.choice([0, 1, 1, 2, 2, 3, 4])):
        # how the file system leads to the app directory: the app located through a linked sys.path entry, or the
        # directory itself a symbolic link to a shared directory
        reach = "pathlink" if app in PATHLINK_APPS else "dirlink" if rnd.random() < 0.3 else "plain"
        roots.append({"id": "a:" + "/".join(app + path), "kind": "app", "prefix": app + path, "app": app, "alias": [],
                      "globmeta": False, "src": [], "reach": reach})
    app_state = rnd.choice(["unset", "unset", "unset", "empty", "names", "names", "names"])
    names = [{"segs": p, "spell": rnd.choice(APP_SPELLS)} for p in rnd.sample(APP_PATHS, rnd.randint(1, 3))] \
        if app_state == "names" else []
    if names and not clean and rnd.random() < 0.2:      # an entry repeated under another spelling
        names.insert(rnd.randrange(len(names) + 1), {"segs": rnd.choice(names)["segs"], "spell": rnd.choice(APP_SPELLS)})
    base = rnd.choice(["dotdot", "alias"]) if not clean and rnd.random() < 0.12 else "plain"
    cfg = {"dirs": "unset" if dirs_state == "unset" else "set", "appdirs": "unset" if app_state == "unset" else "set",
           "appnames": names, "form": form, "base": base}
    return roots, cfg


CLEAN_DIRS = ["pkg", "sub", "_x", ".h", "a-b", "core", "p_q", "__pycache__", "Deep"]
CLEAN_STEMS = ["a", "b", "m", "_p", "__init__", "__main__", ".hid", "x-y", "conftest", "x_y", "Mod", "__init__"]
ANY_DIRS = CLEAN_DIRS + ["d.ot", "v1.2", "e.py", "m"]
ANY_STEMS = CLEAN_STEMS + ["a.b", "pkg", "sub", "m.min", "core"]
EXTS = [".py", ".py", ".py", ".js", ".PY", ".pyc", ".pyx", ".css", "", ".py.bak", ".html", ".pyi"]
DIR_LEAVES = ["e.py", "plain", "_e.py", ".e.py", "e.js", "data"]
SCAN_SFX = [".py", ".py", "", ".js", ".pyx", ".css", ".html"]


def record_session(rnd: random.Random, tid: int, world: World) -> Dict[str, Any]:
    clean = rnd.random() < 0.45                 # sessions in which autodiscover() can be called
    roots, cfg = pick_config(rnd, clean)
    if clean and any(r["globmeta"] for r in roots):
        clean = False
    world.reset(roots)
    dirs_pool, stems = (CLEAN_DIRS, CLEAN_STEMS) if clean else (ANY_DIRS, ANY_STEMS)
    trees: List[Dict[Tuple[str, ...], str]] = [dict() for _ in roots]       # parts -> kind
    events: List[Dict[str, Any]] = []

    def occupied(k: int) -> set:
        occ = set()
        for parts in trees[k]:
            for i in range(1, len(parts) + 1):
                occ.add(parts[:i])
        return occ

    def fresh_entry(k: int) -> Optional[Tuple[str, Tuple[str, ...]]]:
        for _ in range(20):
            depth = rnd.choice([0, 0, 1, 1, 2, 3, 4])
            d = tuple(rnd.choice(dirs_pool) for _ in range(depth))
            if not clean and rnd.random() < 0.12:
                kind, name = "dir", rnd.choice(DIR_LEAVES)
            else:
                kind, name = "file", rnd.choice(stems) + rnd.choice(EXTS)
            parts = d + (name,)
            occ = occupied(k)
            files = {p for p, kd in trees[k].items() if kd == "file"}
            if parts in occ or any(parts[:i] in files for i in range(1, len(parts))):
                continue
            if clean:
                # keep the import system unambiguous: no module file beside a directory of the same name
                if any(p[:-1] == parts[:-1] and p[-1].rsplit(".", 1)[0] == name.rsplit(".", 1)[0]
                       for p in occ if p != parts and len(p) == len(parts)):
                    continue
                if name.rsplit(".", 1)[0] in dirs_pool or name in dirs_pool:
                    continue
                if name == "__init__.pyc":       # a sourceless package: its (junk) byte code would be executed
                    continue
            return kind, parts
        return None

    def scan() -> None:
        sfx = rnd.choice(SCAN_SFX)
        got = scan_or_raise(world, sfx)
        events.append({"op": "scan", "sfx": sfx, "got": got})
        if sfx == ".py":
            for r in got:
                if r["k"] >= 1 and trees[r["k"] - 1].get(tuple(r["parts"])) == "file" and rnd.random() < 0.6:
                    res = world.load(r["dot"], world.active[r["k"] - 1].joinpath(*r["parts"]))
                    events.append({"op": "load", "k": r["k"], "parts": r["parts"], "dot": r["dot"],
                                   "res": res.split(":")[0]})
        if clean and rnd.random() < 0.6:
            a = obs_auto(world)
            events.append({"op": "auto", "got": a["got"], "loaded": a["loaded"]})

    with world.configured(roots, cfg, dup_first=rnd.random() < 0.3):
        for _round in range(rnd.randint(2, 4)):
            for _ in range(rnd.randint(1, 7)):
                k = rnd.randrange(len(roots))
                fe = fresh_entry(k)
                if fe:
                    kind, parts = fe
                    world.mk(k + 1, kind, list(parts))
                    trees[k][parts] = kind
                    events.append({"op": "mk", "k": k + 1, "kind": kind, "parts": list(parts)})
            scan()
            if rnd.random() < 0.6:
                for _ in range(rnd.randint(1, 3)):
                    k = rnd.randrange(len(roots))
                    cands = sorted(p for p, kd in trees[k].items()
                                   if kd == "file" or not any(q != p and q[:len(p)] == p for q in trees[k]))
                    if not cands:
                        continue
                    parts = rnd.choice(cands)
                    kind = trees[k].pop(parts)
                    world.rm(k + 1, kind, list(parts), occupied(k))
                    events.append({"op": "rm", "k": k + 1, "kind": kind, "parts": list(parts)})
                scan()
    return {"id": tid, "roots": roots, "cfg": cfg, "clean": clean, "events": events}


def _clauses(s: str) -> List[str]:
    return re.findall(r'"([^"]*)"', s)


def _rejects(out: str, n: int, what: str) -> List[Tuple[int, int, List[str]]]:
    """Parse the verdict lines of a Trace_* run (TLC wraps long tuples over several lines); every
    trace must have an ACCEPT or at least one REJECT."""
    acc = {int(m.group(1)) for m in re.finditer(r'<<\s*"ACCEPT",\s*(\d+)\s*>>', out)}
    rej = [(int(m.group(1)), int(m.group(2)), re.findall(r'"([^"]*)"', m.group(3)))
           for m in re.finditer(r'<<\s*"REJECT",\s*(\d+),\s*(\d+),\s*\{([^}]*)\}\s*>>', out)]
    if acc & {t for t, _, _ in rej} or len(acc | {t for t, _, _ in rej}) != n:
        raise MachineryError(f"{what}: verdicts for {len(acc | {t for t, _, _ in rej})} of {n} traces\n"
                             + "\n".join(out.splitlines()[-30:]))
    return rej



def validate_sessions(chk: Check, world: World, n: int, salt: int = 0) -> None:
    rnd = random.Random(chk.seed * 104729 + 20 + salt)
    w = workdir("c20tr")
    traces = [record_session(rnd, i + 1, world) for i in range(n)]
    f = w / "sessions.ndjson"
    tlc.write_ndjson(f, traces)
    cfg = w / "trace.cfg"
    cfg.write_text("SPECIFICATION TrSpec\nINVARIANT TreesWellFormed\n")
    r = tlc.run("Trace_C20", str(cfg), env={"IN": str(f)}, workers=1)
    if r.violated:
        raise MachineryError("Trace_C20: recorder produced an ill-formed tree:\n" + "\n".join(r.out.splitlines()[-30:]))
    tlc.require_ok(r, "Trace_C20")
    nobs = 0
    for tno, at, clauses in _rejects(r.out, len(traces), "Trace_C20"):
        t = traces[tno - 1]
        if "bad_case" in clauses:
            raise MachineryError(f"Trace_C20: autodiscover recorded on a tree where it is not determined: {t['roots']}")
        case = {"kind": "session", "roots": t["roots"], "cfg": t["cfg"],
                "entries_before": [e for e in t["events"][:at] if e["op"] in ("mk", "rm")],
                "event": t["events"][at - 1]}
        plain = [c for c in clauses if not c.startswith("dev:")]
        if plain:
            chk.violation(case, {"failing_clauses": clauses})
        else:
            for c in clauses:
                chk.violation(case, {"failing_clauses": clauses}, key=c[4:])
    for t in traces:
        chk.count([t["roots"], t["cfg"], t["events"]])
        chk.add("trace_sessions_dirs_" + ("unset" if t["cfg"]["dirs"] == "unset" else
                                          "nonempty" if any(m["in"] == "dirs" for r in t["roots"] for m in r["src"])
                                          else "empty"))
        nobs += sum(1 for e in t["events"] if e["op"] not in ("mk", "rm"))
        chk.add("trace_autodiscover_calls", sum(1 for e in t["events"] if e["op"] == "auto"))
        chk.add("trace_imports", sum(1 for e in t["events"] if e["op"] == "load"))
    chk.add("traces_validated_against_impl", len(traces))
    chk.add("trace_observations", nobs)
    chk.add("trace_states", r.distinct)
    chk.sample({"session_head": {"roots": traces[0]["roots"], "cfg": traces[0]["cfg"],
                                 "events": traces[0]["events"][:5]}}, limit=6)


# ---------------------------------------------------------------- tiers
SMALL_QUICK = [101, 203, 205, 117, 10101, 202, 106, 303]
SMALL_THOROUGH = SMALL_QUICK + [103, 10202, 403, 109]


def core(chk: Check, world: World, tier: str) -> None:
    quick = tier == "quick"
    model_check_and_replay(chk, world, max_entries=2 if quick else 3,
                           small=SMALL_QUICK if quick else SMALL_THOROUGH)
    startup_checks(chk, world, 8 if quick else 80)
    validate_sessions(chk, world, 200 if quick else 2000)


def run(tier: str) -> int:
    from . import boot
    boot.setup()
    chk = Check(PID, tier, "model_checking")
    world = World()
    try:
        core(chk, world, tier)
    finally:
        world.close()
    chk.cov["exhaustive"] = True
    chk.cov["rule"] = ("every well-formed state of MC_C20 (tree x root variant incl. 11 spelling and 4 app-link variants x suffix; and the "
                       "configuration family: 13 candidate directories x COMPONENTS.dirs not given / [] / 4 lists x "
                       "STATICFILES_DIRS empty / 4 lists x app_dirs not given / [] / 3 lists x 3 ways of writing COMPONENTS x "
                       "suffix, plus 3 + 2 + 3 lists with spelled / linked / repeated paths and multi-segment / decorated / "
                       "repeated app_dirs entries x everything else, plus BASE_DIR spelled 2 ways) materialised and compared "
                       "with get_component_files, imports and autodiscover(); sampled cases started in a fresh interpreter; "
                       "random multi-directory sessions under random configurations validated by "
                       "Trace_C20. Non-trivial = the tree has at least one entry; distinct by hash of the case")
    chk.assumptions += [
        "dotted paths are compared only where DotDetermined (no dot in a directory name or stem)",
        "importability is demanded only where Autodiscover!Loadable holds (Python's package/module precedence)",
        "names with '..' or a trailing dot, suffixes without leading dot, nested/overlapping roots, roots outside "
        "BASE_DIR, symlinks inside component directories are never generated",
        "apps behind links: the linked sys.path entry is the only way to the app package, the target of a linked app "
        "directory is importable under no other name",
        "a directory named through a symbolic link: both dotted paths (real location, link) are admitted, each file once",
        "entries of django_components' own components/ app directory are projected away",
        "STATICFILES_DIRS 'not set' is Django's default (the empty list); app_dirs entries are relative str paths "
        "without '..', none inside another",
    ]
    return chk.finish()


# ---------------------------------------------------------------- selftest
def selftest(tier: str) -> int:
    """In-process mutation probes (never touch /repo) + validation of the proposed fixes."""
    import glob as _glob
    from . import boot
    from .core import run_probes
    boot.setup()
    import django_components.util.loader as ld

    @contextmanager
    def patch(obj, name, new):
        old = getattr(obj, name)
        setattr(obj, name, new)
        try:
            yield
        finally:
            setattr(obj, name, old)

    def search_dirs(keep, hidden=False, recursive=True, escape=False, files_only=False, lower=False):
        def _search_dirs(dirs, search_glob):
            out = []
            for directory in dirs:
                base = _glob.escape(str(directory)) if escape else str(directory)
                pat = search_glob if recursive else search_glob.replace("**/", "")
                if lower:
                    pat = "**/*"
                for path_str in _glob.iglob(os.path.join(base, pat), recursive=True, include_hidden=hidden):
                    path = Path(path_str)
                    if lower and not path.name.lower().endswith(search_glob[4:].lower()):
                        continue
                    if files_only and not path.is_file():
                        continue
                    parts = list(path.relative_to(directory).parts)
                    name = parts.pop()
                    if keep(parts, name):
                        out.append(path)
            return out
        return _search_dirs

    def orig_keep(parts, name):
        return not any(p.startswith("_") for p in parts) and not (name.startswith("_") and name != "__init__.py")

    def probe_search(keep=orig_keep, **kw):
        return lambda: patch(ld, "_search_dirs", search_dirs(keep, **kw))

    def to_module(strip_init=True, app_last_only=False):
        from pathlib import PurePosixPath

        def f(file_path, root_fs_path, root_module_path):
            rel = PurePosixPath(file_path).relative_to(PurePosixPath(root_fs_path))
            name = ".".join(rel.with_suffix("").parts)
            if root_module_path and app_last_only:
                root_module_path = root_module_path.split(".")[-1]
            full = f"{root_module_path}.{name}" if root_module_path else name
            if strip_init and full.endswith(".__init__"):
                full = full[:-9]
            return full
        return f

    def dirs_with(mut):
        orig = ld.get_component_dirs

        def get_component_dirs(include_apps=True):
            return mut(orig, include_apps)
        return lambda: patch(ld, "get_component_dirs", get_component_dirs)

    def no_dedupe(orig, include_apps):
        from django.conf import settings
        res = orig(include_apps)
        raw = (settings.COMPONENTS or {}).get("dirs")
        if raw:
            res = [Path(d[1] if isinstance(d, (tuple, list)) else d).resolve() for d in raw]
        return res

    def legacy_ignored(orig, include_apps):
        from django.conf import settings
        old = settings.STATICFILES_DIRS
        settings.STATICFILES_DIRS = []
        try:
            return orig(include_apps)
        finally:
            settings.STATICFILES_DIRS = old

    @contextmanager
    def components_setting(change):
        """get_component_dirs sees COMPONENTS with `change(dict of the given fields)` applied."""
        from django.conf import settings
        old = settings.COMPONENTS
        data = dict(old) if isinstance(old, dict) else {k: v for k, v in old._asdict().items() if v is not None}
        settings.COMPONENTS = change(data)
        try:
            yield
        finally:
            settings.COMPONENTS = old

    def with_setting(change):
        def mut(orig, include_apps):
            with components_setting(change):
                return orig(include_apps)
        return dirs_with(mut)

    def empty_dirs_as_unset(data):             # `if not dirs` instead of `if dirs is None`
        return {k: v for k, v in data.items() if not (k == "dirs" and not v)}

    class AppDirsProxy:
        """app_settings as the loader sees it, with APP_DIRS passed through `f` (get_component_files reads the
        app directories itself, not through get_component_dirs)."""

        def __init__(self, real, f):
            self._real, self._f = real, f

        def __getattr__(self, name):
            v = getattr(self._real, name)
            return self._f(list(v)) if name == "APP_DIRS" else v

    def app_dirs_with(f):
        return lambda: patch(ld, "app_settings", AppDirsProxy(ld.app_settings, f))

    def static_added(orig, include_apps):      # STATICFILES_DIRS searched in addition to COMPONENTS.dirs
        from django.conf import settings
        res = list(orig(include_apps))
        for d in settings.STATICFILES_DIRS:
            d = Path(d[1] if isinstance(d, (tuple, list)) else d).resolve()
            if d not in res:
                res.append(d)
        return res

    def default_always(orig, include_apps):    # BASE_DIR/components searched whatever is configured
        from django.conf import settings
        res = list(orig(include_apps))
        d = (Path(settings.BASE_DIR) / "components").resolve()
        return res if d in res else res + [d]

    def default_with_static(orig, include_apps):   # legacy dirs extend the default instead of replacing it
        from django.conf import settings
        res = list(orig(include_apps))
        raw = settings.COMPONENTS
        given = (raw.get("dirs") if isinstance(raw, dict) else raw.dirs) is not None
        d = (Path(settings.BASE_DIR) / "components").resolve()
        return res + [d] if not given and settings.STATICFILES_DIRS and d not in res else res

    class NoResolvePath(type(Path())):
        """Path whose resolve() does nothing: get_component_dirs keeps the directories as they are written."""

        def resolve(self, strict=False):
            return self

    class ResolvedJoinPath(type(Path())):
        """Path whose joinpath() resolves: the app directories are searched under their resolved path while the
        dotted path is still computed relative to the app path as Django knows it."""

        def joinpath(self, *a):
            return Path(super().joinpath(*a)).resolve()

    def raw_app_dir_module(file_path, root_fs_path, root_module_path):
        """The dotted path of an app file built from the app_dirs entry as written (app + "." + entry)."""
        from pathlib import PurePosixPath
        if root_module_path:
            for app_dir in ld.app_settings.APP_DIRS:
                comps = Path(root_fs_path).joinpath(app_dir)
                if comps in Path(file_path).parents:
                    rel = PurePosixPath(file_path).relative_to(PurePosixPath(comps))
                    full = ".".join([f"{root_module_path}.{app_dir}", *rel.with_suffix("").parts])
                    return full[:-9] if full.endswith(".__init__") else full
        return to_module()(file_path, root_fs_path, root_module_path)

    probes = [
        ("component-dirs-not-normalised (no resolve)", lambda: patch(ld, "Path", NoResolvePath)),
        ("app-dirs-resolved-before-search (app behind a link)", lambda: patch(ld, "Path", ResolvedJoinPath)),
        ("app-dot-path-from-raw-app_dirs-entry", lambda: patch(ld, "_filepath_to_python_module", raw_app_dir_module)),
        ("empty-COMPONENTS.dirs-treated-as-not-given", with_setting(empty_dirs_as_unset)),
        ("empty-app_dirs-treated-as-not-given", app_dirs_with(lambda v: v or ["components"])),
        ("STATICFILES_DIRS-searched-besides-COMPONENTS.dirs", dirs_with(static_added)),
        ("default-components-dir-always-searched", dirs_with(default_always)),
        ("legacy-dirs-extend-the-default-dir", dirs_with(default_with_static)),
        ("app-components-dir-searched-besides-app_dirs",
         app_dirs_with(lambda v: v if "components" in v else v + ["components"])),
        ("only-first-app_dirs-name-searched", app_dirs_with(lambda v: v[:1])),
        ("underscore-dirs-not-skipped", probe_search(lambda ps, n: not (n.startswith("_") and n != "__init__.py"))),
        ("underscore-check-top-level-dir-only",
         probe_search(lambda ps, n: not (ps[:1] and ps[0].startswith("_")) and not (n.startswith("_") and n != "__init__.py"))),
        ("init-py-not-excepted", probe_search(lambda ps, n: not any(p.startswith("_") for p in ps) and not n.startswith("_"))),
        ("all-dunder-files-kept",
         probe_search(lambda ps, n: not any(p.startswith("_") for p in ps)
                      and not (n.startswith("_") and not n.startswith("__")))),
        ("underscore-anywhere-in-name-skipped",
         probe_search(lambda ps, n: not any("_" in p for p in ps) and not ("_" in n and n != "__init__.py"))),
        ("hidden-entries-included", probe_search(hidden=True)),
        ("glob-not-recursive", probe_search(recursive=False)),
        ("suffix-case-insensitive", probe_search(lower=True)),
        ("dot-path-keeps-__init__", lambda: patch(ld, "_filepath_to_python_module", to_module(strip_init=False))),
        ("app-prefix-last-package-component-only",
         lambda: patch(ld, "_filepath_to_python_module", to_module(app_last_only=True))),
        ("component-dirs-not-deduplicated", dirs_with(no_dedupe)),
        ("legacy-STATICFILES_DIRS-ignored", dirs_with(legacy_ignored)),
    ]

    world = World()
    try:
        light = [d * 100 + n for d in (1, 2, 4, 5, 6, 7, 8) for n in range(1, N_FILES + 1)] + \
                [10000 + d * 100 + n for d in (1, 2) for n in range(1, N_DIRNAMES + 1)]

        def body(chk: Check) -> None:
            model_check_and_replay(chk, world, max_entries=2, small=[101, 203, 205, 117, 10101], sfx=[1, 2],
                                   codes=light, cfg_sfx=[1])
            validate_sessions(chk, world, 60)       # (the start-up subprocess cannot see in-process patches)

        rc = run_probes(PID, probes, body)

        # the proposed repairs (proposed_fixes/C20-*.diff), applied in-process: nothing may fail, known or not
        class Counting(Check):
            keyed = 0

            def violation(self, case, detail, key=None):
                if key is not None:
                    self.keyed += 1
                super().violation(case, detail, key)

        class ResolvedBase:
            """django.conf.settings as the loader sees it, BASE_DIR normalised (proposed fix for
            base-dir-not-normalised)."""

            def __init__(self, real):
                self._real = real

            def __getattr__(self, name):
                v = getattr(self._real, name)
                return Path(v).resolve() if name == "BASE_DIR" and v else v

        def unique_dirs(v):                    # proposed fix for app_dirs-entry-repeated: each directory once
            return list({Path(x): x for x in reversed(v)}.values())[::-1]

        chk = Counting(PID, "quick", "other", silent=True)
        with patch(ld, "_search_dirs", search_dirs(orig_keep, escape=True, files_only=True)), \
                patch(ld, "settings", ResolvedBase(ld.settings)), \
                patch(ld, "app_settings", AppDirsProxy(ld.app_settings, unique_dirs)):
            body(chk)
        ok = chk.violations == 0 and chk.keyed == 0
        print(f"  proposed fixes (glob.escape + is_file, BASE_DIR resolved, app dirs once) applied in-process: violations={chk.violations} "
              f"known-finding cases={chk.keyed} -> {'clean' if ok else 'NOT CLEAN'}")
    finally:
        world.close()
    return rc if ok else 1


# ---------------------------------------------------------------- replay
def replay(path: str) -> int:
    """Re-run one stored case on the current tree.  Tree cases carry the expectation TLC exported;
    a session case is re-recorded and validated by Trace_C20 again."""
    from . import boot
    boot.setup()
    d = json.load(open(path))
    case = d["case"]
    chk = Check(PID, "quick", "other", silent=True)
    world = World()
    try:
        if case.get("kind") == "tree":
            replay_row(chk, world, case["row"])
            print(json.dumps({"violations_not_explained_by_known_deviation": chk.violations}, indent=1))
            return 1 if chk.violations else 0
        if case.get("kind") == "session":
            roots, cfg = case["roots"], case["cfg"]
            world.reset(roots)
            evs = []
            present: Dict[int, Dict[Tuple[str, ...], str]] = {}
            with world.configured(roots, cfg):
                for e in case["entries_before"]:
                    t = present.setdefault(e["k"], {})
                    if e["op"] == "mk":
                        world.mk(e["k"], e["kind"], e["parts"])
                        t[tuple(e["parts"])] = e["kind"]
                    else:
                        t.pop(tuple(e["parts"]), None)
                        occ = {p[:i] for p in t for i in range(1, len(p) + 1)}
                        world.rm(e["k"], e["kind"], e["parts"], occ)
                    evs.append(e)
                ev = dict(case["event"])
                if ev["op"] == "scan":
                    ev["got"] = obs_scan(world, ev["sfx"])
                elif ev["op"] == "load":
                    ev["res"] = world.load(ev["dot"], world.active[ev["k"] - 1].joinpath(*ev["parts"])).split(":")[0]
                elif ev["op"] == "auto":
                    ev.update(obs_auto(world))
                evs.append(ev)
            w = workdir("c20rp")
            tlc.write_ndjson(w / "s.ndjson", [{"id": 1, "roots": roots, "cfg": cfg, "events": evs}])
            (w / "t.cfg").write_text("SPECIFICATION TrSpec\nINVARIANT TreesWellFormed\n")
            r = tlc.require_ok(tlc.run("Trace_C20", str(w / "t.cfg"), env={"IN": str(w / "s.ndjson")}, workers=1),
                               "Trace_C20")
            rej = _rejects(r.out, 1, "Trace_C20")
            print(json.dumps({"event": evs[-1], "verdict": [c for _, _, cl in rej for c in cl] or "ACCEPT"}, indent=1))
            return 1 if any(not c.startswith("dev:") for _, _, cl in rej for c in cl) else 0
    finally:
        world.close()
    print("unknown case kind")
    return 2
