"""C05 - inject() returns the nearest enclosing {% provide %} of the rendered structure.

Specification: `prov` threading of specs/DjcSemantics.tla (a provider extends the chain along the
RENDERED structure: component boundaries, isolated copies, slots, fills and loops pass it on, the
slot position decides for fill content; inject outside every provider -> default or KeyError; the
injected record carries exactly the provider's kwargs; provided values are never variables) - the
oracle.  specs/MC_Djc.tla (alphabet "provide") enumerates every page up to a node bound over a
library with consumers with/without default, a provider around a slot, consumers inside and after a
component's own provider.  specs/DjcProvide.tla is the implementation-shaped refcount machine
(provide_cache / provide_references / all_reference_ids) whose invariants InjectSound and
Quiescent TLC checks over all orders in which deferred consumers finish.  specs/ProvideRefs.tla is
the general machine (any providers / referrers / call order) with an inductive invariant (TLC from all
IndInv states, Apalache symbolically) that implies NoKeyError, OpenAlive, InjectSound and Quiescent.

spec -> code: every enumerated page rendered for real, inject echoes compared.
code -> spec: random programs with nested / shadowing / sibling providers, and HISTORIES of
              consecutive renders in one process without resetting the library's registries;
              after every successful render the provide registries must be empty (Quiescent);
              every call of the provide functions during those renders is recorded at its linearization
              point (vf/provtrace.py) and validated step by step by TLC against ProvideRefs.tla.
"""
from __future__ import annotations

import json
import random
from typing import Any, Dict, List, Optional

from . import djc, prog as P, provrefs, provtrace, tlc
from .core import Check
from .pool import pmap

PID = "C05"


def _history(progs):
    """Render a sequence of programs in ONE process without resetting registries in between.
    Residue = entries a render ADDED to the provide registries and did not remove (a failed earlier
    render may have left entries behind - C06's business - which are not counted again)."""
    import django_components.perfutil.provide as pp
    P.reset_library_state()
    out = []
    for p in progs:
        P.install(p)
        before = (set(pp.provide_cache), set(pp.provide_references), set(pp.all_reference_ids))
        pre = provtrace.snapshot_now() if provtrace.start() else None
        o = P.render_page(p)
        if pre is not None:
            provtrace.mark_end(bool(o.get("err")))
            o["ptrace"] = provtrace.project(provtrace.stop(), pre)
        o["residue"] = {"provide_cache": len(set(pp.provide_cache) - before[0]),
                        "provide_references": len(set(pp.provide_references) - before[1]),
                        "all_reference_ids": len(set(pp.all_reference_ids) - before[2])}
        out.append(o)
    P.reset_library_state()
    return out


def quiescent_check(p, e, o) -> Optional[Dict[str, Any]]:
    r = o.get("residue")
    if r and not o.get("err") and any(r.values()):
        return {"what": "provide-registries-not-empty-after-successful-render", "residue": r}
    return None


def model_check_refcount(chk: Check) -> None:
    """The implementation-shaped refcount machine: current code (provider self-reference) satisfies
    InjectSound / Quiescent at page and host level; as a vacuity guard the same model with the
    self-reference switched off (the code before the recorded fix) must be refuted by TLC."""
    from .core import MachineryError
    for cfg in ("DjcProvide.cfg", "DjcProvide_host.cfg"):
        r = tlc.run("DjcProvide", cfg, workers=2, coverage=True)
        tlc.require_ok(r, cfg)
        chk.add("states", r.distinct)
        chk.add("transitions", r.generated)
        chk.add("refcount_machine_states", r.distinct)
    r = tlc.run("DjcProvide", "DjcProvide_prefix.cfg", workers=2)
    if not r.violated:
        raise MachineryError("DjcProvide with SelfRef=FALSE should be refuted (vacuity guard)")
    chk.add("refcount_prefix_counterexample_found", 1)
    r = tlc.run("DjcProvide", "DjcProvide_noowner.cfg", workers=2)
    if "InjectSound" not in r.violated and "RefsWellFormed" not in r.violated:
        raise MachineryError("DjcProvide with OwnerRef=FALSE should be refuted (lazy default content; vacuity guard)")
    chk.add("refcount_noowner_counterexample_found", 1)
    # the general machine (any number of providers / referrers, any order of calls): inductive invariant
    provrefs.model_check(chk, apalache=False)


def body(chk: Check, *, mc_nodes: int, n_random: int, n_hist: int, hist_len: int, deep: int, refcount: bool = True) -> None:
    states = trans = 0
    apa = provrefs.start_apalache() if refcount else None     # symbolic inductiveness runs beside the replays
    if refcount:
        model_check_refcount(chk)
    for mode in P.MODES:
        progs, exp, r = djc.mc_programs("provide", mode, mc_nodes)
        states += r.distinct
        trans += r.generated
        st = djc.compare_sliced(chk, progs, exp, djc.real, f"mc-provide-{mode}")
        chk.add("mc_pages_replayed", len(progs))
        chk.add("mc_zone", st["zone"])
        mid = progs[len(progs) // 2]
        chk.sample({"mc_page": djc.brief(mid)["page"], "mode": mode, "expected": exp[mid["id"]]["out"],
                    "expected_err": exp[mid["id"]]["err"]}, limit=2)
    rnd = random.Random(chk.seed * 1000003 + 5)
    g = P.Gen(rnd, depth=deep, width=3, collide=False, provide=True, required=0.0)
    progs = [g.program(i + 1, P.MODES[i % 2]) for i in range(n_random)] + djc.regression_programs(PID)
    exp = djc.oracle(progs)
    states += djc.oracle.last_states
    st = djc.compare_batch(chk, progs, exp, djc.real(progs), "rand-provide")
    chk.add("traces_validated_against_impl", len(progs) - st["zone"])
    chk.sample({"random_program": djc.brief(progs[0]), "expected": exp[progs[0]["id"]]["out"],
                "expected_err": exp[progs[0]["id"]]["err"]}, limit=3)
    # re-rendering: the same compiled templates (the same {% provide %} / component nodes) and classes rendered A, B, A
    # with two page contexts in one process - provided kwargs taken from variables change between the renders
    from .c01 import RERENDER_CTX2
    gr = P.Gen(random.Random(chk.seed * 1000003 + 55), depth=deep, width=3, collide=False, provide=True, required=0.0)
    base = [gr.program(6 * 10 ** 6 + 3 * i, P.MODES[i % 2]) for i in range(max(60, n_random // 5))]
    ctxs = [base[0]["ctx"], RERENDER_CTX2, base[0]["ctx"]]
    tri = [[dict(p, id=p["id"] + k, ctx=ctxs[k]) for k in range(3)] for p in base]
    flat = [q for t in tri for q in t]
    expr = djc.oracle(flat)
    states += djc.oracle.last_states
    flat_o = []
    for t, o in zip(tri, djc.real_rerender(base, ctxs)):
        flat_o += (o if isinstance(o, list) else [o] * 3)
    st = djc.compare_batch(chk, flat, expr, flat_o, "rerender-provide")
    chk.add("rerender_programs", len(base))
    chk.add("traces_validated_against_impl", len(flat) - st["zone"])
    # histories: consecutive renders in one process
    hp = [g.program(10 ** 5 + i, P.MODES[(i // hist_len) % 2]) for i in range(n_hist * hist_len)]
    exph = djc.oracle(hp)
    hists = [hp[i * hist_len:(i + 1) * hist_len] for i in range(n_hist)]
    obs = pmap(_history, hists, workers=12, per_item_s=10.0 * hist_len, chunk=2)
    flat_p, flat_o = [], []
    for h, os_ in zip(hists, obs):
        if isinstance(os_, dict):      # whole history hung
            os_ = [os_] * len(h)
        flat_p += h
        flat_o += os_
    st = djc.compare_batch(chk, flat_p, exph, flat_o, "history", extra_check=quiescent_check)
    # code -> spec, operation level: every call of the provide functions made by the renders of the histories,
    # validated step by step against the general refcount machine ProvideRefs.tla (Trace_ProvideRefs.tla)
    ptr = [({"program": djc.brief(p), "json": p}, o["ptrace"]) for p, o in zip(flat_p, flat_o)
           if isinstance(o, dict) and o.get("ptrace") is not None and len(o["ptrace"]["events"]) > 1
           and not exph[p["id"]]["zone"]]
    if ptr:
        pst = provrefs.validate(chk, ptr, "history")
        chk.add("traces_validated_against_impl", pst["validated"])
    if refcount:
        provrefs.finish_apalache(chk, apa)
    chk.add("histories", n_hist)
    chk.add("traces_validated_against_impl", len(flat_p) - st["zone"])
    chk.add("states", states + djc.oracle.last_states)
    chk.add("transitions", trans)


def run(tier: str) -> int:
    from . import boot
    boot.setup()
    chk = Check(PID, tier, "model_checking")
    if tier == "quick":
        body(chk, mc_nodes=3, n_random=1500, n_hist=40, hist_len=25, deep=3)
    else:
        body(chk, mc_nodes=4, n_random=6000, n_hist=200, hist_len=40, deep=4)
    chk.cov["exhaustive"] = True
    chk.cov["rule"] = ("TLC enumerates every page with <= N nodes over the 'provide' alphabet (providers with constant / variable "
                       "kwargs, two keys, loops, consumers with/without default, provider around a slot) x2 modes, replayed; random "
                       "programs with providers; histories of consecutive renders in one process with the provide registries "
                       "inspected after each. Non-trivial = renders >= 1 component instance.")
    chk.assumptions += ["a {% provide %} wrapped around a {% fill %} tag inside a component body is outside the quantifier; not generated",
                        "KeyError is compared by class"]
    return chk.finish()


def selftest(tier: str) -> int:
    """In-process mutation probes (monkeypatched library, never /repo): each must be killed."""
    from . import boot
    from .core import run_probes
    boot.setup()
    allp = djc.standard_probes()
    probes = [(n, allp[n]) for n in ['inject-returns-outermost-provider', 'only/isolated-does-not-isolate']]
    return run_probes(PID, probes, lambda chk: body(chk, mc_nodes=2, n_random=300, n_hist=4, hist_len=10, deep=3, refcount=False))


def replay(path: str) -> int:
    from . import boot
    boot.setup()
    d = json.load(open(path))
    p = d["case"]["json"]
    exp = djc.oracle([p])[p["id"]]
    obs = djc._real_one(p)
    m = djc.mismatch(exp, obs)
    print(json.dumps({"expected": exp, "observed": obs, "mismatch": m}, indent=1, default=repr)[:6000])
    return 1 if m else 0
