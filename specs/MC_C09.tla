------------------------------- MODULE MC_C09 -------------------------------
(***************************************************************************)
(* Bounded instance for C09: every source of at most MaxSegs atoms of      *)
(* AtomSet, every source of at most FocusSegs atoms of FocusSet and every  *)
(* source of at most 2 atoms of PairSet (LexerAtoms), built one segment at *)
(* a time.  For every source TLC checks                                    *)
(* the theorems of Lexer.tla and that the repaired hand-over loop          *)
(* (LexerHandover with no deviation) refines Tokens; the Export invariant  *)
(* writes one JSON line per source with the expected token stream          *)
(* (spec -> code replay).                                                  *)
(***************************************************************************)
EXTENDS LexerAtoms, LexerHandover, TLC, Json, IOUtils

CONSTANTS MaxSegs,    \* longest source, in segments, over
          AtomSet,    \* these atoms (subset of 1..NAtoms)
          FocusSegs,  \* a second bound, over
          FocusSet,   \* these atoms
          PairSet     \* and every source of <= 2 segments over these atoms
VARIABLE ids

Within(s, n, A) == Len(s) <= n /\ \A i \in 1..Len(s) : s[i] \in A
\* each of the three classes is prefix-closed, so building sources by appending reaches all of them
Admit(s) == Within(s, MaxSegs, AtomSet) \/ Within(s, FocusSegs, FocusSet) \/ Within(s, 2, PairSet)

MCInit == ids = <<>>
Emit(a) == /\ (IF ids = <<>> THEN TRUE ELSE ~IsLast(ids[Len(ids)]))
           /\ Admit(Append(ids, a))
           /\ ids' = Append(ids, a)
MCNext == \E a \in AtomSet \cup FocusSet \cup PairSet : Emit(a)
MCSpec == MCInit /\ [][MCNext]_ids

src == Src(ids)

GeneratorWellFormed == WellFormed(src)
Partition == ThmPartition(src)
StockEqual == ThmStockEqual(src)
OnlyQuotedClosersDiffer == ThmOnlyQuotedClosersDiffer(src)
SingleLineSame == ThmSingleLineSame(src)
\* layer B without deviations refines layer A (outside the oracle zone)
HandoverRefines == ~Zone(src) => HOut(Flat(src), {}, TRUE) = [err |-> "", toks |-> Tokens(src)]
HandoverOffset ==
  LET tr == HTrailOf(Flat(src), {}, TRUE) IN
  ~Zone(src) => \A i \in 1..Len(tr) : tr[i].off = NLs(SubSeq(Flat(src), 1, tr[i].idx))

\* what the harness needs to replay the case
Row ==
  LET ch == Flat(src) IN
  [ids |-> ids, chars |-> ch, zone |-> Zone(src), toks |-> Tokens(src),
   endline |-> 1 + NLs(ch),
   quoted |-> ~NoQuote(src), closer |-> ~NoCloserInString(src),
   \* multiline_tags = False: same stream when no tag spans a line break; the stock
   \* single-line lexer when no block tag has a quote; otherwise not determined
   sl |-> IF ~InTagNL(src) THEN "same" ELSE IF NoQuote(src) /\ ~Zone(src) THEN "stock" ELSE "open",
   sltoks |-> IF InTagNL(src) /\ NoQuote(src) /\ ~Zone(src) THEN StockTokens(ch, FALSE) ELSE <<>>,
   passes |-> HRun(ch, {}, TRUE).passes]

Export ==
  Serialize(ToJson(Row) \o "\n", IOEnv.OUT,
            [format |-> "TXT", charset |-> "UTF-8",
             openOptions |-> <<"WRITE", "CREATE", "APPEND">>]).exitValue = 0
=============================================================================
