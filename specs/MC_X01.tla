------------------------------- MODULE MC_X01 -------------------------------
(***************************************************************************)
(* Bounded instance of TagFormatter (extension check X01).  Cases are      *)
(* built by actions - a name grows character by character over NameChars,  *)
(* context tokens are appended - so BFS enumerates every case inside the   *)
(* bounds exactly once (one case per distinct state) and the Export        *)
(* invariant writes it with the outcome(s) the specification admits as one *)
(* JSON line.  Three families (constant Family):                           *)
(*   "tags"   InternalTagFormatter.start_tag / end_tag / registry.register *)
(*            for every name up to MaxName under the formatters TagFmts    *)
(*            (and the name used as the TAG of a ComponentFormatter)       *)
(*   "parse"  TagFormatter.parse on every token list                       *)
(*            <tag> pre.. <name token in one of Forms> post..              *)
(*   "e2e"    a private registry + Library, a template using the tag in    *)
(*            one of UseKinds with the argument variant AV[av]             *)
(* TLC also checks the laws of the specification itself on every state:    *)
(* round trip, reachability, refusal of unprescribed tags.                 *)
(***************************************************************************)
EXTENDS TagFormatter, Json, IOUtils

CONSTANTS Family,      \* "tags" | "parse" | "e2e"
          NameChars,   \* alphabet of names (cfg files do not know string escapes: DQ SQ NL TAB SP are names)
          MaxName,     \* longest name
          Budget,      \* parse: Len(name) + number of context tokens <= Budget (at most 2 context tokens)
          FullLen      \* e2e: names shorter than FullLen get every argument variant, longer ones AV[1], AV[2]

VARIABLES fmt, name, form, pre, post, uk, av
vars == <<fmt, name, form, pre, post, uk, av>>

ASSUME DocExamplesOK

Ch(x) == CASE x = "DQ" -> "\"" [] x = "SQ" -> "'" [] x = "NL" -> "\n" [] x = "TAB" -> "\t" [] x = "SP" -> " " [] OTHER -> x
Alphabet == {Ch(x) : x \in NameChars}
ASSUME \A c \in Alphabet : Len(c) = 1

XC == CompF(T("xc"))
CC == CompF(T("component"))                        \* django_components.component_formatter (reached by import string)
KF == AffixF(T("k."), <<>>, T("/k."), <<>>)        \* {% k.n %} .. {% /k.n %}   (forward slash, CHANGELOG)
EF == AffixF(T("e."), <<>>, T("end e."), <<>>)     \* end tag with a space: start tag fine, end tag invalid
MW == AffixF(<<>>, T(" c"), End, <<>>)             \* multi-word start tag
SL == AffixF(<<>>, <<>>, <<"/">>, <<>>)            \* {% n %} .. {% /n %}
CompName == [kind |-> "compname", tag |-> <<>>, sp |-> <<>>, ss |-> <<>>, ep |-> <<>>, es |-> <<>>]
Other == <<"b", "1">>                              \* a second component registered next to the one used

(* ------------------------------ tags ----------------------------------- *)
TagFmts == {ShortF, XC, CC, SL, MW, EF, KF, CompName}
TFmt  == IF fmt.kind = "compname" THEN CompF(name) ELSE fmt
TName == IF fmt.kind = "compname" THEN <<"a">> ELSE name
TagsInit == fmt \in TagFmts /\ name = <<>> /\ form = "-" /\ pre = <<>> /\ post = <<>> /\ uk = "-" /\ av = 0
TagsNext == /\ Len(name) < MaxName
            /\ \E c \in Alphabet : name' = Append(name, c)
            /\ UNCHANGED <<fmt, form, pre, post, uk, av>>
TagsCase == [fam |-> "tags", fmt |-> TFmt, name |-> TName,
             start |-> IStart(TFmt, TName, {}), end |-> IEnd(TFmt, TName, {}),
             register |-> RegisterOutcomes(TFmt, TName, {}),
             devs |-> DevTag(StartTag(TFmt, TName), {}), deve |-> DevTag(EndTag(TFmt, TName), {})]
\* laws: the validated tag is the formatter's own answer; a shorthand name with a blank, a quote
\* or "=" can never become a tag; an invalid start tag is refused at registration
TagsLaws ==
  /\ IStart(TFmt, TName, {}).k = "ok" => IStart(TFmt, TName, {}).v = StartTag(TFmt, TName)
  /\ (fmt.kind = "short" /\ \E i \in 1..Len(name) : name[i] \in WS \cup Quotes \cup {"=", "|"})
        => IStart(fmt, name, {}) = TagErr("ValueError") /\ RegisterOutcomes(fmt, name, {}) = {"ValueError"}
  /\ fmt = MW => RegisterOutcomes(fmt, name, {}) = {"ValueError"}
  /\ fmt = EF => IEnd(fmt, name, {}) = TagErr("ValueError")
  /\ fmt.kind = "comp" /\ ValidTag(fmt.tag, {}) => RegisterOutcomes(fmt, name, {}) = {"ok"}

(* ------------------------------ parse ---------------------------------- *)
ParseFmts == {XC, ShortF, KF}
Forms(f) == IF f.kind = "comp" THEN {"dq", "sq", "bare", "kwdq", "kwsq", "kwbare", "mis", "absent"} ELSE {"word"}
PrePool == {T("k=1"), T("only"), T("name=\"zz\"")}
PostPool == {T("k=1"), T("only"), T("\"p q\""), T("b=\"x=y\""), T("name=\"zz\""), T("name="), T("/")}
Weight == Len(name) + Len(pre) + Len(post)
ParseInit == fmt \in ParseFmts /\ form \in Forms(fmt) /\ name = <<>> /\ pre = <<>> /\ post = <<>> /\ uk = "-" /\ av = 0
ParseNext ==
  \/ /\ Weight < Budget /\ Len(name) < MaxName /\ form # "absent"
     /\ \E c \in Alphabet : name' = Append(name, c)
     /\ UNCHANGED <<fmt, form, pre, post, uk, av>>
  \/ /\ Weight < Budget /\ Len(pre) + Len(post) < 2 /\ fmt.kind = "comp" /\ post = <<>>
     /\ \E t \in PrePool : pre' = Append(pre, t)
     /\ UNCHANGED <<fmt, form, name, post, uk, av>>
  \/ /\ Weight < Budget /\ Len(pre) + Len(post) < 2
     /\ \E t \in PostPool : post' = Append(post, t)
     /\ UNCHANGED <<fmt, form, name, pre, uk, av>>
KwTok(v) == NameKey \o <<"=">> \o v
NameTok == CASE form = "dq"     -> <<Lit(name, "\"")>>
             [] form = "sq"     -> <<Lit(name, "'")>>
             [] form = "bare"   -> <<name>>
             [] form = "kwdq"   -> <<KwTok(Lit(name, "\""))>>
             [] form = "kwsq"   -> <<KwTok(Lit(name, "'"))>>
             [] form = "kwbare" -> <<KwTok(name)>>
             [] form = "mis"    -> <<<<"\"">> \o name \o <<"'">>>>
             [] OTHER           -> <<>>
PToks == IF fmt.kind = "comp" THEN <<fmt.tag>> \o pre \o NameTok \o post ELSE <<StartTag(fmt, name)>> \o post
ParseExportable == WellFormedToks(PToks)
ParseCase == [fam |-> "parse", fmt |-> fmt, toks |-> PToks, form |-> form,
              expect |-> Parse(fmt, PToks), dev |-> DevParse(fmt, PToks)]
RECURSIVE IsSubseq(_, _, _, _)
IsSubseq(s, i, t, j) == IF i > Len(s) THEN TRUE ELSE IF j > Len(t) THEN FALSE
                        ELSE IF s[i] = t[j] THEN IsSubseq(s, i + 1, t, j + 1) ELSE IsSubseq(s, i, t, j + 1)
QuoteOf == IF form \in {"dq", "kwdq"} THEN "\"" ELSE "'"
Clean == Len(name) > 0 /\ \A i \in 1..Len(name) : name[i] # QuoteOf      \* the literal is the name, nothing else
PlainCtx(ts) == \A i \in 1..Len(ts) : ~Quoted(ts[i]) \/ IsKw(ts[i])      \* no quoted positional among them
ParseLaws ==
  ParseExportable =>
    /\ Parse(fmt, PToks) # {}
    /\ \A o \in Parse(fmt, PToks) : o.k = "ok" => IsSubseq(o.rest, 1, Tail(PToks), 1) /\ Len(o.rest) < Len(PToks)
    /\ RoundTrip(fmt, name, post)
    \* positional name, either quote kind [D1, D3]
    /\ (fmt.kind = "comp" /\ form \in {"dq", "sq"} /\ pre = <<>> /\ Clean /\ NoNameKw(post))
          => Parse(fmt, PToks) = {Ok(name, post)}
    \* name= after / before other keywords, bare words after it [D4]
    /\ (fmt.kind = "comp" /\ form \in {"kwdq", "kwsq"} /\ Clean /\ NoNameKw(pre \o post) /\ PlainCtx(pre \o post)
        /\ (pre = <<>> \/ IsKw(pre[1])))
          => Parse(fmt, PToks) = {Ok(name, pre \o post)}
    \* no name, or a name that is no string literal, is an error [D4]
    /\ (fmt.kind = "comp" /\ form \in {"absent", "bare", "kwbare", "mis"} /\ NoNameKw(pre \o post) /\ PlainCtx(pre \o post)
        /\ ~Quoted(name) /\ (form # "bare" \/ ~IsKw(name)))
          => Parse(fmt, PToks) = {Tse}
    /\ fmt.kind # "comp" => Parse(fmt, PToks) = {Ok(name, post)}                      \* [D5]

(* ------------------------------ end to end ----------------------------- *)
E2EFmts == {XC, ShortF, KF, EF}
UseKinds(f) == IF f = EF THEN {"block", "self"}
               ELSE IF f.kind = "comp"
                    THEN {"block", "self", "self-sq", "kw-last", "kw-first", "bare", "wrong-word", "wrong-end", "open", "unreg"}
                    ELSE {"block", "self", "wrong-end", "open", "wrong-word", "unreg"}
AV == << [pos |-> <<T("1")>>,                  kw |-> <<T("k=\"x=y\"")>>,                    fl |-> <<>>],
         [pos |-> <<>>,                        kw |-> <<T("k=2")>>,                          fl |-> <<OnlyFlag>>],
         [pos |-> <<>>,                        kw |-> <<>>,                                  fl |-> <<>>],
         [pos |-> <<T("\"p q\""), T("42")>>,   kw |-> <<>>,                                  fl |-> <<OnlyFlag>>],
         [pos |-> <<T("'a/b'")>>,              kw |-> <<T("@c.d='/ '"), T("data-x=3")>>,     fl |-> <<>>],
         [pos |-> <<>>,                        kw |-> <<T("name=\"zz\"")>>,                  fl |-> <<>>],
         [pos |-> <<T("\"name=q\"")>>,         kw |-> <<T("k=1"), T("h#i=\"a, 'b'\"")>>,      fl |-> <<>>] >>
E2EInit == /\ fmt \in E2EFmts /\ uk \in UseKinds(fmt) /\ av \in 1..Len(AV)
           /\ name = <<>> /\ form = "-" /\ pre = <<>> /\ post = <<>>
E2ENext == /\ Len(name) < MaxName /\ (av > 2 => Len(name) + 1 < FullLen)
           /\ \E c \in Alphabet : name' = Append(name, c)
           /\ UNCHANGED <<fmt, form, pre, post, uk, av>>
Args == AV[av].pos \o AV[av].kw \o AV[av].fl
Reg == IF uk = "unreg" THEN {Other} ELSE {name, Other}
Word == StartTag(fmt, name)
Use ==
  IF fmt.kind = "comp" THEN
    CASE uk = "block"      -> PrescribedUse(fmt, name, Args, "block")
      [] uk = "self"       -> PrescribedUse(fmt, name, Args, "self")
      [] uk = "unreg"      -> PrescribedUse(fmt, name, Args, "self")
      [] uk = "open"       -> PrescribedUse(fmt, name, Args, "open")
      [] uk = "self-sq"    -> [word |-> fmt.tag, toks |-> <<Lit(name, "'")>> \o Args \o <<Slash>>, close |-> "self", endw |-> <<>>]
      [] uk = "kw-last"    -> [word |-> fmt.tag, toks |-> AV[av].kw \o <<KwTok(Lit(name, QuoteFor(name)))>> \o AV[av].fl \o <<Slash>>,
                               close |-> "self", endw |-> <<>>]
      [] uk = "kw-first"   -> [word |-> fmt.tag, toks |-> <<KwTok(Lit(name, QuoteFor(name)))>> \o AV[av].kw \o AV[av].fl \o <<Slash>>,
                               close |-> "self", endw |-> <<>>]
      [] uk = "bare"       -> [word |-> fmt.tag, toks |-> <<name>> \o Args \o <<Slash>>, close |-> "self", endw |-> <<>>]
      [] uk = "wrong-word" -> [word |-> name, toks |-> Args \o <<Slash>>, close |-> "self", endw |-> <<>>]
      [] uk = "wrong-end"  -> [PrescribedUse(fmt, name, Args, "block") EXCEPT !.endw = End \o name]
  ELSE
    CASE uk = "block"      -> PrescribedUse(fmt, name, Args, "block")
      [] uk = "self"       -> PrescribedUse(fmt, name, Args, "self")
      [] uk = "unreg"      -> PrescribedUse(fmt, name, Args, "self")
      [] uk = "open"       -> PrescribedUse(fmt, name, Args, "open")
      [] uk = "wrong-end"  -> [PrescribedUse(fmt, name, Args, "block")
                               EXCEPT !.endw = IF fmt.kind = "short" THEN <<"/">> \o Word ELSE End \o Word]
      [] uk = "wrong-word" -> [word |-> T("xc"), toks |-> <<Lit(name, QuoteFor(name))>> \o Args \o <<Slash>>,
                               close |-> "self", endw |-> <<>>]
Applicable ==
  CASE uk \in {"kw-last"}   -> AV[av].pos = <<>> /\ AV[av].kw # <<>>
    [] uk \in {"kw-first"}  -> AV[av].pos = <<>>
    [] uk = "self-sq"       -> \A i \in 1..Len(name) : name[i] # "'"
    [] uk = "wrong-word"    -> fmt.kind = "comp" => ValidTag(name, {}) /\ name # fmt.tag
    [] uk = "wrong-end"     -> fmt.kind = "comp" => ValidTag(name, {}) /\ End \o name # EndTag(fmt, name)
    [] OTHER                -> TRUE
E2EExportable ==
  /\ Applicable
  /\ \A m \in Reg \cup {name} : ValidTag(StartTag(fmt, m), {})          \* everything registers
  /\ fmt.kind = "comp" => Writable(name)
  /\ ValidTag(Use.word, {})                                             \* a plain word
  /\ WellFormedToks(Use.toks)
  /\ E2EArgsOK(fmt, Use)
E2ECase == [fam |-> "e2e", fmt |-> fmt, reg |-> Reg, use |-> Use, uk |-> uk, av |-> av,
            expect |-> E2E(fmt, Reg, Use, {}), dev |-> DevE2E(fmt, Reg, Use, {})]
E2ELaws ==
  E2EExportable =>
    /\ E2E(fmt, Reg, Use, {}) # {}
    /\ uk \in {"block", "self"} => Reachable(fmt, Reg, name, Args, Use.close, {})
    \* ... and it really applies to every exported prescribed use outside the documented zones
    /\ (uk \in {"block", "self"} /\ fmt # EF /\ (fmt.kind = "comp" => Len(name) > 0 /\ NoNameKw(Args)))
          => E2E(fmt, Reg, Use, {}) = {Rendered(name, Args, IF uk = "self" THEN "default" ELSE "body")}
    \* tags the formatter does not prescribe are refused [D1, D2, D7]
    /\ (uk \in {"wrong-word", "wrong-end", "open"}) => E2E(fmt, Reg, Use, {}) = {X("TemplateSyntaxError")}
    /\ (uk = "unreg" /\ fmt.kind # "comp" /\ name # Other) => E2E(fmt, Reg, Use, {}) = {X("TemplateSyntaxError")}
    /\ (uk = "unreg" /\ fmt.kind = "comp" /\ name # Other /\ Len(name) > 0 /\ NoNameKw(Args))
          => E2E(fmt, Reg, Use, {}) = {X("NotRegistered")}
    /\ fmt = EF => E2E(fmt, Reg, Use, {}) = {X("ValueError")}

(* ------------------------------ machine -------------------------------- *)
Init == CASE Family = "tags" -> TagsInit [] Family = "parse" -> ParseInit [] Family = "e2e" -> E2EInit
Next == CASE Family = "tags" -> TagsNext [] Family = "parse" -> ParseNext [] Family = "e2e" -> E2ENext
Spec == Init /\ [][Next]_vars

Laws == CASE Family = "tags" -> TagsLaws [] Family = "parse" -> ParseLaws [] Family = "e2e" -> E2ELaws

Out(x) == Serialize(ToJson(x) \o "\n", IOEnv.OUT,
                    [format |-> "TXT", charset |-> "UTF-8",
                     openOptions |-> <<"WRITE", "CREATE", "APPEND">>]).exitValue = 0
\* one line per distinct state: the case, or a marker for a state that is no case (a token that
\* is no word of a tag, a name that cannot be registered / written, arguments outside the grammar)
Skip == [fam |-> "skip"]
Export ==
  CASE Family = "tags"  -> Out(TagsCase)
    [] Family = "parse" -> Out(IF ParseExportable THEN ParseCase ELSE Skip)
    [] Family = "e2e"   -> Out(IF E2EExportable THEN E2ECase ELSE Skip)
=============================================================================
