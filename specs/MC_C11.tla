------------------------------- MODULE MC_C11 -------------------------------
(* Bounded instance of ArgBinding: TLC builds every signature of at most    *)
(* MaxParams parameters by Declare actions and, for each, every call of at  *)
(* most MaxItems items / MaxFlat supplied values by Pass actions (a call is *)
(* not extended after a sticky binding error or a strict syntax error:      *)
(* every exported rejected call is a minimal one).  Every reachable state   *)
(* is one case; Export writes it with the outcome Python gives (py), the    *)
(* set the property admits for the tag (adm) and the predictions of the     *)
(* named deviations (devs) as one JSON line.                                *)
(* Parts/Part split the signatures over several TLC processes.              *)
EXTENDS ArgBindingDev, TLC, Json, IOUtils

CONSTANTS MaxParams, MaxItems, MaxFlat, MaxSpread, MaxDict, ExtraKeys, UseVarNames, Parts, Part,
          ParamKinds,      \* kinds of parameters to declare (Kinds = all)
          UseFlagValue     \* also pass `key=<variable named like a flag>` (at most once per call)

KeyOrder == Names \o <<"u", "data-x", "class", VaName, VkName>>
KeyIdx(k) == CHOOSE i \in DOMAIN KeyOrder : KeyOrder[i] = k

\* keys worth passing to this signature: its parameter names, an unknown identifier, the special
\* keys, and the names of *args / **kwargs themselves (any other name behaves like "u")
KeysFor(s) == {Names[i] : i \in NamedIdx(s)} \cup ExtraKeys
              \cup (IF UseVarNames /\ HasVa(s) THEN {VaName} ELSE {})
              \cup (IF UseVarNames /\ HasVk(s) THEN {VkName} ELSE {})

DictKeySeqs(K) ==
  {<<>>} \cup {<<k>> : k \in K}
  \cup (IF MaxDict >= 2
        THEN {p \in {<<k1, k2>> : k1, k2 \in K} : KeyIdx(p[1]) < KeyIdx(p[2])}
        ELSE {})

ItemsFor(s) == {ItemP} \cup {ItemK(k) : k \in KeysFor(s)}
               \cup {ItemL(n) : n \in 0..MaxSpread}
               \cup {ItemD(ks) : ks \in DictKeySeqs(KeysFor(s))}
               \cup (IF UseFlagValue THEN {ItemKF(k) : k \in KeysFor(s)} ELSE {})

Supplies(it) == CASE it.t = "L" -> it.n [] it.t = "D" -> Len(it.ks) [] OTHER -> 1

SigCode(s) == LET RECURSIVE C(_) 
                  C(n) == IF n = 0 THEN 0 ELSE (C(n - 1) * 7 + Rank(s[n].k) * 2 + (IF s[n].d THEN 1 ELSE 0)) % 9973
              IN  C(Len(s))
Mine(s) == SigCode(s) % Parts = Part

MCNext ==
  \/ \E k \in ParamKinds, d \in BOOLEAN : Len(sig) < MaxParams /\ Declare(Param(k, d))
  \/ /\ Mine(sig)
     /\ Len(call) < MaxItems
     /\ b.err = "" /\ ~b.strict
     /\ \E it \in ItemsFor(sig) : /\ b.nflat + Supplies(it) <= MaxFlat
                                  /\ it.fv => ~\E i \in DOMAIN call : call[i].fv
                                  /\ Pass(it)

MCSpec == ABInit /\ [][MCNext]_abVars

TypeOK == /\ WellFormed(sig)
          /\ \A i \in DOMAIN call : WellFormedItem(call[i])
          /\ b.nflat = Len(Flat(call))
          /\ DOMAIN b.slot = DOMAIN sig

Export ==
  \/ ~Mine(sig)
  \/ Serialize(ToJson([sig |-> sig, call |-> call, n |-> b.nflat,
                       py |-> Outcome(sig, b),
                       adm |-> Admissible(sig, call, b),
                       devs |-> Deviations(sig, call, b)]) \o "\n",
               IOEnv.OUT, [format |-> "TXT", charset |-> "UTF-8",
                           openOptions |-> <<"WRITE", "CREATE", "APPEND">>]).exitValue = 0
=============================================================================
