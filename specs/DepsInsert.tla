------------------------------ MODULE DepsInsert ------------------------------
(***************************************************************************)
(* C08 - what render_dependencies() and ComponentDependencyMiddleware are   *)
(* allowed to do to a document.  Written from the property statement and     *)
(* docs/concepts/advanced/rendering_js_css.md, not from the code.            *)
(*                                                                           *)
(* A document is a sequence of segments                                      *)
(*    Txt(c) | HeadEnd(v) | BodyEnd(v) | CssPh(v) | JsPh(v) | Marker(c)      *)
(* (a segment is the record [t |-> kind, v |-> variant], both strings).      *)
(* HeadEnd/BodyEnd variants: "lc" = `</head>` `</head >` `</head\n>` ...     *)
(* (lower case, optional white space before `>`), "uc" = any spelling with    *)
(* an upper-case letter.  The property text says "case variants" while the    *)
(* docs only ever show `</head>`: whether an upper-case end tag counts is an  *)
(* UNSPECIFIED ZONE, so the specification is parametrised by `ci` (end tags   *)
(* recognised case-insensitively or not) and admits both readings.            *)
(* Placeholder variants: what {% component_css_dependencies %} and            *)
(* {% component_js_dependencies %} render to: "one" = in a plain template or  *)
(* inside one component (at most one data-djc-id attribute), "multi" = as     *)
(* root element of a component that is itself the root element of another     *)
(* one (several id attributes).  The specification treats them alike.         *)
(*                                                                           *)
(* The result is a sequence of output tokens: Keep(i) = segment i of the      *)
(* input, byte for byte; Ins("css") / Ins("js") / Ins("frag") = the           *)
(* generated tag block (its content is property C04's business, except that  *)
(* it carries the components' own texts verbatim - see "what the inserted     *)
(* blocks carry").                                                            *)
(***************************************************************************)
EXTENDS Naturals, Sequences, FiniteSets

Txt(c)     == [t |-> "txt",    v |-> c]
HeadEnd(v) == [t |-> "head",   v |-> v]
BodyEnd(v) == [t |-> "body",   v |-> v]
CssPh(v)   == [t |-> "cssph",  v |-> v]
JsPh(v)    == [t |-> "jsph",   v |-> v]
Marker(c)  == [t |-> "marker", v |-> c]

Keep(i) == [k |-> "seg", i |-> i]
Ins(b)  == [k |-> b,     i |-> 0]         \* b \in {"css", "js", "frag"}

Modes == {"document", "fragment"}
Removed == {"marker", "cssph", "jsph"}    \* the only segments that may disappear

Min(S) == CHOOSE x \in S : \A y \in S : x <= y
Max(S) == CHOOSE x \in S : \A y \in S : x >= y

RECURSIVE CatN(_, _)
CatN(f, n) == IF n = 0 THEN <<>> ELSE CatN(f, n - 1) \o f[n]
Cat(f) == CatN(f, Len(f))                 \* f: a sequence of sequences

Has(doc, kind)     == \E i \in DOMAIN doc : doc[i].t = kind
IsEnd(s, kind, ci) == s.t = kind /\ (s.v = "lc" \/ ci)
Ends(doc, kind, ci) == {i \in DOMAIN doc : IsEnd(doc[i], kind, ci)}

\* Where the generated CSS / JS goes in document mode, as a set of segment indices:
\* "at every placeholder of the kind if present, otherwise CSS immediately before the
\* first </head> and JS immediately before the last </body>, otherwise nowhere".
CssSites(doc, ci) ==
  IF Has(doc, "cssph") THEN {i \in DOMAIN doc : doc[i].t = "cssph"}
  ELSE IF Ends(doc, "head", ci) # {} THEN {Min(Ends(doc, "head", ci))} ELSE {}
JsSites(doc, ci) ==
  IF Has(doc, "jsph") THEN {i \in DOMAIN doc : doc[i].t = "jsph"}
  ELSE IF Ends(doc, "body", ci) # {} THEN {Max(Ends(doc, "body", ci))} ELSE {}

Piece(doc, mode, ci, i) ==
  LET s == doc[i] IN
  CASE s.t = "marker" -> <<>>
    [] s.t = "cssph"  -> IF mode = "document" THEN <<Ins("css")>> ELSE <<>>
    [] s.t = "jsph"   -> IF mode = "document" THEN <<Ins("js")>> ELSE <<>>
    [] s.t = "head"   -> IF mode = "document" /\ i \in CssSites(doc, ci)
                         THEN <<Ins("css"), Keep(i)>> ELSE <<Keep(i)>>
    [] s.t = "body"   -> IF mode = "document" /\ i \in JsSites(doc, ci)
                         THEN <<Ins("js"), Keep(i)>> ELSE <<Keep(i)>>
    [] OTHER          -> <<Keep(i)>>

Expected(doc, mode, ci) ==
  Cat([i \in DOMAIN doc |-> Piece(doc, mode, ci, i)])
    \o (IF mode = "fragment" THEN <<Ins("frag")>> ELSE <<>>)

HasUc(doc) == \E i \in DOMAIN doc : doc[i].t \in {"head", "body"} /\ doc[i].v # "lc"
\* the set of results the property admits (one element unless the zone is touched)
Admissible(doc, mode) == {Expected(doc, mode, ci) : ci \in BOOLEAN}

Identity(doc) == [i \in DOMAIN doc |-> Keep(i)]

(* ---- entry points ------------------------------------------------------ *)
\* via: "direct" (render_dependencies(x, type=mode)), "mw_html" (middleware, HttpResponse
\* with an HTML content type: document mode), "mw_other" (non-HTML content type) and
\* "mw_stream" (StreamingHttpResponse): passed through untouched.
\* ity: "str" | "bytes" | "safe"; a response body is always bytes.
Vias == {"direct", "mw_html", "mw_other", "mw_stream"}
Types == {"str", "bytes", "safe"}
ExpectedType(via, ity) == IF via = "direct" THEN ity ELSE "bytes"
AdmissibleVia(doc, via, mode) ==
  CASE via = "direct"  -> Admissible(doc, mode)
    [] via = "mw_html" -> Admissible(doc, "document")
    [] OTHER           -> {Identity(doc)}

(* ---- what the inserted blocks carry -------------------------------------- *)
\* The content of the generated tag blocks is property C04's business, with one exception
\* that *this* property determines: the document is altered "only by ... inserting the
\* generated tags".  The tags are generated from the components' own texts -
\* "This CSS will be inserted into the page as an inlined <style> tag", "JS will be
\* inserted into the page as an inlined <script> tag" (getting_started/adding_js_and_css.md),
\* Media entries given as "safe" strings "are taken as is" (defining_js_css_html_files.md) -
\* and these texts are DATA: whatever is inserted is never read as a template, a format
\* string or a pattern by the insertion step.  So for every component of the document the
\* block of the kind carries each such text byte for byte (a contiguous sub-text), whatever
\* characters it is made of, at placeholders and at the default locations alike.
\*
\* A carried text ("payload") is a sequence of units; the alphabet is made of the sequences
\* that replacement-template / format mini-languages give a meaning to, plus plain text:
\*   bs_n `\n`  bs_d `\d`  bs_1 `\1`  bs_g0 `\g<0>`  bs_bs `\\`  bs_f101 `\f101`
\*   bs_201C `\201C`  bs_0 `\0`  bs_q `\"`  dollar `$1`  pct `%s`  brace `{0}`  txt `ab`
\* (concrete spellings are the harness's; the specification is symmetric in them).
PayUnits == {"txt", "bs_n", "bs_d", "bs_1", "bs_g0", "bs_bs", "bs_f101", "bs_201C", "bs_0", "bs_q",
             "dollar", "pct", "brace"}
PayloadsUpTo(n) == UNION {[1..k -> PayUnits] : k \in 0..n}
\* what the block must contain for a payload p, unit by unit: p itself - no unit is interpreted,
\* dropped, doubled or replaced, and a payload never makes the call fail
Carried(p) == p
\* block kinds that every admissible result of the call inserts at least once (document mode):
\* there the carried texts are observable in the result
InsertedKinds(doc, via, mode) ==
  {k \in {"css", "js"} :
     /\ via \in {"direct", "mw_html"}
     /\ \A o \in AdmissibleVia(doc, via, mode) : \E j \in DOMAIN o : o[j].k = k}

(* ---- theorems (checked by TLC over every document of the bounded space) - *)
KeptOf(out)  == SelectSeq(out, LAMBDA x : x.k = "seg")
InsOf(out)   == SelectSeq(out, LAMBDA x : x.k # "seg")
Count(out, b) == Cardinality({j \in DOMAIN out : out[j].k = b})

\* Erasing the inserted blocks from the result gives the document minus markers and
\* placeholders, segment by segment and in order; nothing else is dropped, duplicated
\* or reordered.
OnlyDocumentedEdits(doc) ==
  \A mode \in Modes, ci \in BOOLEAN :
    LET kept == KeptOf(Expected(doc, mode, ci)) IN
    /\ \A j \in DOMAIN kept : kept[j].i \in DOMAIN doc /\ doc[kept[j].i].t \notin Removed
    /\ \A j \in 1..(Len(kept) - 1) : kept[j].i < kept[j + 1].i
    /\ {kept[j].i : j \in DOMAIN kept} = {i \in DOMAIN doc : doc[i].t \notin Removed}

\* Insertions are exactly the documented ones.
InsertionsDocumented(doc) ==
  \A ci \in BOOLEAN :
    LET d == Expected(doc, "document", ci)
        f == Expected(doc, "fragment", ci)
        ncss == Cardinality({i \in DOMAIN doc : doc[i].t = "cssph"})
        njs  == Cardinality({i \in DOMAIN doc : doc[i].t = "jsph"}) IN
    /\ Count(d, "frag") = 0
    /\ Count(d, "css") = (IF ncss > 0 THEN ncss ELSE IF Ends(doc, "head", ci) # {} THEN 1 ELSE 0)
    /\ Count(d, "js")  = (IF njs > 0 THEN njs ELSE IF Ends(doc, "body", ci) # {} THEN 1 ELSE 0)
    \* default locations: the block sits immediately before the first </head> / last </body>
    /\ ncss = 0 => \A j \in DOMAIN d : d[j].k = "css" =>
                      j < Len(d) /\ d[j + 1] = Keep(Min(Ends(doc, "head", ci)))
    /\ njs = 0  => \A j \in DOMAIN d : d[j].k = "js" =>
                      j < Len(d) /\ d[j + 1] = Keep(Max(Ends(doc, "body", ci)))
    \* fragment: nothing inlined, one JSON script appended at the very end
    /\ InsOf(f) = <<Ins("frag")>> /\ f[Len(f)] = Ins("frag")

\* "if you don't specify the tags, it is the equivalent of" a css tag right before the
\* first </head> and a js tag right before the last </body> (rendering_js_css.md).
WithDefaultPlaceholders(doc, ci) ==
  LET addCss == ~Has(doc, "cssph") /\ Ends(doc, "head", ci) # {}
      addJs  == ~Has(doc, "jsph") /\ Ends(doc, "body", ci) # {}
      h == IF addCss THEN Min(Ends(doc, "head", ci)) ELSE 0
      b == IF addJs THEN Max(Ends(doc, "body", ci)) ELSE 0 IN
  Cat([i \in DOMAIN doc |->
         (IF i = h THEN <<CssPh("one")>> ELSE <<>>) \o (IF i = b THEN <<JsPh("one")>> ELSE <<>>) \o <<doc[i]>>])
\* compare by *content*: kept tokens name the segment, so map indices back to segments
Content(doc, out) == [j \in DOMAIN out |-> IF out[j].k = "seg" THEN doc[out[j].i] ELSE out[j]]
PlaceholderEquivalence(doc) ==
  \A ci \in BOOLEAN :
    LET doc2 == WithDefaultPlaceholders(doc, ci) IN
    Content(doc, Expected(doc, "document", ci)) = Content(doc2, Expected(doc2, "document", ci))

\* the zone is narrow: without an upper-case end tag exactly one result is admissible
ZoneIsNarrow(doc) == ~HasUc(doc) => \A mode \in Modes : Cardinality(Admissible(doc, mode)) = 1

TypePreserved == \A ity \in Types : /\ ExpectedType("direct", ity) = ity
                                    /\ \A via \in Vias \ {"direct"} : ExpectedType(via, ity) = "bytes"
PassThrough(doc) == \A via \in {"mw_other", "mw_stream"}, mode \in Modes :
                       AdmissibleVia(doc, via, mode) = {Identity(doc)}

\* the carried texts are observable exactly where the statement inserts a block: at a placeholder of
\* the kind or at the default location of the kind (an end tag recognised under both readings of the
\* zone), in document mode, never in a fragment or in a response that is passed through
PayloadSitesDocumented(doc) ==
  /\ \A via \in {"mw_other", "mw_stream"}, mode \in Modes : InsertedKinds(doc, via, mode) = {}
  /\ InsertedKinds(doc, "direct", "fragment") = {}
  /\ InsertedKinds(doc, "mw_html", "fragment") = InsertedKinds(doc, "direct", "document")
  /\ "css" \in InsertedKinds(doc, "direct", "document") <=> (Has(doc, "cssph") \/ Ends(doc, "head", FALSE) # {})
  /\ "js" \in InsertedKinds(doc, "direct", "document") <=> (Has(doc, "jsph") \/ Ends(doc, "body", FALSE) # {})
CarriedVerbatim(n) == \A p \in PayloadsUpTo(n) : Carried(p) = p /\ Len(Carried(p)) = Len(p)
=============================================================================
