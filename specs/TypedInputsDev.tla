---------------------------- MODULE TypedInputsDev ----------------------------
(***************************************************************************)
(* Named deviations of django-components' validate_typed_tuple /            *)
(* validate_typed_dict from TypedInputs (X02), as *what the code is known   *)
(* to do on which shape of case*.  They never widen what the check accepts: *)
(* an observation that does not conform is reported under the key of the    *)
(* smallest deviation set that predicts exactly the observed outcome        *)
(* (KNOWN_FINDINGS.txt decides whether the key is a known finding); an      *)
(* outcome predicted by no deviation is a plain violation.  Delete a        *)
(* deviation when it is fixed.                                              *)
(*                                                                          *)
(* Impl(D, c) is a sequential reference validator (args: count, then the    *)
(* members in order; kwargs, slots: the declared fields in order, then the  *)
(* unexpected keys; get_context_data; data likewise; generic members are    *)
(* checked by their outer class) with the deviations in D switched on.      *)
(* Impl({}, c) conforms to TypedInputs on every case (IdealConforms).       *)
(*                                                                          *)
(* any-member        a member type that is exactly `Any` raises a bare      *)
(*      TypeError ("typing.Any cannot be used with isinstance()") for every *)
(*      value; `Any` as an alternative of a Union / Optional matches        *)
(*      nothing.  Docs [D3]: "set the faulty member to Any".                *)
(* generic-in-union  a subscripted generic (List[int], Dict[..], Tuple[..], *)
(*      SlotFunc[..]) as an alternative of a Union / Optional: when the     *)
(*      alternatives before it do not match, a bare TypeError ("Subscripted *)
(*      generics cannot be used with class and instance checks") is raised, *)
(*      also for values of the declared type (Optional[List[str]] accepts   *)
(*      nothing at all).                                                    *)
(* extra-args        more positional arguments than the Tuple declares are  *)
(*      accepted (EmptyTuple accepts any args).  Docs [D4].                 *)
(* slotcontent-forward-ref  a Slots TypedDict with a SlotContent field:     *)
(*      get_type_hints() evaluates the forward reference "Slot[TSlotData]"  *)
(*      inside SlotContent in the *user's* module: NameError on every       *)
(*      render.  Docs [D6].                                                 *)
(***************************************************************************)
EXTENDS TypedInputs

DAny   == "any-member"
DGen   == "generic-in-union"
DExtra == "extra-args"
DFwd   == "slotcontent-forward-ref"
DevOrder == <<DAny, DGen, DExtra, DFwd>>
Devs == {DAny, DGen, DExtra, DFwd}
\* smaller sets first
DevSets == << {DAny}, {DGen}, {DExtra}, {DFwd},
              {DAny, DGen}, {DAny, DExtra}, {DAny, DFwd}, {DGen, DExtra}, {DGen, DFwd}, {DExtra, DFwd},
              {DAny, DGen, DExtra}, {DAny, DGen, DFwd}, {DAny, DExtra, DFwd}, {DGen, DExtra, DFwd},
              {DAny, DGen, DExtra, DFwd} >>
RECURSIVE JoinNames(_, _)
JoinNames(S, i) ==
  IF i > Len(DevOrder) THEN ""
  ELSE LET rest == JoinNames(S, i + 1) IN
       IF DevOrder[i] \notin S THEN rest
       ELSE IF rest = "" THEN DevOrder[i] ELSE DevOrder[i] \o "+" \o rest
DevName(S) == JoinNames(S, 1)

\* the alternatives of a Union / Optional / SlotContent in the order typing keeps them
TSlotFuncG == T("slotfunc_g", <<>>)      \* SlotFunc[TSlotData] inside SlotContent
TSlotG     == T("slot_g", <<>>)          \* Slot[TSlotData] inside SlotContent
RECURSIVE Alternatives(_)
Alternatives(t) ==
  CASE t.k = "union" -> LET RECURSIVE Cat(_)
                            Cat(i) == IF i > Len(t.a) THEN <<>> ELSE Alternatives(t.a[i]) \o Cat(i + 1)
                        IN  Cat(1)
    [] t.k = "opt"   -> Alternatives(t.a[1]) \o <<TNone>>
    [] t.k = "slotcontent" -> <<TStr, TSlotFuncG, TSlotG>>
    [] OTHER -> <<t>>

IsGeneric(t) == t.k \in {"list", "dict", "tuple", "slotfunc_g", "slot_g"}

\* isinstance(v, <origin class of t>) for a term that is not a Union / Optional / Any
OuterClassFits(t, v) ==
  CASE t.k = "slotfunc_g" -> v.k \in {"func", "slot"}
    [] t.k = "slot_g"     -> v.k = "slot"
    [] OTHER              -> OuterFits(t, v)

\* "ok" / "reject" (error naming the item) / "raise" (bare TypeError out of isinstance)
ImplMember(D, t, v) ==
  IF t.k \in {"union", "opt", "slotcontent"}
  THEN LET ms == Alternatives(t)
           Res(i) == IF ms[i].k = "any" THEN (IF DAny \in D THEN "next" ELSE "ok")
                     ELSE IF IsGeneric(ms[i]) /\ DGen \in D THEN "raise"
                     ELSE IF OuterClassFits(ms[i], v) THEN "ok" ELSE "next"
           stops == {i \in DOMAIN ms : Res(i) # "next"}
       IN  IF stops = {} THEN "reject" ELSE Res(MinOf(stops))
  ELSE IF t.k = "any" THEN (IF DAny \in D THEN "raise" ELSE "ok")
  ELSE IF OuterClassFits(t, v) THEN "ok" ELSE "reject"

Out(o, named) == [o |-> o, named |-> named]
Passed == Out("passed", {})

ImplArgs(D, d, a) ==
  IF d.any THEN Passed
  ELSE IF Len(d.m) > Len(a) \/ (Len(d.m) < Len(a) /\ DExtra \notin D) THEN Out("type", {"args:count"})
  ELSE LET r(i) == ImplMember(D, d.m[i], a[i])
           bad  == {i \in DOMAIN d.m : r(i) # "ok"}
       IN  IF bad = {} THEN Passed
           ELSE IF r(MinOf(bad)) = "raise" THEN Out("type", {})
           ELSE Out("type", {Item("args", ToString(MinOf(bad) - 1))})

ImplDict(D, sec, d, es) ==
  IF d.any THEN Passed
  ELSE IF DFwd \in D /\ \E i \in DOMAIN d.f : d.f[i].t.k = "slotcontent" THEN Out("other", {})
  ELSE LET r(i) == IF d.f[i].name \notin Keys(es) THEN (IF d.f[i].req THEN "reject" ELSE "ok")
                   ELSE ImplMember(D, d.f[i].t, ValOf(es, d.f[i].name))
           bad   == {i \in DOMAIN d.f : r(i) # "ok"}
           extra == Keys(es) \ Names(d.f)
       IN  IF bad # {} THEN (IF r(MinOf(bad)) = "raise" THEN Out("type", {})
                             ELSE Out("type", {Item(sec, d.f[MinOf(bad)].name)}))
           ELSE IF extra # {} THEN Out("type", {Item(sec, k) : k \in extra})
           ELSE Passed

Impl(D, c) ==
  LET a == ImplArgs(D, c.decl.args, c.call.args)
      k == ImplDict(D, "kwargs", c.decl.kwargs, c.call.kwargs)
      s == ImplDict(D, "slots", c.decl.slots, c.call.slots)
      d == ImplDict(D, "data", c.decl.data, c.call.data)
  IN  IF a # Passed THEN a ELSE IF k # Passed THEN k ELSE IF s # Passed THEN s
      ELSE IF d # Passed THEN d ELSE Out("ok", {})

AsObs(p) == [o |-> p.o, named |-> p.named, same |-> TRUE, comp |-> TRUE]
ConformsOut(c, p) == Conforms(c, AsObs(p))
Kind(p) == IF p.o = "type" THEN (IF p.named = {} THEN "type-bare" ELSE "type-named") ELSE p.o

IdealConforms(c) == ConformsOut(c, Impl({}, c))

\* deviations whose shape is present in the case at all (cheap over-approximation)
HasAnyAlt(t) == \E i \in DOMAIN Alternatives(t) : Alternatives(t)[i].k = "any"
HasGenericAlt(t) == /\ t.k \in {"union", "opt", "slotcontent"}
                    /\ \E i \in DOMAIN Alternatives(t) : IsGeneric(Alternatives(t)[i])
DeclTypes(c) == {c.decl.args.m[i] : i \in DOMAIN c.decl.args.m}
                \cup {c.decl.kwargs.f[i].t : i \in DOMAIN c.decl.kwargs.f}
                \cup {c.decl.slots.f[i].t : i \in DOMAIN c.decl.slots.f}
                \cup {c.decl.data.f[i].t : i \in DOMAIN c.decl.data.f}
Applicable(c) ==
  LET ts == DeclTypes(c) IN
  (IF \E t \in ts : HasAnyAlt(t) THEN {DAny} ELSE {})
  \cup (IF \E t \in ts : HasGenericAlt(t) THEN {DGen} ELSE {})
  \cup (IF ~c.decl.args.any /\ Len(c.call.args) > Len(c.decl.args.m) THEN {DExtra} ELSE {})
  \cup (IF \E t \in ts : t.k = "slotcontent" THEN {DFwd} ELSE {})

\* the deviation sets whose prediction does not conform, smallest first, a set only if no
\* earlier one predicts the same outcome: <<[key, size, o, named]>>
Deviations(c) ==
  LET app == Applicable(c) IN
  IF app = {} THEN <<>>
  ELSE LET cand == SelectSeq([n \in 1..Len(DevSets) |-> n], LAMBDA n : DevSets[n] \subseteq app)
           Pred(j) == Impl(DevSets[cand[j]], c)
           live == SelectSeq([j \in 1..Len(cand) |-> j],
                             LAMBDA j : /\ ~ConformsOut(c, Pred(j))
                                        /\ ~\E m \in 1..(j - 1) : Pred(m) = Pred(j))
       IN  [j \in DOMAIN live |-> [key |-> DevName(DevSets[cand[live[j]]]) \o ":" \o Kind(Pred(live[j])),
                                   size |-> Cardinality(DevSets[cand[live[j]]]),
                                   o |-> Pred(live[j]).o, named |-> Pred(live[j]).named]]

\* every non-conforming prediction of several deviations at once is already the prediction of one
\* of them alone: such cases keep the findings separately keyed (others are not generated)
SeparableDevs(ds) == \A j \in DOMAIN ds : ds[j].size = 1
Separable(c) == SeparableDevs(Deviations(c))

\* the key under which a non-conforming observation is reported ("" = predicted by no deviation)
KeyOf(c, obs) ==
  LET ds   == Deviations(c)
      hits == SelectSeq(ds, LAMBDA d : d.o = obs.o /\ d.named = obs.named)
  IN  IF Len(hits) = 0 THEN "" ELSE hits[1].key
=============================================================================
