SPECIFICATION Spec
CONSTANTS
  Pid = {"p1", "p2", "p3"}
  Rid = {"r1", "r2", "r3"}
INVARIANT IndInv
INVARIANT NoKeyError
INVARIANT OpenAlive
INVARIANT InjectSound
INVARIANT Quiescent
PROPERTY DroppedOnlyWhenUnreferenced
CHECK_DEADLOCK FALSE
