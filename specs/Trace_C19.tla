------------------------------ MODULE Trace_C19 ------------------------------
(***************************************************************************)
(* Trace validation (code -> spec) for C19.  IOEnv.IN names an ndjson file;*)
(* every line is one recorded history on the real library:                 *)
(*   conf    class table [js, css, vars] of the generated classes          *)
(*   events  render / prerender / finish / clear / redefine / get with     *)
(*           what was observed: the URLs found in the produced HTML        *)
(*           (mapped back to <<class, kind, which>>), the list they were   *)
(*           in, the answer of the endpoint for each of them, and for      *)
(*           `get` the answer to an arbitrary request; `seturl` activates  *)
(*           another URL configuration (script prefix / URLconf); every    *)
(*           emitted URL comes with the configuration its path is          *)
(*           addressed to (loc), every request with the one it is built    *)
(*           for (req.at); all requests are made under the active one.     *)
(* Every event must be explained by the ScriptEndpoint action of the same  *)
(* name; the observation must be one the specification admits.  An event   *)
(* explained only by a *named deviation* is reported as DEV (a finding     *)
(* key) and validation continues from the deviant state.  One ACCEPT or    *)
(* REJECT line per trace.                                                  *)
(***************************************************************************)
EXTENDS ScriptEndpoint, TLC, Json, IOUtils

Traces == ndJsonDeserialize(IOEnv.IN)

VARIABLES tid, l
trVars == <<conf, cache, ver, held, kept, emitted, resp, url, eloc, tid, l>>

Events == Traces[tid].events
Ev == Events[l]

ConfOf(t) == Traces[t].conf
TrInit == /\ tid = 1 /\ l = 1
          /\ IF Len(Traces) >= 1 THEN SEInit(ConfOf(1)) ELSE SEInit(<<>>)

NextTrace == /\ tid' = tid + 1 /\ l' = 1
             /\ cache' = {} /\ held' = {} /\ kept' = {} /\ emitted' = {} /\ resp' = NoResp
             /\ url' = DefaultUrl /\ eloc' = DefaultUrl
             /\ IF tid + 1 <= Len(Traces)
                THEN conf' = ConfOf(tid + 1) /\ ver' = [c \in 1..Len(ConfOf(tid + 1)) |-> 1]
                ELSE conf' = <<>> /\ ver' = <<>>

O(o) == [st |-> o.st, c |-> o.c, k |-> o.k, i |-> o.i, v |-> o.v]
CtBad(o) == o.st = 200 /\ (o.k \notin Kinds \/ o.ct \notin CT[o.k])
Chan(mode) == IF mode = "document" THEN "loaded" ELSE "toload"
Page(e) == Range(e.page)

DevFinish == "prerendered-html-finished-after-eviction:fragment-url-404"
DevStale  == "class-redefined-same-import-path:stale-code-served"
DevKind   == "kind-embeds-cached-input-hash:500"

KeptVer(en) == IF \E p \in kept : p[1] = en THEN (CHOOSE p \in kept : p[1] = en)[2] ELSE 0
IsStale(en, o) == /\ en[3] = "main" /\ KeptVer(en) # 0 /\ KeptVer(en) < ver[en[1]]
                  /\ O(o) = Served(en, KeptVer(en))

(* ---- render / finish: clauses against the cache the action must establish *)
EmitFailing(e, post) ==
  {c \in {"render_error", "emitted_set", "channel", "emitted_served", "content_type", "malformed",
          "emitted_location"} :
     CASE c = "render_error"   -> e.err
       [] c = "malformed"      -> (Len(e.fetch) # Len(e.emitted) \/ Len(e.chan) # Len(e.emitted)
                                    \/ Len(e.loc) # Len(e.emitted))
       \* the URLs are addressed to the configuration that is active at this render
       [] c = "emitted_location" -> \E j \in 1..Len(e.loc) : e.loc[j] # url
       [] c = "emitted_set"    -> Range(e.emitted) # Need(conf, Page(e))
       [] c = "channel"        -> \E j \in 1..Len(e.chan) : e.chan[j] # Chan(e.mode)
       [] c = "emitted_served" -> \E j \in 1..Len(e.emitted) : j <= Len(e.fetch) /\
                                     O(e.fetch[j]) \notin Adm(conf, post, ver, GetReq(e.emitted[j]))
       [] c = "content_type"   -> \E j \in 1..Len(e.fetch) : CtBad(e.fetch[j])}

\* the only failing clause is emitted_served and every wrong answer is the stale code
StaleOnly(e, post) ==
  /\ EmitFailing(e, post) = {"emitted_served"}
  /\ \A j \in 1..Len(e.emitted) :
        \/ O(e.fetch[j]) \in Adm(conf, post, ver, GetReq(e.emitted[j]))
        \/ IsStale(e.emitted[j], e.fetch[j])

\* fragment finish after an eviction: announced, entries evicted since are not served
FinishDevMatches(e) ==
  /\ e.mode = "fragment" /\ ~e.err /\ ~(Need(conf, Page(e)) \subseteq cache)
  /\ EmitFailing(e, cache) \subseteq {"emitted_served"}
  /\ EmitFailing(e, cache \cup Need(conf, Page(e))) = {"emitted_served"}
  /\ \A j \in 1..Len(e.emitted) : e.emitted[j] \notin cache => e.fetch[j].st = 404

Continue == l' = l + 1 /\ UNCHANGED tid
Reject(why) == PrintT(<<"REJECT", Traces[tid].id, l, why>>) /\ NextTrace
Dev(name) == PrintT(<<"DEV", Traces[tid].id, l, name>>)

HandleRender(e) ==
  LET post == cache \cup Need(conf, Page(e))
      bad == EmitFailing(e, post) IN
  IF bad = {} THEN Render(Page(e), e.mode) /\ Continue
  ELSE IF StaleOnly(e, post) THEN Dev(DevStale) /\ Render(Page(e), e.mode) /\ Continue
  ELSE Reject(bad)

HandlePrerender(e) ==
  IF e.err THEN Reject({"render_error"}) ELSE Prerender(Page(e)) /\ Continue

HandleFinish(e) ==
  IF Page(e) \notin held THEN Reject({"not_held"})
  ELSE IF e.err
  THEN IF Need(conf, Page(e)) \subseteq cache THEN Reject({"finish_failed_without_eviction"})
       ELSE FinishFail(Page(e), e.mode) /\ Continue
  ELSE LET post == cache \cup Need(conf, Page(e))
           bad == EmitFailing(e, post) IN
       IF bad = {} THEN FinishOk(Page(e), e.mode) /\ Continue
       ELSE IF FinishDevMatches(e)
       THEN /\ Dev(DevFinish)
            /\ emitted' = Need(conf, Page(e)) /\ resp' = NoResp
            /\ UNCHANGED <<conf, cache, ver, held, kept>> /\ UrlKeep /\ Continue
       ELSE IF StaleOnly(e, post) THEN Dev(DevStale) /\ FinishOk(Page(e), e.mode) /\ Continue
       ELSE Reject(bad)

HandleGet(e) ==
  LET r == e.req
      bad == {c \in {"answer", "content_type"} :
                CASE c = "answer" -> O(e.out) \notin AdmAt(conf, cache, ver, url, r)
                  [] c = "content_type" -> CtBad(e.out)}
      same == resp' = O(e.out) /\ UNCHANGED <<conf, cache, ver, held, kept, emitted>> /\ UrlKeep /\ Continue IN
  IF bad = {} THEN same
  ELSE IF /\ r.at = url /\ r.m = "GET" /\ Exists(conf, r) /\ r.i = "none" /\ EntryOf(r) \in cache
          /\ IsStale(EntryOf(r), e.out) /\ ~CtBad(e.out)
  THEN Dev(DevStale) /\ same
  ELSE IF /\ r.at = url /\ r.m = "GET" /\ r.c \in 1..Len(conf) /\ r.k \in {"js:vars", "css:vars"} /\ r.i = "none"
          /\ KeptVer(<<r.c, IF r.k = "js:vars" THEN "js" ELSE "css", "vars">>) # 0
          /\ e.out.st = 500
  THEN Dev(DevKind) /\ same
  ELSE Reject(bad)

Step ==
  /\ tid <= Len(Traces) /\ l <= Len(Events)
  /\ CASE Ev.op = "render"    -> HandleRender(Ev)
       [] Ev.op = "prerender" -> HandlePrerender(Ev)
       [] Ev.op = "finish"    -> HandleFinish(Ev)
       [] Ev.op = "clear"     -> ClearCache /\ Continue
       [] Ev.op = "redefine"  -> Redefine(Ev.c) /\ Continue
       [] Ev.op = "get"       -> HandleGet(Ev)
       [] Ev.op = "seturl"    -> SetUrl(Ev.u) /\ Continue

Done == /\ tid <= Len(Traces) /\ l > Len(Events)
        /\ PrintT(<<"ACCEPT", Traces[tid].id>>)
        /\ NextTrace

TrNext == Step \/ Done
TrSpec == TrInit /\ [][TrNext]_trVars

\* checked at every step of every trace (on the specification state the trace drives)
TrMustServeDetermined == tid > Len(Traces) \/ MustServeDetermined
=============================================================================
