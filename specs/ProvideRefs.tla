------------------------------ MODULE ProvideRefs ------------------------------
(***************************************************************************)
(* General reference-counting machine of {% provide %} / inject()          *)
(* (django_components/perfutil/provide.py + provide.py), for ANY number of *)
(* providers and referrers and ANY order of calls - the unbounded          *)
(* counterpart of the scenario machine DjcProvide.tla (C05, C06, C07).      *)
(*                                                                         *)
(*   cache  ~ keys of provide_cache      (provide id -> provided data)     *)
(*   refs   ~ provide_references         (provide id -> set of referrers)  *)
(*   allIds ~ all_reference_ids                                            *)
(*   err    ~ a registry function raised KeyError from one of its pops     *)
(*   phase  ~ ghost: life cycle of a provider tag                          *)
(*            "new" -> "set" (set_provided_context_var wrote the data)     *)
(*                  -> "open" (managed_provide_cache entered: body renders)*)
(*                  -> "closed" (managed_provide_cache left)               *)
(*                                                                         *)
(* One action per critical section of the code (each function body runs    *)
(* under _provide_lock).  The pure operators (Register, Unreg, Cleanup,     *)
(* Enter) are reused by Trace_ProvideRefs.tla, which validates operation   *)
(* traces recorded from the real functions during real renders.            *)
(*                                                                         *)
(* Environment assumption (guard of RegisterAct, checked on every recorded *)
(* trace): a context only shows providers whose data is still cached       *)
(* (VisibleAlive).  Under it IndInv is inductive (checked by TLC for small *)
(* constants from ALL states satisfying it, and by Apalache symbolically    *)
(* for larger ones: MC_ProvideRefs.tla / Apa_ProvideRefs.tla) and implies  *)
(*   NoKeyError   - no pop of a missing key, ever                          *)
(*   OpenAlive    - while a provider's body renders its data is cached     *)
(*   InjectSound  - a registered referrer always finds the data            *)
(*   Quiescent    - once every referrer has unregistered and no provider    *)
(*                  is between "set" and "open", all three registries are   *)
(*                  empty (C06 reduces to: every register is matched by an  *)
(*                  unregister, which DjcRenderMachine / the fault          *)
(*                  enumeration establish).                                 *)
(***************************************************************************)
EXTENDS Naturals, FiniteSets

CONSTANTS
  \* @type: Set(Str);
  Pid,        \* provider ids
  \* @type: Set(Str);
  Rid         \* component render ids (referrers other than the providers themselves)

ASSUME PidRidDisjoint == Pid \cap Rid = {}

Ref == Pid \cup Rid

VARIABLES
  \* @type: Set(Str);
  cache,
  \* @type: Str -> Set(Str);
  refs,
  \* @type: Set(Str);
  allIds,
  \* @type: Bool;
  err,
  \* @type: Str -> Str;
  phase

prVars == <<cache, refs, allIds, err, phase>>

\* (the type annotations in comments are for Apalache, see Apa_ProvideRefs.tla; TLC ignores them)
\* @typeAlias: state = { cache: Set(Str), refs: Str -> Set(Str), allIds: Set(Str), err: Bool };
ProvideRefs_aliases == TRUE

\* @type: (Set(Str), Str -> Set(Str), Set(Str), Bool) => $state;
St(c, r, a, e) == [cache |-> c, refs |-> r, allIds |-> a, err |-> e]
Cur == St(cache, refs, allIds, err)

\* ---- the library's functions as state transformers ----------------------------
\* managed_provide_cache(p), entry block
\* @type: ($state, Str) => $state;
Enter(s, p) ==
  St(s.cache,
     [q \in DOMAIN s.refs \cup {p} |-> IF q = p THEN (IF p \in DOMAIN s.refs THEN s.refs[p] ELSE {}) \cup {p}
                                               ELSE s.refs[q]],
     s.allIds \cup {p}, s.err)

\* register_provide_reference(context, r); ps = the provide ids the context shows
\* @type: ($state, Str, Set(Str)) => $state;
Register(s, r, ps) ==
  IF s.cache = {} THEN s                                        \* `if not provide_cache: return`
  ELSE St(s.cache,
          [q \in DOMAIN s.refs \cup ps |->
              (IF q \in DOMAIN s.refs THEN s.refs[q] ELSE {}) \cup (IF q \in ps THEN {r} ELSE {})],
          s.allIds \cup {r}, s.err)

\* unregister_provide_reference(id)
\* @type: ($state, Str) => $state;
Unreg(s, id) ==
  IF id \notin s.allIds THEN s
  ELSE LET dead == {q \in DOMAIN s.refs : s.refs[q] = {id}} IN
       St(s.cache \ dead,
          [q \in DOMAIN s.refs \ dead |-> s.refs[q] \ {id}],
          s.allIds \ {id},
          s.err \/ ~(dead \subseteq s.cache))                   \* provide_cache.pop(q) of a missing q

\* cache_cleanup() of managed_provide_cache(p)
\* @type: ($state, Str) => $state;
Cleanup(s, p) ==
  IF p \in DOMAIN s.refs /\ s.refs[p] = {}
  THEN St(s.cache \ {p}, [q \in DOMAIN s.refs \ {p} |-> s.refs[q]], s.allIds, s.err \/ p \notin s.cache)
  ELSE IF p \notin DOMAIN s.refs /\ p \in s.cache
  THEN St(s.cache \ {p}, s.refs, s.allIds, s.err)
  ELSE s

\* the `finally` block of managed_provide_cache(p)
\* @type: ($state, Str) => $state;
Exit(s, p) == Cleanup(Unreg(s, p), p)

\* get_injected_context_var: provide_cache[p]
\* @type: ($state, Str) => Bool;
Found(s, p) == p \in s.cache

\* @type: ($state) => Bool;
Becomes(s) == cache' = s.cache /\ refs' = s.refs /\ allIds' = s.allIds /\ err' = s.err

\* ---- actions -----------------------------------------------------------------------
Init == /\ cache = {} /\ refs = [q \in {} |-> {}] /\ allIds = {} /\ err = FALSE
        /\ phase = [p \in Pid |-> "new"]

SetProvided(p) ==                      \* set_provided_context_var: fresh id, data stored
  /\ phase[p] = "new"
  /\ cache' = cache \cup {p} /\ UNCHANGED <<refs, allIds, err>>
  /\ phase' = [phase EXCEPT ![p] = "set"]

EnterAct(p) ==
  /\ phase[p] = "set"
  /\ Becomes(Enter(Cur, p))
  /\ phase' = [phase EXCEPT ![p] = "open"]

\* a context shows a provider only from inside its body or later (program order of one render), and
\* only while its data is cached
VisibleAlive(ps) == ps \subseteq cache /\ \A p \in ps : phase[p] \in {"open", "closed"}

RegisterAct(r, ps) ==
  /\ VisibleAlive(ps)
  /\ Becomes(Register(Cur, r, ps))
  /\ UNCHANGED phase

UnregisterAct(r) ==
  /\ Becomes(Unreg(Cur, r))
  /\ UNCHANGED phase

ExitAct(p) ==
  /\ phase[p] = "open"
  /\ Becomes(Exit(Cur, p))
  /\ phase' = [phase EXCEPT ![p] = "closed"]

Next == \/ \E p \in Pid : SetProvided(p) \/ EnterAct(p) \/ ExitAct(p)
        \/ \E r \in Rid : UnregisterAct(r)
        \/ \E r \in Rid, ps \in SUBSET Pid : RegisterAct(r, ps)

Spec == Init /\ [][Next]_prVars

\* ---- properties ------------------------------------------------------------------------
TypeOK == /\ cache \subseteq Pid
          /\ DOMAIN refs \subseteq Pid
          /\ \A q \in DOMAIN refs : refs[q] \subseteq Ref
          /\ allIds \subseteq Ref
          /\ err \in BOOLEAN
          /\ phase \in [Pid -> {"new", "set", "open", "closed"}]

RefsWellFormed == \A q \in DOMAIN refs : q \in cache /\ refs[q] # {} /\ refs[q] \subseteq allIds
\* data without a referrer exists only between set_provided_context_var and managed_provide_cache
Unreferenced == \A p \in cache \ DOMAIN refs : phase[p] = "set"
\* ... and there the data is cached and nobody can have seen it yet
SetIsCached == \A p \in Pid : phase[p] = "set" => p \in cache /\ p \notin DOMAIN refs
NothingBeforeSet == \A p \in Pid : phase[p] = "new" => p \notin cache /\ p \notin allIds /\ p \notin DOMAIN refs
\* a provider is its own referrer exactly while its body renders
SelfRefIffOpen == \A p \in Pid : /\ p \in allIds <=> phase[p] = "open"
                                 /\ phase[p] = "open" => p \in DOMAIN refs /\ p \in refs[p]
OnlySelf == \A q \in DOMAIN refs : refs[q] \cap Pid \subseteq {q}

IndInv == TypeOK /\ ~err /\ RefsWellFormed /\ Unreferenced /\ SetIsCached /\ NothingBeforeSet /\ SelfRefIffOpen /\ OnlySelf

NoKeyError == ~err
OpenAlive == \A p \in Pid : phase[p] = "open" => p \in cache
InjectSound == \A p \in DOMAIN refs : p \in cache
Quiescent == (allIds = {} /\ \A p \in Pid : phase[p] # "set") => cache = {} /\ DOMAIN refs = {}
\* data is dropped only by the last referrer leaving or by the provider's own exit
DroppedOnlyWhenUnreferenced ==
  [][\A p \in cache \ cache' : p \notin DOMAIN refs' /\ (p \in DOMAIN refs => Cardinality(refs[p]) = 1)]_prVars
=============================================================================
