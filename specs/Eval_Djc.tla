------------------------------ MODULE Eval_Djc ------------------------------
(***************************************************************************)
(* Batch oracle: reads component programs (one JSON object per line of     *)
(* IOEnv.IN), evaluates the abstract semantics DjcSemantics!Run on each    *)
(* and appends [id, out, err, zone, insts] as one JSON line to IOEnv.OUT.  *)
(* Used in both directions: for programs TLC enumerated itself (MC_Djc)    *)
(* and for programs produced by the seeded random generator.               *)
(***************************************************************************)
EXTENDS DjcSemantics, Json, IOUtils

Progs == ndJsonDeserialize(IOEnv.IN)
VARIABLE i
Init == i = 0
Emit(p) ==
  LET r == Run(p) IN
  Serialize(ToJson([id |-> p.id, out |-> r.out, err |-> r.err, errs |-> r.errs, zone |-> r.zone, insts |-> r.insts, elems |-> r.elems, marks |-> r.marks, deps |-> Deps(p, r.insts)]) \o "\n",
            IOEnv.OUT, [format |-> "TXT", charset |-> "UTF-8",
                        openOptions |-> <<"WRITE", "CREATE", "APPEND">>]).exitValue = 0
Next == i < Len(Progs) /\ Emit(Progs[i + 1]) /\ i' = i + 1
Spec == Init /\ [][Next]_i
=============================================================================
