------------------------------ MODULE SlotEscape ------------------------------
(***************************************************************************)
(* Slot content handed to Component.render(slots=...) from Python (C13):   *)
(* "a plain string or the result of a slot function is HTML-escaped exactly *)
(* once unless it is marked safe or escape_slots_content=False" - for every *)
(* way the content can be passed on.                                        *)
(*                                                                         *)
(* origin: what the first caller holds                                     *)
(*   "str" / "safe"                 plain string / SafeString               *)
(*   "fn_str" / "fn_safe"           function returning one of them          *)
(*   "slot_fn_str" / "slot_fn_safe" Slot(function)                          *)
(*   "slot_slot_fn_str"             Slot(Slot(function))                    *)
(*   "slot_escaped_fn_str"          Slot(function, escaped=True): the user  *)
(*                                  declares the content already escaped    *)
(* hops: Seq([via, flag]), the way to the template that finally renders    *)
(*   {% slot %}:                                                           *)
(*   "render"  X.render(slots=<held>, escape_slots_content=flag); the first *)
(*             hop hands over the origin, later hops hand over the          *)
(*             component's own self.input.slots (normalised slots)          *)
(*   "dynamic" the same through the built-in dynamic component             *)
(*   "fill"    re-passed inside a template:                                 *)
(*             {% component next %}{% fill s %}{% slot s / %}{% endfill %}  *)
(***************************************************************************)
EXTENDS HtmlText

Origins == {"str", "safe", "fn_str", "fn_safe", "slot_fn_str", "slot_fn_safe",
            "slot_slot_fn_str", "slot_escaped_fn_str"}
MarkedSafe(o) == o \in {"safe", "fn_safe", "slot_fn_safe"}
DeclaredEscaped(o) == o = "slot_escaped_fn_str"
Hop(via, flag) == [via |-> via, flag |-> flag]
\* The first hop hands the content over from Python.  A template fill that is handed on from Python
\* again ("fill" followed by "render"/"dynamic") is a question of slot resolution, not of escaping
\* (the re-passed {% slot %} tag is then resolved in another component's context): not generated.
WellFormed(hops) == /\ Len(hops) >= 1 /\ hops[1].via # "fill"
                    /\ \A i, j \in 1..Len(hops) : i < j /\ hops[i].via = "fill" => hops[j].via = "fill"
UserFlags(hops) == LET h == SelectSeq(hops, LAMBDA x : x.via # "fill") IN [i \in 1..Len(h) |-> h[i].flag]

(* Number of times the content may be found escaped in the final output.    *)
(* Determined: safe -> 0; first flag True -> 1; every flag False -> 0.       *)
(* Not determined by the property (admitted {0,1}): content first accepted   *)
(* with escape_slots_content=False and later re-passed with True; a Slot the *)
(* user declared escaped.  2 is never admitted.                              *)
Admitted(o, hops) ==
  LET fl == UserFlags(hops) IN
  IF MarkedSafe(o) THEN {0}
  ELSE IF DeclaredEscaped(o) THEN {0, 1}
  ELSE IF fl[1] THEN {1}
  ELSE IF \E i \in 2..Len(fl) : fl[i] THEN {0, 1}
  ELSE {0}

(* "HTML-escaped": & < > always; quotes are escaped by Django, leaving them  *)
(* is equally harmless in text content, so both spellings are admitted.      *)
EscNQChar(c) == CASE c = "&" -> "&amp;" [] c = "<" -> "&lt;" [] c = ">" -> "&gt;" [] OTHER -> c
EscapeNQ(s) == Cat([i \in 1..Len(s) |-> EscNQChar(Ch(s, i))])
\* &#39; and &#x27; are the same reference
RECURSIVE CanonFrom(_, _)
CanonFrom(s, i) == IF i > Len(s) THEN ""
                   ELSE IF MatchAt(s, i, "&#39;") THEN "&#x27;" \o CanonFrom(s, i + 5)
                   ELSE Ch(s, i) \o CanonFrom(s, i + 1)
Canon(s) == IF \A i \in 1..Len(s) : Ch(s, i) # "&" THEN s ELSE CanonFrom(s, 1)
Texts(k, content) == CASE k = 0 -> {content}
                       [] k = 1 -> {Escape(content), EscapeNQ(content)}
                       [] k = 2 -> {Escape(Escape(content)), EscapeNQ(EscapeNQ(content))}
AdmittedTexts(o, hops, content) == UNION {Texts(k, content) : k \in Admitted(o, hops)}
SlotConform(o, hops, content, out) == Canon(out) \in {Canon(t) : t \in AdmittedTexts(o, hops, content)}
\* for diagnostics: how often the observed text is escaped (9: none of these)
ObservedTimes(content, out) ==
  LET ks == {k \in {0, 1, 2} : Canon(out) \in {Canon(t) : t \in Texts(k, content)}} IN
  IF ks = {} THEN 9 ELSE CHOOSE k \in ks : \A j \in ks : k <= j

(* ---- implementation-shaped wrapper machine (what _normalize_slot_fills   *)
(* does): a slot is wrapped in an escaping function unless it is a Slot     *)
(* flagged `escaped`; the flag is set by every wrap.  TLC checks that the    *)
(* count this machine produces is always admitted above (MC_C13S).           *)
BInit(o) == [kind  |-> IF o \in {"str", "safe"} THEN "text" ELSE IF o \in {"fn_str", "fn_safe"} THEN "func" ELSE "slot",
             safe  |-> MarkedSafe(o),              \* calling it yields a SafeString
             esc   |-> DeclaredEscaped(o),         \* Slot.escaped
             named |-> FALSE,                      \* slot_name / component_name filled in
             count |-> 0]
Inc(b, flag) == b.count + (IF flag /\ ~b.safe THEN 1 ELSE 0)
BNormalize(b, flag) ==
  IF b.kind = "text"
  THEN [kind |-> "slot", safe |-> TRUE, esc |-> FALSE, named |-> TRUE, count |-> Inc(b, flag)]
  ELSE IF b.kind = "slot" /\ b.esc /\ b.named THEN b
  ELSE IF b.kind = "func" \/ ~b.esc
  THEN [kind |-> "slot", safe |-> b.safe \/ flag, esc |-> TRUE, named |-> TRUE, count |-> Inc(b, flag)]
  ELSE [b EXCEPT !.named = TRUE]
BHop(b, h) == CASE h.via = "render"  -> BNormalize(b, h.flag)
                [] h.via = "dynamic" -> BNormalize(BNormalize(b, h.flag), FALSE)
                [] h.via = "fill"    -> [kind |-> "slot", safe |-> TRUE, esc |-> FALSE, named |-> TRUE, count |-> b.count]
RECURSIVE BRun(_, _)
BRun(b, hops) == IF hops = <<>> THEN b ELSE BRun(BHop(b, hops[1]), Tail(hops))
BCount(o, hops) == BRun(BInit(o), hops).count
=============================================================================
