--------------------------- MODULE AdversarialInputs ---------------------------
(***************************************************************************)
(* C12, input classes beyond the short exhaustive strings of TagArgs, and   *)
(* the time bound.  The property quantifies over EVERY string placed in a   *)
(* django-components tag and EVERY template source and demands              *)
(*   outcome \in ParseOutcomes  /\  time <= a quadratic in the input length. *)
(* Two families of inputs that the strings of <= 5 symbols cannot reach:     *)
(*                                                                          *)
(*  1. PUMPED inputs  pre . u^k . suf : a short context `pre` (an opened     *)
(*     string, bracket, translation, keyword ...), a short unit `u` repeated *)
(*     k times (k = 40..60, far beyond the exhaustive length bound) and a    *)
(*     short tail `suf` that closes the context, leaves it open (suf = <<>>, *)
(*     the unterminated variant) or makes the match fail at the very end.    *)
(*     Also: a substring of a valid tag text pumped in place, optionally     *)
(*     with everything behind it cut off (PumpSub).  A scanner whose cost is *)
(*     exponential in the number of repetitions - wherever that cost is      *)
(*     spent, Python code or the regex engine - exceeds CpuBudgetMs on these.*)
(*                                                                          *)
(*  2. LIBRARY TAGS with any leading words: every tag the library registers  *)
(*     ({% component %}, {% slot %}, {% fill %}, {% provide %}, {% html_attrs*)
(*     %}, the two dependency tags, a tag made with @template_tag, a         *)
(*     component behind the shorthand formatter) followed by every sequence  *)
(*     of <= N words of LeadWords - so the tag's required leading arguments  *)
(*     are present, missing, or replaced by keyword arguments, flags,        *)
(*     spreads, literals or garbage - self-closing, as a block, or left open,*)
(*     at top level or inside a component body.  Compiled by Template(src).  *)
(*                                                                          *)
(* Time bound: the CPU time a parse may take is CpuBudgetMs(number of        *)
(* characters) = BudgetBaseMs + n^2 / BudgetQuadDiv  milliseconds.  Measured *)
(* on the unchanged scanners: linear inputs need about 0.02 ms per character *)
(* (40 ms for a 1500-character template: 1/80 of the bound), the one          *)
(* quadratic family - nested translation openers `_(`^m - about 0.6 us * n^2  *)
(* (150 ms for the longest one generated, 500 characters: 1/8 of the bound); *)
(* the worst cpu/bound ratio of a run is written to the evidence file.  The   *)
(* bound is deliberately generous - a time bound must never alarm on a       *)
(* loaded machine, and it is CPU time of the parsing process, not wall time -*)
(* and still far below exponential cost at k >= 40 repetitions.              *)
(* (The harness reads the two constants from this file.)                     *)
(***************************************************************************)
EXTENDS Naturals, Sequences

(* ------------------------------ configurations ------------------------ *)
\* The property quantifies over configurations too: a template is compiled by an engine, and an
\* engine in debug mode (Engine(debug=True), settings.DEBUG) annotates every exception that
\* leaves the compilation with the position of the error (template_debug) - code that only runs
\* in that mode and only on the error path.  The outcome set is the same in every mode:
\* ParseOutcomes, within the time bound.  So every source is compiled once per engine mode;
\* parse_tag(text) involves no engine.  Channel names: the plain mode has no suffix.
EngineModes == <<"plain", "debug">>
ChanName(c, mode) == IF mode = "plain" THEN c ELSE c \o "+" \o mode
RECURSIVE PerMode(_)
PerMode(cs) == IF cs = <<>> THEN <<>>
               ELSE <<ChanName(Head(cs), EngineModes[1]), ChanName(Head(cs), EngineModes[2])>> \o PerMode(Tail(cs))
\* what has to be observed for a tag text (parse_tag, the @template_tag tag, the component tag)
\* and for a template source
TagChannels == <<"parse_tag">> \o PerMode(<<"probe", "comp">>)
TplChannels == PerMode(<<"template">>)

(* ------------------------------ pumping -------------------------------- *)
RECURSIVE Rep(_, _)
Rep(u, k) == IF k = 0 THEN <<>> ELSE u \o Rep(u, k - 1)

PumpText(pre, u, k, suf) == pre \o Rep(u, k) \o suf

\* the substring i..j of txt repeated k times in place; cut: everything behind it dropped
PumpSub(txt, i, j, k, cut) ==
  SubSeq(txt, 1, i - 1) \o Rep(SubSeq(txt, i, j), k) \o (IF cut THEN <<>> ELSE SubSeq(txt, j + 1, Len(txt)))

(* ------------------------------ time bound ----------------------------- *)
BudgetBaseMs == 1000
BudgetQuadDiv == 1000
CpuBudgetMs(nchars) == BudgetBaseMs + (nchars * nchars) \div BudgetQuadDiv

\* number of characters of a text given as a sequence of symbols (strings)
RECURSIVE Chars(_)
Chars(syms) == IF syms = <<>> THEN 0 ELSE Len(Head(syms)) + Chars(Tail(syms))

(* ------------------------------ library tags --------------------------- *)
\* tags available to every template of the harness: the seven tags of
\* django_components.templatetags.component_tags, a tag made with @template_tag (vfprobe)
\* and a component registered behind ShorthandComponentFormatter (vf_short_c02)
LibTags == {"component", "slot", "fill", "provide", "html_attrs", "component_css_dependencies",
            "component_js_dependencies", "vfprobe", "vf_short_c02"}
EndOf(t) == "end" \o t

\* what can stand where a tag expects its first argument(s)
LeadWords == {
  "'vf_probe_c12'", "\"n\"", "\"\"", "\"a=b\"",                \* quoted names (registered, other, empty, with =)
  "a", "1", "a|upper", "_(\"x\")",                             \* variable, number, filter, translation
  "k=\"v\"", "name='vf_probe_c12'", "name=a", "name=", "data='x'", "attrs:class=cls", "k=...d",   \* keywords
  "only", "default", "required",                               \* flags
  "...d", "**d", "...{\"a\": 1}", "[1]", "{}",                 \* spreads and literals
  "=", "=v", "k=", ":", "/"                                    \* garbage
}
Forms == {"inline", "block", "open"}      \* `{% t .. / %}`,  `{% t .. %}x{% endt %}`,  `{% t .. %}`
Wraps == {"bare", "comp"}                 \* at top level / inside the body of a component tag

RECURSIVE Spaced(_)
Spaced(ws) == IF ws = <<>> THEN <<>> ELSE <<" ", Head(ws)>> \o Spaced(Tail(ws))

\* the template source, as a sequence of pieces the harness joins
TagSource(t, ws, form) ==
  <<"{% ", t>> \o Spaced(ws) \o (IF form = "inline" THEN <<" /">> ELSE <<>>) \o <<" %}">>
  \o (IF form = "block" THEN <<"x", "{% ", EndOf(t), " %}">> ELSE <<>>)
LibSource(t, ws, form, wrap) ==
  IF wrap = "comp" THEN <<"{% component 'vf_probe_c12' %}">> \o TagSource(t, ws, form) \o <<"{% endcomponent %}">>
  ELSE TagSource(t, ws, form)
=============================================================================
