------------------------------ MODULE MC_C17K ------------------------------
(***************************************************************************)
(* Bounded instance of Finder over *configurations*: the allowed list is   *)
(* unset or any set of at most MaxA patterns of PatPool (PatIdx), the      *)
(* forbidden list likewise with at most MaxF patterns, given under the     *)
(* current or the deprecated setting name.  One fixed tree holds every     *)
(* (directory, name) of DirIdx x NameIdx.  Each state (= configuration) is *)
(* exported with the set of paths the specification exposes.               *)
(***************************************************************************)
EXTENDS FinderPools, TLC, Json, IOUtils

CONSTANTS PatIdx, MaxA, MaxF, NameIdx, DirIdx

VARIABLES ca, cf, leg
kVars == <<ca, cf, leg>>

NoList == [set |-> FALSE, ix |-> {}]
KInit == ca = NoList /\ cf = NoList /\ leg = FALSE
SetA == ~ca.set /\ ca' = [set |-> TRUE, ix |-> {}] /\ UNCHANGED <<cf, leg>>
AddA(i) == ca.set /\ i \notin ca.ix /\ Cardinality(ca.ix) < MaxA
           /\ ca' = [ca EXCEPT !.ix = @ \cup {i}] /\ UNCHANGED <<cf, leg>>
SetF == ~cf.set /\ cf' = [set |-> TRUE, ix |-> {}] /\ UNCHANGED <<ca, leg>>
AddF(i) == cf.set /\ i \notin cf.ix /\ Cardinality(cf.ix) < MaxF
           /\ cf' = [cf EXCEPT !.ix = @ \cup {i}] /\ UNCHANGED <<ca, leg>>
Deprecated == cf.set /\ ~leg /\ leg' = TRUE /\ UNCHANGED <<ca, cf>>
KNext == SetA \/ SetF \/ Deprecated \/ \E i \in PatIdx : AddA(i) \/ AddF(i)
KSpec == KInit /\ [][KNext]_kVars

RECURSIVE SeqOf(_)
SeqOf(S) == IF S = {} THEN <<>>
            ELSE LET m == CHOOSE x \in S : \A y \in S : x <= y IN <<PatPool[m]>> \o SeqOf(S \ {m})
AsList(x) == IF x.set THEN Lst(SeqOf(x.ix)) ELSE Unset
C == Cfg(AsList(ca), IF leg THEN Unset ELSE AsList(cf), IF leg THEN AsList(cf) ELSE Unset)

AllPaths == {PathStr([d |-> d, n |-> n]) : d \in DirIdx, n \in NameIdx}

Theorems == /\ WellFormedCfg(C) /\ SuffixesOK(C)
            /\ \A p \in AllPaths : FileTheorems(p, C)

Export ==
  Serialize(ToJson([cfg |-> C,
                    exp |-> {p \in AllPaths : Exposed(p, C)},
                    dev |-> {FileRow(p, C) : p \in {q \in AllPaths : Exposed(q, C) # DevExposed(q, C)}}]) \o "\n",
            IOEnv.OUT, [format |-> "TXT", charset |-> "UTF-8",
                        openOptions |-> <<"WRITE", "CREATE", "APPEND">>]).exitValue = 0
=============================================================================
