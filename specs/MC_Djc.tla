------------------------------- MODULE MC_Djc -------------------------------
(***************************************************************************)
(* Exhaustive enumeration of component programs (spec -> code direction).  *)
(* A page is grown token by token (Leaf / Open / Close actions over a      *)
(* stack of open nodes), so breadth-first search to MaxNodes nodes visits  *)
(* EVERY well-formed page over the alphabet, over a fixed library of       *)
(* component templates that contains every slot feature of C01 (named,     *)
(* default-flagged, required, repeated in a loop, nested in a slot         *)
(* default, inside a fill passed on to a child, slot data, component as    *)
(* root).  For every complete page TLC evaluates the reference semantics,  *)
(* checks the theorems below and exports [program, expected observation].  *)
(***************************************************************************)
EXTENDS DjcSemantics, Json, IOUtils

CONSTANTS MaxNodes, Mode, Alphabet      \* Alphabet \in {"slots", "scope", "provide"}

C(v) == [k |-> "c", v |-> v, x |-> ""]
V(x) == [k |-> "v", x |-> x, v |-> ""]
T(id) == [t |-> "text", id |-> id]
Var(x) == [t |-> "var", x |-> x]
Isf(s) == [t |-> "isf", s |-> s]
Slot(n, d, r, data, a) == [t |-> "slot", n |-> n, d |-> d, r |-> r, data |-> data, a |-> a]
Comp(c, kw, only, body, a) == [t |-> "comp", c |-> c, kw |-> kw, only |-> only, body |-> body, a |-> a]
Fill(ne, dv, fv, a) == [t |-> "fill", ne |-> ne, dv |-> dv, fv |-> fv, a |-> a]
For(x, xs, a) == [t |-> "for", x |-> x, xs |-> xs, a |-> a]
El(id, a) == [t |-> "elem", id |-> id, a |-> a]
Asg(x, e, dflt) == [t |-> "asg", x |-> x, e |-> e, dflt |-> dflt]
Data(x, k, v, a, dflt) == [x |-> x, k |-> k, v |-> v, a |-> a, dflt |-> dflt]

\* ---- the fixed component library ------------------------------------------
Lib ==
  << \* c1: wrapper whose root is a component; passes its own slots on inside fills
     [data |-> << Data("y", "const", "c1y", "", "") >>,
      tpl  |-> << T("L1"),
                  Comp(3, << <<"x", V("y")>> >>, FALSE, "fills",
                       << Fill(C("a"), "", "", << Slot("a", FALSE, FALSE, <<>>, << T("L2") >>) >>),
                          Fill(C("b"), "", "", << T("L3"), Slot("b", FALSE, FALSE, <<>>, <<>>) >>) >>),
                  Isf("a") >>],
     \* c2: default-flagged slot repeated in a loop, slot nested in a slot default
     [data |-> << Data("y", "const", "c2y", "", ""), Data("x", "kwarg", "", "x", "") >>,
      tpl  |-> << For("i", "xs", << Slot("a", TRUE, FALSE, << <<"k", V("i")>> >>,
                                         << T("L4"), Var("i"), Slot("b", FALSE, FALSE, <<>>, << T("L5") >>) >>) >>),
                  Var("y"), Var("x"), Isf("default"), Isf("b"),
                  \* the same slot name again WITHOUT the default flag (flags are per tag)
                  Slot("a", FALSE, FALSE, <<>>, << T("L13") >>) >>],
     \* c3: named slots with slot data, same slot name nested in another slot's default
     [data |-> << Data("x", "kwarg", "", "x", "") >>,
      tpl  |-> << Slot("a", FALSE, FALSE, << <<"k", V("x")>> >>, << T("L6"), Var("x") >>),
                  Slot("b", FALSE, FALSE, <<>>, << Slot("a", FALSE, FALSE, <<>>, << T("L7") >>) >>),
                  Isf("b") >>],
     \* c4: consumer without default (KeyError outside a provider), provider around a slot,
     \*     consumer components inside its own provider and after it
     [data |-> << Data("inj", "inject", "", "p", ""), Data("ik", "injkeys", "", "p", "") >>,
      tpl  |-> << [t |-> "fld", x |-> "inj", f |-> "f"], Var("ik"),
                  [t |-> "provide", key |-> "p", kw |-> << <<"f", C("c4in")>>, <<"g", C("c4g")>> >>,
                   a |-> << Comp(13, <<>>, FALSE, "none", <<>>),
                            Slot("a", TRUE, FALSE, <<>>, << Comp(13, <<>>, FALSE, "none", <<>>) >>) >>],
                  Comp(13, <<>>, FALSE, "none", <<>>) >>],
     \* c5: leaf with a required default slot; consumer with a default
     [data |-> << Data("z", "const", "c4z", "", ""), Data("inj", "inject", "", "p", "none") >>,
      tpl  |-> << T("L8"), Slot("a", TRUE, TRUE, <<>>, <<>>), Var("z"), [t |-> "fld", x |-> "inj", f |-> "f"] >>]
     ,
     \* ---- C14 library: root elements -------------------------------------------------
     \* c6: two root elements, a slot nested INSIDE an element (its content is not a root)
     [data |-> << Data("cid", "id", "", "", "") >>,
      tpl  |-> << Var("cid"), El("A", << T("L9") >>),
                  El("B", << Slot("a", FALSE, FALSE, <<>>, << El("C", <<>>) >>) >>) >>],
     \* c7: a slot at depth 0: the content's elements (fill or default) are roots; text-only root
     [data |-> << Data("cid", "id", "", "", "") >>,
      tpl  |-> << Var("cid"), Slot("a", TRUE, FALSE, <<>>, << El("D", <<>>) >>), T("L10") >>],
     \* c8: a component as root (chain): the shared root elements carry both ids
     [data |-> << Data("cid", "id", "", "", "") >>,
      tpl  |-> << Var("cid"), Comp(9, <<>>, FALSE, "none", <<>>) >>],
     \* c9: element root with a nested component, plus roots produced in a loop
     [data |-> << Data("cid", "id", "", "", ""), Data("ys", "clist", "r", "", ""), Data("me", "self", "", "", "") >>,
      tpl  |-> << Var("cid"), El("E", << Comp(10, <<>>, FALSE, "none", <<>>) >>),
                  For("i", "ys", << El("F", <<>>) >>), [t |-> "fld", x |-> "me", f |-> "id"] >>],
     \* c10: text-only component (no root element at all)
     [data |-> << Data("cid", "id", "", "", "") >>,
      tpl  |-> << Var("cid"), T("L11") >>],
     \* ---- C03 probe: prints every name a caller might leak into it (loop variable, forloop,
     \* with-bindings, page variables) and renders a slot whose default reads them too
     [data |-> << Data("z", "const", "c11z", "", "") >>,
      tpl  |-> << Var("w"), Var("i"), Var("y"), [t |-> "fld", x |-> "forloop", f |-> "counter"], Var("z"),
                  Slot("a", TRUE, FALSE, <<>>, << Var("w"), Var("x") >>) >>],
     \* ---- C14: TWO root-level component children; the first one hands the parent's slot on
     \* (in isolated mode a component in the page's fill is then rendered as a render root of its own,
     \* while the second child is still waiting)
     [data |-> << Data("cid", "id", "", "", "") >>,
      tpl  |-> << Var("cid"),
                  Comp(7, <<>>, FALSE, "fills", << Fill(C("a"), "", "", << Slot("a", FALSE, FALSE, <<>>, <<>>) >>) >>),
                  Comp(9, <<>>, FALSE, "none", <<>>) >>],
     \* ---- C05 consumer leaf: inject with a default, no slot (never raises)
     [data |-> << Data("inj", "inject", "", "p", "none"), Data("iq", "inject", "", "q", "f:zero") >>,
      tpl  |-> << T("L12"), [t |-> "fld", x |-> "inj", f |-> "f"], [t |-> "fld", x |-> "iq", f |-> "f"] >>]
     ,
     \* ---- C14 c14: a SILENT wrapper - its whole output is nested components (no text, no element of its own,
     \* no Component.id echo): every root element of its children is a root of the wrapper too
     [data |-> <<>>,
      tpl  |-> << Comp(9, <<>>, FALSE, "none", <<>>), For("i", "xs", << Comp(6, <<>>, FALSE, "none", <<>>) >>) >>]
     ,
     \* ---- c15 / c16: DEFERRED default alias.  c15 renders a slot in a loop over its OWN list (so it also loops in
     \* isolated mode); the default content reads the loop variable.  c16 - a component template, so that everything
     \* below it is rendered later by the queue - fills that slot with content that hands {{ default }} on into the
     \* body of another component: the default content is rendered after the slot's loop has moved on and must
     \* still see the iteration it belongs to
     [data |-> << Data("ys", "clist", "q", "", "") >>,
      tpl  |-> << For("i", "ys", << Slot("a", FALSE, FALSE, <<>>, << T("L14"), Var("i") >>) >>) >>]
     ,
     [data |-> <<>>,
      tpl  |-> << Comp(15, <<>>, FALSE, "fills",
                       << Fill(C("a"), "", "df", << Comp(5, <<>>, FALSE, "impl", << [t |-> "defref", x |-> "df"] >>) >>) >>) >>]
  >>

Ctx == << <<"x", Str("px")>>, <<"y", Str("py")>>, <<"xs", [k |-> "l", v |-> <<"i1", "i2">>]>>,
          <<"fl", [k |-> "l", v |-> <<"", "f1", "">>]>>,
          <<"on", Str("1")>>, <<"off", Str("")>> >>

\* which components the page may use
CompSet == CASE Alphabet = "provide" -> {2, 4, 13} [] Alphabet = "elems" -> {6, 7, 8, 9, 10, 12, 14}
             [] Alphabet = "scope" -> {1, 2, 3, 11} [] OTHER -> {1, 2, 3, 5, 16}

\* ---- page construction ----------------------------------------------------
VARIABLES stack, n
vars == <<stack, n>>

Frame(node) == [node |-> node, kids |-> <<>>]
Root == [t |-> "root"]

LeafTokens ==
  {T("t"), Var("x")} \cup {Comp(c, <<>>, FALSE, "none", <<>>) : c \in CompSet} \cup
  (CASE Alphabet = "slots" -> {[t |-> "fld", x |-> "sd", f |-> "k"], [t |-> "defref", x |-> "df"]}
     [] Alphabet = "scope" -> {Var("i"), Var("w"), Var("y"), Comp(2, << <<"x", V("i")>> >>, TRUE, "none", <<>>),
                               Comp(11, <<>>, TRUE, "none", <<>>)}
     [] Alphabet = "provide" -> {}
     [] Alphabet = "elems" -> {El("x", <<>>)})
OpenTokens ==
  {Comp(c, <<>>, FALSE, b, <<>>) : c \in CompSet, b \in {"impl", "fills"}} \cup
  (CASE Alphabet = "slots" -> {[t |-> "if", x |-> "on", a |-> <<>>, b |-> <<>>], For("i", "xs", <<>>), For("i", "fl", <<>>)}
     [] Alphabet = "scope" -> {For("i", "xs", <<>>), For("x", "xs", <<>>),
                               [t |-> "with", x |-> "w", e |-> C("kw"), a |-> <<>>],
                               [t |-> "with", x |-> "x", e |-> C("kx"), a |-> <<>>],
                               [t |-> "with", x |-> "y", e |-> V("i"), a |-> <<>>]}
     [] Alphabet = "provide" ->
          {[t |-> "provide", key |-> "p", kw |-> << <<"f", C("pv1")>> >>, a |-> <<>>],
           [t |-> "provide", key |-> "p", kw |-> << <<"f", V("x")>>, <<"h", C("ph")>> >>, a |-> <<>>],
           [t |-> "provide", key |-> "q", kw |-> << <<"f", C("qv")>> >>, a |-> <<>>],
           For("i", "xs", <<>>)}
     [] Alphabet = "elems" -> {El("y", <<>>), For("i", "xs", <<>>)})
FillTokens ==
  {Fill(C(s), "", "", <<>>) : s \in {"a", "b", "default"}} \cup
  (CASE Alphabet = "slots" -> {Fill(C("a"), "sd", "df", <<>>)}
     [] OTHER -> {})
\* wrappers allowed between a {% component %} tag and its {% fill %} tags
FillWrappers ==
  CASE Alphabet = "slots" -> {[t |-> "if", x |-> "on", a |-> <<>>, b |-> <<>>], [t |-> "if", x |-> "off", a |-> <<>>, b |-> <<>>]}
    [] Alphabet = "scope" -> {For("x", "xs", <<>>), For("i", "xs", <<>>), [t |-> "with", x |-> "x", e |-> C("kb"), a |-> <<>>]}
    [] OTHER -> {}

Top == stack[Len(stack)]
\* Are we directly inside the body of a component with explicit fills (possibly under wrappers)?
RECURSIVE InFillsBody(_)
InFillsBody(i) ==
  IF i < 1 THEN FALSE
  ELSE LET nd == stack[i].node IN
       IF nd.t = "comp" THEN nd.body = "fills"
       ELSE IF nd.t = "fill" \/ nd.t = "root" THEN FALSE
       ELSE IF nd.t \in {"if", "for", "with"} /\ "wrap" \in DOMAIN nd THEN InFillsBody(i - 1)
       ELSE FALSE

Init == stack = << Frame(Root) >> /\ n = 0

AddKid(node) == stack' = [stack EXCEPT ![Len(stack)].kids = Append(@, node)]

\* a complete conditional fill (its condition is the loop variable, so the same tag yields a fill in
\* some iterations and none in others)
CondFills == IF Alphabet = "slots"
             THEN {[t |-> "if", x |-> "i", a |-> << Fill(C(s), "", "", << T("cf") >>) >>, b |-> <<>>] : s \in {"a", "default"}}
             \* scope: a complete fill under a {% with %} that re-binds a name the page (x) or the callee's data (y)
             \* also binds, printing both - one leaf, so that "between" bindings are reached within the node bound
             ELSE IF Alphabet = "scope"
             THEN {[t |-> "with", x |-> v, e |-> C("kb"), a |-> << Fill(C(s), "", "", << Var("x"), Var("y") >>) >>]
                     : v \in {"x", "y"}, s \in {"a", "default"}}
                  \* a complete plain fill that prints the names the assignment tags below bind
                  \cup {Fill(C(s), "", "", << Var("v"), Var("y") >>) : s \in {"a", "default"}}
             ELSE {}
\* scope: assignment tags placed directly in the body of a component with explicit fills (before / after / between
\* the fills, also under the fill wrappers): a fresh name (v) and a name the page and the callee's data bind too (y)
AsgTokens == IF Alphabet = "scope" THEN {Asg("v", V("x"), "dv"), Asg("y", V("w"), "dy")} ELSE {}
Leaf == /\ n < MaxNodes
        /\ \/ ~InFillsBody(Len(stack)) /\ \E tok \in LeafTokens :
                AddKid(IF tok.t = "text" THEN T("t" \o ToString(n + 1)) ELSE tok)
           \/ InFillsBody(Len(stack)) /\ \E tok \in CondFills \cup AsgTokens : AddKid(tok)
        /\ n' = n + 1

Open == /\ n < MaxNodes
        /\ \/ ~InFillsBody(Len(stack)) /\ \E tok \in OpenTokens : stack' = Append(stack, Frame(tok))
           \/ InFillsBody(Len(stack)) /\ \E tok \in FillTokens : stack' = Append(stack, Frame(tok))
           \/ InFillsBody(Len(stack)) /\ \E tok \in FillWrappers :
                 stack' = Append(stack, Frame(tok @@ [wrap |-> TRUE]))
        /\ n' = n + 1

Strip(nd) == [f \in DOMAIN nd \ {"wrap"} |-> nd[f]]
Close == /\ Len(stack) > 1
         /\ LET f == Top
                done == [Strip(f.node) EXCEPT !.a = f.kids] IN
            \* an explicit-fills body / a fill wrapper must not stay empty
            /\ ~(f.node.t = "comp" /\ f.node.body = "fills" /\ f.kids = <<>>)
            /\ ~("wrap" \in DOMAIN f.node /\ f.kids = <<>>)
            /\ stack' = [SubSeq(stack, 1, Len(stack) - 1) EXCEPT ![Len(stack) - 1].kids = Append(@, done)]
         /\ n' = n

Next == Leaf \/ Open \/ Close
Spec == Init /\ [][Next]_vars

\* ---- complete pages ---------------------------------------------------------
Complete == Len(stack) = 1 /\ stack[1].kids # <<>>
RECURSIVE HasComp(_, _)
HasComp(nodes, i) ==
  IF i > Len(nodes) THEN FALSE
  ELSE (nodes[i].t = "comp") \/ ("a" \in DOMAIN nodes[i] /\ HasComp(nodes[i].a, 1)) \/ HasComp(nodes, i + 1)

\* C04: the assets of the library classes (shared Media files, a subclass pair with and without
\* Media.extend, blank code, classes without any asset)
NoAssets == [js |-> "", css |-> "", mjs |-> <<>>, mcss |-> <<>>, base |-> 0, ext |-> TRUE]
AssetsOf(c) ==
  CASE c = 1 -> [js |-> "J1", css |-> "S1", mjs |-> <<"f1.js", "shared.js">>, mcss |-> <<"a1.css">>, base |-> 0, ext |-> TRUE]
    [] c = 2 -> [js |-> "J2", css |-> " ", mjs |-> <<"shared.js">>, mcss |-> <<>>, base |-> 1, ext |-> TRUE]
    [] c = 3 -> [js |-> "", css |-> "S3", mjs |-> <<>>, mcss |-> <<"a3.css", "a1.css">>, base |-> 1, ext |-> FALSE]
    [] c = 5 -> [js |-> "J5", css |-> "S5", mjs |-> <<"f5.js">>, mcss |-> <<>>, base |-> 0, ext |-> TRUE]
    [] OTHER -> NoAssets
LibA == [c \in 1..Len(Lib) |-> Lib[c] @@ [assets |-> AssetsOf(c)]]
\* C04, second asset alphabet of the same library (exported beside the first: assetsB / depsB; the pages and their
\* instances do not depend on assets):
\*  - assets that arrive ONLY through inheritance: a subclass whose own Media class is empty (c2, mform = how the
\*    empty Media is spelled), Media.extend = [classes] without own files (c3: through c2 from c1; c15: from a
\*    "theme" class c4 that no page renders, NOT from its parent c1), a subclass without any Media class of a class
\*    whose Media only lists where to inherit from (c5), extend = True written out (c16);
\*  - inline code texts over an alphabet with backslash sequences (\n \d \1 \g<0> \\ \201C, trailing backslash),
\*    which must arrive unchanged.
AssetsB(c) ==
  CASE c = 1 -> [js |-> "J1 \\n \\d+ \\1", css |-> "S1 \\201C \\\\ \\n", mjs |-> <<"f1.js", "shared.js">>, mcss |-> <<"a1.css">>,
                 base |-> 0, ext |-> TRUE]
    [] c = 2 -> [js |-> "J2 \\g<0> \\\\", css |-> " ", mjs |-> <<>>, mcss |-> <<>>, base |-> 1, ext |-> TRUE, mform |-> "bare"]
    [] c = 3 -> [js |-> "", css |-> "S3 \\d \\g<1>", mjs |-> <<>>, mcss |-> <<>>, base |-> 0, ext |-> TRUE, extl |-> <<2>>]
    [] c = 4 -> [js |-> "J4", css |-> "", mjs |-> <<"theme.js">>, mcss |-> <<"theme.css", "print.css">>, base |-> 0, ext |-> TRUE,
                 cssdict |-> TRUE]
    [] c = 5 -> [js |-> "J5 \\", css |-> "S5 \\1", mjs |-> <<>>, mcss |-> <<>>, base |-> 3, ext |-> TRUE]
    [] c = 15 -> [js |-> " ", css |-> " ", mjs |-> <<"f15.js">>, mcss |-> <<>>, base |-> 1, ext |-> TRUE, extl |-> <<4>>]
    [] c = 16 -> [js |-> "J16 \\n", css |-> " ", mjs |-> <<>>, mcss |-> <<>>, base |-> 4, ext |-> TRUE, mform |-> "explicit"]
    [] OTHER -> NoAssets
LibB == [c \in 1..Len(Lib) |-> Lib[c] @@ [assets |-> AssetsB(c)]]
Prog(mode, devs) == [mode |-> mode, devs |-> devs, dyn |-> FALSE, pyctx |-> FALSE, ctx |-> Ctx, comps |-> LibA, page |-> stack[1].kids]

\* Theorems of the reference semantics, checked on every complete page:
\*  - evaluation never runs out of fuel and raises only the documented errors;
\*  - UnrenderedFillsIgnored (C01): giving every component with explicit fills one more fill,
\*    for a slot name that no template renders, changes nothing in the output.
RECURSIVE AddFill(_, _)
AddFill(nodes, i) ==
  IF i > Len(nodes) THEN <<>>
  ELSE LET nd == nodes[i]
           nd2 == IF "a" \in DOMAIN nd
                  THEN [nd EXCEPT !.a = AddFill(nd.a, 1) \o
                          (IF nd.t = "comp" /\ nd.body = "fills"
                           THEN << Fill(C("zz"), "", "", << T("ZZ") >>) >> ELSE <<>>)]
                  ELSE nd
       IN <<nd2>> \o AddFill(nodes, i + 1)

\* Does the page itself (not the library) read a variable?  (var / field prints, if / for / with,
\* keyword arguments or fill names given as variables)
RECURSIVE ReadsVar(_, _)
KwReads(kw) == \E j \in 1..Len(kw) : kw[j][2].k = "v"
ReadsVar(nodes, i) ==
  IF i > Len(nodes) THEN FALSE
  ELSE LET nd == nodes[i] IN
       \/ nd.t \in {"var", "fld", "if", "for", "with", "defref", "asg"}
       \/ (nd.t \in {"comp", "provide"} /\ KwReads(nd.kw))
       \/ (nd.t = "fill" /\ nd.ne.k = "v")
       \/ ("a" \in DOMAIN nd /\ ReadsVar(nd.a, 1))
       \/ ReadsVar(nodes, i + 1)

Ctx2 == << <<"x", Str("qx")>>, <<"y", Str("")>>, <<"xs", [k |-> "l", v |-> <<"j1", "j2", "j3">>]>>,
           <<"on", Str("")>>, <<"off", Str("1")>>, <<"w", Str("qw")>>, <<"i", Str("qi")>> >>

\*  - NonInterference (C03): in isolated mode a page that passes nothing (reads no variable itself)
\*    renders the same whatever the page context holds - output never depends on a variable that
\*    was not explicitly passed.
RECURSIVE HasCondFill(_, _)
HasCondFill(nodes, i) ==
  IF i > Len(nodes) THEN FALSE
  ELSE LET nd == nodes[i] IN
       \/ (nd.t = "if" /\ nd.a # <<>> /\ nd.a[1].t = "fill")
       \/ ("a" \in DOMAIN nd /\ HasCondFill(nd.a, 1))
       \/ HasCondFill(nodes, i + 1)

SemanticsTheorems ==
  Complete /\ HasComp(stack[1].kids, 1) =>
    LET p == Prog(Mode, <<>>)
        r == Run(p)
        q == Run([p EXCEPT !.page = AddFill(p.page, 1)]) IN
    /\ r.err \in {"", "TemplateSyntaxError", "KeyError"}
    \* (a body whose fills are all conditional may yield no fill at all and then counts as implicit
    \*  default content - an additional fill changes that, so such pages are outside the theorem)
    /\ (HasCondFill(p.page, 1) \/ r.zone \/ q.zone \/ (r.out = q.out /\ r.err = q.err))
    /\ (Mode = "isolated" /\ ~ReadsVar(p.page, 1)) =>
          LET o == Run([p EXCEPT !.ctx = Ctx2]) IN (r.zone \/ o.zone \/ (r.out = o.out /\ r.err = o.err))

Opts == [format |-> "TXT", charset |-> "UTF-8", openOptions |-> <<"WRITE", "CREATE", "APPEND">>]
\* the library and page context, written once (initial state)
ExportLib ==
  n = 0 /\ Len(stack) = 1 /\ stack[1].kids = <<>> =>
    Serialize(ToJson([comps |-> LibA, ctx |-> Ctx, assetsB |-> [c \in 1..Len(Lib) |-> AssetsB(c)]]) \o "\n",
              IOEnv.LIB, Opts).exitValue = 0
Export ==
  Complete /\ HasComp(stack[1].kids, 1) =>
    LET r == Run(Prog(Mode, <<>>)) IN
    Serialize(ToJson([page |-> stack[1].kids, mode |-> Mode, out |-> r.out, err |-> r.err, errs |-> r.errs,
                      zone |-> r.zone, insts |-> r.insts, elems |-> r.elems, marks |-> r.marks,
                      deps |-> Deps(Prog(Mode, <<>>), r.insts),
                      depsB |-> Deps([Prog(Mode, <<>>) EXCEPT !.comps = LibB], r.insts)]) \o "\n", IOEnv.OUT, Opts).exitValue = 0
=============================================================================
