---------------------------- MODULE DjcSemantics ----------------------------
(***************************************************************************)
(* Abstract reference semantics of django-components "component programs"  *)
(* (layer A of DESIGN.md section 3).  Written from the property statements *)
(* C01 (slot/fill resolution), C03 (variable scoping), C05 (provide /      *)
(* inject), C14 (render ids on root elements), C04 (which classes were     *)
(* rendered, in which order) and the documentation - not from the code.    *)
(*                                                                         *)
(* A program P is a record                                                 *)
(*   [mode  : "django" | "isolated",                                       *)
(*    ctx   : <<name, value>> pairs (the page context),                    *)
(*    comps : sequence of [data, tpl]  (component i is registered "c<i>"),  *)
(*    page  : node sequence,                                               *)
(*    devs  : set of named deviations (see "Known deviations" below)]      *)
(* Nodes are records with a field t (see EvalNode).  Values are tagged:     *)
(*   [k |-> "s", v |-> string], [k |-> "l", v |-> <<strings>>],            *)
(*   [k |-> "d", v |-> <<field, value>> pairs], [k |-> "u"] (undefined),    *)
(*   [k |-> "ref", a, env] (a slot's default content, for {{ default }}).   *)
(*                                                                         *)
(* Run(P) returns [out, err, errs, zone, insts]:                                  *)
(*   out   - the rendered page as a sequence of tokens,                    *)
(*   err   - "" or the exception class a correct library raises,           *)
(*   zone  - TRUE if the evaluation touched a construct whose outcome the  *)
(*           properties do not determine (the harness then skips it),      *)
(*   insts - component instances in document order: <<inst path, comp>>.   *)
(***************************************************************************)
EXTENDS Naturals, Sequences, FiniteSets, TLC

Undef == [k |-> "u"]
Str(s) == [k |-> "s", v |-> s]
Range(s) == {s[i] : i \in 1..Len(s)}

(* ---------------- layered variable environments ------------------------ *)
\* A layer is [kind, inst, b]: kind \in {"page","data","with","for","alias"},
\* inst = the component instance a "data" layer belongs to, b = <<name, value>> pairs.
Layer(kind, inst, b) == [kind |-> kind, inst |-> inst, b |-> b]
HasB(b, x) == \E i \in 1..Len(b) : b[i][1] = x
GetB(b, x) == b[CHOOSE i \in 1..Len(b) : b[i][1] = x /\ \A j \in (i+1)..Len(b) : b[j][1] # x][2]
Lookup(vars, x) ==
  LET I == {i \in 1..Len(vars) : HasB(vars[i].b, x)} IN
  IF I = {} THEN Undef ELSE GetB(vars[CHOOSE i \in I : \A j \in I : j <= i].b, x)

EvalExpr(e, vars) == IF e.k = "c" THEN Str(e.v) ELSE Lookup(vars, e.x)
Truthy(v) == CASE v.k = "s" -> v.v # ""
               [] v.k = "l" -> v.v # <<>>
               [] v.k = "d" -> v.v # <<>>            \* a dict (slot data / provided data) is true iff non-empty
               [] v.k = "ref" -> TRUE                 \* the default alias of a fill (an object)
               [] OTHER -> FALSE
Show(v) == IF v.k = "s" THEN v.v ELSE ""          \* generated programs only print scalars
Field(v, f) == IF v.k = "d" /\ HasB(v.v, f) THEN GetB(v.v, f) ELSE Undef
EvalKw(kw, vars) == [i \in 1..Len(kw) |-> <<kw[i][1], EvalExpr(kw[i][2], vars)>>]

(* ---------------- results ---------------------------------------------- *)
\* err is the first error in document order; errs collects every error the program contains
\* (evaluation continues past an error only to collect them): the deferred renderer may hit a
\* later one first, and the properties do not say which of several errors must surface.
\* C14: elems lists every HTML element occurrence of the page in document order as
\* <<element id, occurrence key>>; tops are the occurrences at nesting depth 0 of this piece of
\* output; marks are <<occurrence key, instance key>>: the element is a root of that instance.
Res(out, err, zone, insts) == [out |-> out, err |-> err, zone |-> zone, insts |-> insts,
                               errs |-> IF err = "" THEN {} ELSE {err},
                               tops |-> <<>>, elems |-> <<>>, marks |-> <<>>]
Ok(out) == Res(out, "", FALSE, <<>>)
Fail(e) == Res(<<>>, e, FALSE, <<>>)
Zone    == Res(<<>>, "", TRUE, <<>>)
Join(r1, r2) == [out |-> r1.out \o r2.out, err |-> IF r1.err # "" THEN r1.err ELSE r2.err,
                 zone |-> r1.zone \/ r2.zone, insts |-> r1.insts \o r2.insts, errs |-> r1.errs \cup r2.errs,
                 tops |-> r1.tops \o r2.tops, elems |-> r1.elems \o r2.elems, marks |-> r1.marks \o r2.marks]

NoOwner == [has |-> FALSE]

(* ---------------- provide / inject (C05) -------------------------------- *)
\* prov: sequence of <<key, dict value>>, outermost first, following the *rendered* structure.
Nearest(prov, key) ==
  LET I == {i \in 1..Len(prov) : prov[i][1] = key} IN
  IF I = {} THEN Undef ELSE prov[CHOOSE i \in I : \A j \in I : j <= i][2]

RECURSIVE JoinNames(_, _)
JoinNames(b, i) == IF i > Len(b) THEN "" ELSE b[i][1] \o (IF i < Len(b) THEN "," ELSE "") \o JoinNames(b, i + 1)

\* What get_context_data() of a generated component returns: <<ok, bindings>>.
\*  const:   x = literal   clist: x = [v1, v2]   kwarg:  x = kwargs.get(key, "")   id: x = self.id
\*  inject:  x = self.inject(key[, default])       (KeyError if absent and no default)
\*  injkeys: x = ",".join(self.inject(key)._fields)
RECURSIVE ContextData(_, _, _, _, _)
ContextData(defs, i, kw, prov, inst) ==
  IF i > Len(defs) THEN [err |-> "", b |-> <<>>]
  ELSE LET d == defs[i]
           inj == Nearest(prov, d.a)
           one == CASE d.k = "const"   -> [err |-> "", v |-> Str(d.v)]
                    [] d.k = "clist"   -> [err |-> "", v |-> [k |-> "l", v |-> <<d.v \o "1", d.v \o "2">>]]
                    [] d.k = "kwarg"   -> [err |-> "", v |-> IF HasB(kw, d.a) THEN GetB(kw, d.a) ELSE Str("")]
                    [] d.k = "id"      -> [err |-> "", v |-> Str(ToString(inst))]      \* self.id
                    \* user code re-seeding Python's global random generator (random.seed(<constant>)): no effect
                    \* on anything the specification talks about - in particular render ids stay distinct
                    [] d.k = "seedrng" -> [err |-> "", v |-> Str("")]
                    \* x = self: the template reads {{ x.id }} while it is being rendered
                    [] d.k = "self"    -> [err |-> "", v |-> [k |-> "d", v |-> << <<"id", Str(ToString(inst))>> >>]]
                    [] d.k = "inject"  -> IF inj.k # "u" THEN [err |-> "", v |-> inj]
                                          ELSE IF d.dflt # "" THEN [err |-> "", v |-> Str(d.dflt)]
                                          ELSE [err |-> "KeyError", v |-> Undef]
                    [] d.k = "injkeys" -> IF inj.k # "u" THEN [err |-> "", v |-> Str(JoinNames(inj.v, 1))]
                                          ELSE IF d.dflt # "" THEN [err |-> "", v |-> Str(d.dflt)]
                                          ELSE [err |-> "KeyError", v |-> Undef]
           rest == ContextData(defs, i + 1, kw, prov, inst)
       IN IF one.err # "" THEN [err |-> one.err, b |-> <<>>]
          ELSE IF rest.err # "" THEN rest
          ELSE [err |-> "", b |-> <<<<d.x, one.v>>>> \o rest.b]

(* ---------------- fills (C01) ------------------------------------------- *)
\* A fill is a closure: its body, the environment at the {% component %} tag it was written
\* under (lexical owner, variables), the bindings made between that tag and the {% fill %} tag
\* (loops / with), and the optional data / default aliases.
Closure(a, env, btw, dv, fv) == [a |-> a, env |-> env, btw |-> btw, dv |-> dv, fv |-> fv]

ForLayer(x, item, n) ==
  Layer("for", <<>>, << <<"forloop", [k |-> "d", v |-> << <<"counter", Str(ToString(n))>> >>]>>, <<x, Str(item)>> >>)
WithLayer(x, v) == Layer("with", <<>>, << <<x, v>> >>)

ListOf(v) == IF v.k = "l" THEN v.v ELSE <<>>

\* Assignment tags (optional node kind "asg", C03): a tag that BINDS a variable instead of opening a block
\* - {% firstof e "dflt" as x %} (also {% now .. as x %}, {% cycle .. as x %}, simple tags with `as`) - binds x
\* for the REST OF THE ENCLOSING BODY.  Placed between a {% component %} tag and a {% fill %} that follows it,
\* it is a "variable bound between the component tag and the fill" like a {% with %} around that fill: visible
\* inside the fills that follow it (both modes; in isolated mode re-binding an otherwise bound name is the
\* same unspecified zone as for {% with %}, see WithCollision).  firstof: the first true value, else the literal.
AsgValue(m, vars) == LET v == EvalExpr(m.e, vars) IN IF Truthy(v) THEN Str(Show(v)) ELSE Str(m.dflt)
RECURSIVE HasAsg(_)
HasAsg(nodes) == \E i \in 1..Len(nodes) :
                    \/ nodes[i].t = "asg"
                    \/ (nodes[i].t \in {"with", "for", "if"} /\ HasAsg(nodes[i].a))
                    \/ (nodes[i].t = "if" /\ HasAsg(nodes[i].b))

RECURSIVE Collect(_, _, _, _)
RECURSIVE CollectFor(_, _, _, _, _)
Collect(nodes, i, env, btw) ==
  IF i > Len(nodes) THEN <<>>
  ELSE LET m == nodes[i]
           vars == env.vars \o btw
           this == CASE m.t = "fill" -> << <<Show(EvalExpr(m.ne, vars)), Closure(m.a, env, btw, m.dv, m.fv)>> >>
                     [] m.t = "if"   -> IF Truthy(Lookup(vars, m.x)) THEN Collect(m.a, 1, env, btw)
                                        ELSE Collect(m.b, 1, env, btw)
                     [] m.t = "with" -> Collect(m.a, 1, env, Append(btw, WithLayer(m.x, EvalExpr(m.e, vars))))
                     [] m.t = "for"  -> CollectFor(m, ListOf(Lookup(vars, m.xs)), 1, env, btw)
                     [] OTHER        -> <<>>
           \* an assignment tag extends the between-bindings of the fills that FOLLOW it in this body
           btw2 == IF m.t = "asg" THEN Append(btw, WithLayer(m.x, AsgValue(m, vars))) ELSE btw
       IN this \o Collect(nodes, i + 1, env, btw2)
CollectFor(m, items, j, env, btw) ==
  IF j > Len(items) THEN <<>>
  ELSE Collect(m.a, 1, env, Append(btw, ForLayer(m.x, items[j], j))) \o CollectFor(m, items, j + 1, env, btw)

NoDupNames(fills) == \A i, j \in 1..Len(fills) : i # j => fills[i][1] # fills[j][1]

\* Django mode: "fill content sees inner-component data over variables bound between the
\* component tag and the fill over outer variables": the between-layers go right below the
\* data layer of the instance the fill was given to.
InsertBelowData(vars, inst, btw) ==
  LET I == {i \in 1..Len(vars) : vars[i].kind = "data" /\ vars[i].inst = inst} IN
  IF I = {} THEN btw \o vars
  ELSE LET i == CHOOSE i \in I : TRUE IN SubSeq(vars, 1, i - 1) \o btw \o SubSeq(vars, i, Len(vars))

(* ---------------- known deviations of the code (named, switchable) ------ *)
\* P.devs lists the deviations under which a program is evaluated; with none, Run is the
\* reference semantics.  Each name is a finding in KNOWN_FINDINGS.txt: the harness accepts a
\* real observation that differs from the reference only if it equals Run under listed
\* deviations, and reports it as KNOWN-FINDING.  To predict them exactly the environment
\* carries, next to the reference layering `vars`, the layering the code really builds
\* (`rvars`): the bindings captured around a {% fill %} are merged into ONE layer, every
\* for-loop layer of the whole context is re-applied on top of them, and the layer is placed
\* below the innermost component-data layer of the context the fill renders in.
\*  ForLoopLeaksIntoIsolated : the last layer of the real layering that holds `forloop` is
\*                             forwarded into isolated / `only` components (loop variable
\*                             included; the merged fill layer counts when it holds a loop).
\*  FillExtraLayout          : variables inside a fill are looked up in the real layering
\*                             (isolated: the caller's data shadows the fill's enclosing loops;
\*                             django: wrong layer when the slot was passed through a fill;
\*                             a {% with %} around the fill is overridden by an enclosing loop).
\*  RenderContextExposedInIsolated : in isolated mode Component.render(context=c) exposes c to the
\*                             rendered component's template (only the template tag isolates).
\*  NestedRootCallbackKeyError : a component tag evaluated under the context of a component that
\*                             belongs to ANOTHER render queue (isolated mode: default content
\*                             rendered through {{ default }} inside a page-level fill, inside a
\*                             component placed in that fill, which is a render root of its own)
\*                             crashes with a bare KeyError (post-render callback registered with
\*                             the wrong root).
\*  DynamicUsesLiveContext   : a component rendered through the dynamic component inside another
\*                             component receives the caller's context as it is when the deferred
\*                             render runs, i.e. without the {% with %} / {% for %} / fill layers
\*                             that were active at the tag.
Dev(env, name) == name \in Range(env.P.devs)
FlattenB(layers) == IF layers = <<>> THEN <<>>
                    ELSE LET RECURSIVE F(_) F(i) == IF i > Len(layers) THEN <<>> ELSE layers[i].b \o F(i + 1) IN F(1)
ForLayers(vars) == SelectSeq(vars, LAMBDA l : l.kind = "for")
Merged(F) == LET fl == ForLayers(F.env.rvars \o F.btw) IN
             Layer(IF fl # <<>> THEN "for" ELSE "with", <<>>, FlattenB(F.btw) \o FlattenB(fl))
InsertReal(vars, btw) ==
  LET I == {i \in 1..Len(vars) : vars[i].kind = "data"} IN
  IF I = {} THEN vars \o btw
  ELSE LET i == CHOOSE i \in I : \A j \in I : j <= i IN SubSeq(vars, 1, i - 1) \o btw \o SubSeq(vars, i, Len(vars))
Push(env, layer) == [env EXCEPT !.vars = Append(@, layer), !.rvars = Append(@, layer)]

\* Unspecified zone (C03): in isolated mode the property extends the lexical scope of a fill
\* "only by its enclosing loops"; a {% with %} between the component tag and the fill that
\* re-binds a name which is also bound otherwise has no determined outcome.
WithCollision(F) ==
  \E i \in 1..Len(F.btw) :
     /\ F.btw[i].kind = "with"
     /\ LET x == F.btw[i].b[1][1] IN
        \/ Lookup(F.env.vars, x).k # "u"
        \/ \E j \in 1..Len(F.btw) : j # i /\ HasB(F.btw[j].b, x)

(* ---------------- evaluation -------------------------------------------- *)
\* env = [P, vars, rvars, perm, rperm, immediate, ckey, croot, queue, own, prov, at]; `at` is the path of the node being evaluated (unique per
\* evaluation), used as the identity of component instances.
RECURSIVE EvalSeq(_, _, _, _)
RECURSIVE EvalNode(_, _, _)
RECURSIVE EvalFor(_, _, _, _, _)

EvalSeq(nodes, i, env, fuel) ==
  IF i > Len(nodes) THEN Ok(<<>>)
  ELSE LET r == EvalNode(nodes[i], [env EXCEPT !.at = Append(@, i)], fuel) IN
       IF r.err = "fuel" THEN r ELSE Join(r, EvalSeq(nodes, i + 1, env, fuel))

EvalFor(n, items, j, env, fuel) ==
  IF j > Len(items) THEN Ok(<<>>)
  ELSE LET e2 == [Push(env, ForLayer(n.x, items[j], j)) EXCEPT !.at = Append(@, j)]
           r == EvalSeq(n.a, 1, e2, fuel) IN
       IF r.err = "fuel" THEN r ELSE Join(r, EvalFor(n, items, j + 1, env, fuel))

IsolatedCall(n, env) == env.P.mode = "isolated" \/ n.only

\* Known deviation (finding, see KNOWN_FINDINGS.txt): the innermost enclosing for-loop layer
\* (loop variable and forloop) is forwarded into isolated / `only` components.
ForwardedLoop(env) ==
  LET I == {i \in 1..Len(env.rvars) : env.rvars[i].kind = "for"} IN
  IF Dev(env, "ForLoopLeaksIntoIsolated") /\ I # {}
  THEN << env.rvars[CHOOSE i \in I : \A j \in I : j <= i] >> ELSE <<>>

\* Component hooks.  comps[c].hook (optional) = [bx, bv, after]:
\*   on_render_before(context, template): "runs just before the component's template is rendered. You can
\*     use this hook to access or modify the context" - modelled: context[bx] = bv  (bx = "": no write)
\*   on_render_after(context, template, content): "receives the rendered output as the last argument. To
\*     override the content that gets rendered, you can return a string" - after \in
\*     "none" (returns None), "same" (returns content), "wrap" (returns [A<c>] content [/A<c>]),
\*     "replace" (returns the constant [R<c>]: the component's own output, its children's included, is gone;
\*     the children WERE rendered - they stay in insts - and an error inside them still surfaces).
NoHook == [bx |-> "", bv |-> "", after |-> "none"]
HookOf(def) == IF "hook" \in DOMAIN def THEN def.hook ELSE NoHook
After(hook, c, r) ==
  IF r.err # "" \/ r.zone THEN r
  ELSE CASE hook.after = "wrap"    -> [r EXCEPT !.out = <<"A" \o ToString(c)>> \o @ \o <<"/A" \o ToString(c)>>]
         [] hook.after = "replace" -> [r EXCEPT !.out = <<"R" \o ToString(c)>>, !.tops = <<>>, !.elems = <<>>, !.marks = <<>>]
         [] OTHER                  -> r

EvalComp(n, env, fuel) ==
  IF fuel = 0 THEN Fail("fuel") ELSE
  LET inst  == env.at
      def   == env.P.comps[n.c]
      kw    == EvalKw(n.kw, env.vars)
      cd    == ContextData(def.data, 1, kw, env.prov, inst)
      fills == CASE n.body = "none"  -> <<>>
                 [] n.body = "impl"  -> IF n.a = <<>> THEN <<>>
                                        ELSE << <<"default", Closure(n.a, env, <<>>, "", "")>> >>
                 [] n.body = "fills" ->
                      \* documented (resolve_fills): "If no fill nodes are found, then the content is treated as
                      \* default slot content" - the body as it stands, fill tags included
                      LET cf == Collect(n.a, 1, env, <<>>) IN
                      IF cf = <<>> THEN << <<"default", Closure(n.a, env, <<>>, "", "")>> >> ELSE cf
      \* which render queue the new instance joins: its context names a parent component -> the
      \* parent's root; otherwise it is a root of its own
      root  == IF env.ckey THEN env.croot ELSE inst
      \* Hooks (optional field): on_render_before may modify the context ("context[bx] = bv": the name is set
      \* in the component's own layer and wins over get_context_data); see After below for on_render_after
      hook  == HookOf(def)
      data  == Layer("data", inst, cd.b \o (IF hook.bx # "" THEN << <<hook.bx, Str(hook.bv)>> >> ELSE <<>>))
      \* what the callee sees of the caller (see DynamicUsesLiveContext)
      live  == Dev(env, "DynamicUsesLiveContext") /\ env.P.dyn /\ ~env.immediate
      cvars == IF live THEN env.perm ELSE env.vars
      crvars == IF live THEN env.rperm ELSE env.rvars
      \* (the fills' lexical context is snapshotted from that same late context)
      fills2 == IF live THEN [k \in 1..Len(fills) |->
                                <<fills[k][1], [fills[k][2] EXCEPT !.env = [@ EXCEPT !.vars = cvars, !.rvars = crvars]]>>]
                ELSE fills
      \* (an isolated copy is made at the tag, from the context as it is there)
      \* RenderContextExposedInIsolated (finding): the component rendered through
      \* Component.render(context=...) sees that context even in isolated mode.
      iso   == IsolatedCall(n, env) /\ ~(Dev(env, "RenderContextExposedInIsolated") /\ env.P.pyctx /\ env.immediate)
      \* Entry point of the render (C14; optional field n.via, absent = the {% component %} tag; "fresh" / "inst" /
      \* "resp" / "view" = the Python API: Component.render() / render_to_response() "may be called as class method
      \* or as instance method", Component.as_view() lets ONE instance answer every request).  The render is the
      \* same whatever requested it: a new instance `inst` (= the position of the node) with an id of its own - also
      \* when the caller re-uses one Component object or one view for several renders.  A Python-API render that is
      \* handed no context is the `only` call (it sees nothing of the caller), and there is no caller context a
      \* loop could leak from (the deviation ForLoopLeaksIntoIsolated is one of the tag's isolated copy).
      fwd   == IF "via" \in DOMAIN n THEN <<>> ELSE ForwardedLoop(env)
      tvars == IF iso THEN fwd \o <<data>> ELSE Append(cvars, data)
      trvars == IF iso THEN fwd \o <<data>> ELSE Append(crvars, data)
      env2  == [env EXCEPT !.vars = tvars, !.rvars = trvars, !.perm = tvars, !.rperm = trvars,
                           !.immediate = FALSE, !.ckey = TRUE, !.croot = root,
                           !.queue = IF env.ckey THEN env.queue ELSE inst,
                           !.own = [has |-> TRUE, inst |-> inst, fills |-> fills2]]
  IN IF n.body = "fills" /\ ~NoDupNames(fills) THEN Fail("TemplateSyntaxError")   \* documented: duplicate fill names
     \* a body without any fill counts as default slot content, assignment tags included: they then run where the
     \* slot is rendered, and how far such a binding reaches there is not determined (zone)
     ELSE IF n.body = "fills" /\ HasAsg(n.a) /\ Collect(n.a, 1, env, <<>>) = <<>> THEN Zone
     ELSE IF cd.err # "" THEN Fail(cd.err)
     ELSE IF Dev(env, "NestedRootCallbackKeyError") /\ env.ckey /\ env.croot # env.queue THEN Fail("KeyError")
     ELSE LET r == After(hook, n.c, Join(Res(<<>>, "", FALSE, << <<inst, n.c>> >>), EvalSeq(def.tpl, 1, env2, fuel - 1))) IN
          \* C14: every element at depth 0 of the instance's output is one of its root elements
          [r EXCEPT !.marks = @ \o [k \in 1..Len(r.tops) |-> <<r.tops[k], ToString(inst)>>]]

EvalSlot(n, env, fuel) ==
  IF fuel = 0 THEN Fail("fuel") ELSE
  IF ~env.own.has THEN Zone ELSE
  LET O == env.own
      fname == IF n.d /\ HasB(O.fills, "default") THEN "default" ELSE n.n
  IN IF n.d /\ n.n # "default" /\ HasB(O.fills, "default") /\ HasB(O.fills, n.n)
     THEN Fail("TemplateSyntaxError")                   \* documented: filled twice
     ELSE IF HasB(O.fills, fname) /\ env.P.mode = "isolated" /\ WithCollision(GetB(O.fills, fname))
     THEN Zone
     ELSE IF HasB(O.fills, fname)
     THEN LET F == GetB(O.fills, fname)
              sdata == [k |-> "d", v |-> EvalKw(n.data, env.vars)]
              ref == [k |-> "ref", a |-> n.a, env |-> env]
              alias == Layer("alias", <<>>,
                             (IF F.dv # "" THEN << <<F.dv, sdata>> >> ELSE <<>>) \o
                             (IF F.fv # "" THEN << <<F.fv, ref>> >> ELSE <<>>))
              base == IF env.P.mode = "isolated" THEN F.env.vars \o F.btw
                      ELSE InsertBelowData(env.vars, O.inst, F.btw)
              used == IF env.P.mode = "isolated" THEN F.env.rvars ELSE env.rvars
              rbase == InsertReal(used, <<Merged(F)>>)
              fenv == [F.env EXCEPT !.vars = Append(IF Dev(env, "FillExtraLayout") THEN rbase ELSE base, alias),
                                    !.rvars = Append(rbase, alias),
                                    \* layers of the Context object the fill renders with that outlive the fill
                                    !.perm = IF env.P.mode = "isolated" THEN F.env.vars ELSE env.perm,
                                    !.rperm = IF env.P.mode = "isolated" THEN F.env.rvars ELSE env.rperm,
                                    !.immediate = FALSE, !.queue = env.queue,
                                    !.ckey = IF env.P.mode = "isolated" THEN F.env.ckey ELSE TRUE,
                                    !.croot = IF env.P.mode = "isolated" THEN F.env.croot ELSE env.croot,
                                    !.prov = env.prov, !.at = env.at]
          IN EvalSeq(F.a, 1, fenv, fuel - 1)
     ELSE IF n.r THEN Fail("TemplateSyntaxError")       \* required slot without a fill
     ELSE EvalSeq(n.a, 1, env, fuel)

EvalNode(n, env, fuel) ==
  CASE n.t = "text" -> Ok(<<n.id>>)
    [] n.t = "var"  -> Ok(<<n.x \o "=" \o Show(Lookup(env.vars, n.x))>>)
    [] n.t = "fld"  -> Ok(<<n.x \o "." \o n.f \o "=" \o Show(Field(Lookup(env.vars, n.x), n.f))>>)
    [] n.t = "isf"  -> IF env.own.has
                       THEN Ok(<<"?" \o n.s \o "=" \o (IF HasB(env.own.fills, n.s) THEN "True" ELSE "False")>>)
                       ELSE Zone
    [] n.t = "if"   -> IF Truthy(Lookup(env.vars, n.x)) THEN EvalSeq(n.a, 1, env, fuel)
                       ELSE EvalSeq(n.b, 1, env, fuel)
    [] n.t = "for"  -> EvalFor(n, ListOf(Lookup(env.vars, n.xs)), 1, env, fuel)
    [] n.t = "with" -> EvalSeq(n.a, 1, Push(env, WithLayer(n.x, EvalExpr(n.e, env.vars))), fuel)
    [] n.t = "elem" -> LET r == EvalSeq(n.a, 1, env, fuel)
                           key == ToString(env.at) IN
                       [r EXCEPT !.tops = <<key>>, !.elems = << <<n.id, key>> >> \o @]
    [] n.t = "fill" -> Fail("TemplateSyntaxError")       \* a {% fill %} rendered outside fill collection
    [] n.t = "asg"  -> Zone                              \* only specified between a component tag and its fills
    [] n.t = "slot" -> EvalSlot(n, env, fuel)
    [] n.t = "comp" -> EvalComp(n, env, fuel)
    [] n.t = "provide" ->
         EvalSeq(n.a, 1, [env EXCEPT !.prov = Append(@, <<n.key, [k |-> "d", v |-> EvalKw(n.kw, env.vars)]>>)], fuel)
    [] n.t = "defref" ->                                   \* {{ default_alias }}: the slot's own default content
         LET v == Lookup(env.vars, n.x) IN
         IF v.k = "ref" THEN EvalSeq(v.a, 1, [v.env EXCEPT !.at = env.at, !.queue = env.queue], fuel) ELSE Ok(<<>>)

(* ---------------- JS / CSS dependencies (C04) ---------------------------- *)
\* comps[c].assets = [js, css : inline code text ("" / blank = none; any text - it is delivered as it is,
\* character by character, whatever it contains: backslash sequences, quotes, ...), mjs, mcss : Media file
\* sequences, base : index of the class it subclasses (0: none), ext : Media.extend (boolean form),
\* optional extl : Media.extend (list form)].
\* Deps(P, insts): what the final document must deliver for the instances rendered into it.
RECURSIVE Dedupe(_, _)
Dedupe(s, i) == IF i > Len(s) THEN <<>>
                ELSE (IF \E j \in 1..(i - 1) : s[j] = s[i] THEN <<>> ELSE <<s[i]>>) \o Dedupe(s, i + 1)
RenderedClasses(insts) == Dedupe([k \in 1..Len(insts) |-> insts[k][2]], 1)     \* first-appearance order
NonBlank(code) == code # "" /\ code # " "
\* Inherited Media (docs "Controlling Media Inheritance"): by default (ext, also when the class writes no Media
\* class at all or a Media class that lists no file of its own) the files of the parent class are inherited;
\* Media.extend = False inherits nothing; Media.extend = [classes] (optional field extl: indices of classes
\* defined earlier) inherits "ONLY from the specified components, and NOT from the original parent" - and what
\* is inherited from a class is ITS whole media (own + inherited in turn).  How an empty Media class is spelled
\* (field mform) does not matter.
RECURSIVE MediaFiles(_, _, _)
MediaFiles(P, c, t) ==
  LET a == P.comps[c].assets
      own == Range(IF t = "js" THEN a.mjs ELSE a.mcss) IN
  own \cup (IF "extl" \in DOMAIN a THEN UNION {MediaFiles(P, a.extl[k], t) : k \in DOMAIN a.extl}
            ELSE IF a.base # 0 /\ a.ext THEN MediaFiles(P, a.base, t) ELSE {})
Deps(P, insts) ==
  LET rc == RenderedClasses(insts)
      js == SelectSeq(rc, LAMBDA c : NonBlank(P.comps[c].assets.js))
      css == SelectSeq(rc, LAMBDA c : NonBlank(P.comps[c].assets.css)) IN
  [ijs  |-> [k \in 1..Len(js) |-> P.comps[js[k]].assets.js],          \* inline JS, once, in order
   icss |-> [k \in 1..Len(css) |-> P.comps[css[k]].assets.css],
   mjs  |-> UNION {MediaFiles(P, c, "js") : c \in Range(rc)},          \* Media files, each once
   mcss |-> UNION {MediaFiles(P, c, "css") : c \in Range(rc)}]

Fuel == 40
Run(P) ==
  EvalSeq(P.page, 1,
          [P |-> P, vars |-> << Layer("page", <<>>, P.ctx) >>, rvars |-> << Layer("page", <<>>, P.ctx) >>,
           perm |-> << Layer("page", <<>>, P.ctx) >>, rperm |-> << Layer("page", <<>>, P.ctx) >>, immediate |-> TRUE,
           ckey |-> FALSE, croot |-> <<>>, queue |-> <<>>, own |-> NoOwner, prov |-> <<>>, at |-> <<>>],
          Fuel)
=============================================================================
