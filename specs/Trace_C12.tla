------------------------------ MODULE Trace_C12 ------------------------------
(***************************************************************************)
(* Trace validation (code -> spec) for C12.  IOEnv.IN names an ndjson file; *)
(* every line records what the real parsers did with one input produced by  *)
(* the random driver, beyond TLC's exhaustive bound:                        *)
(*   kind = "tag":  syms (symbols of TagAlphabet), out = outcomes of         *)
(*                  parse_tag / Template({% vfprobe .. %}) / the component tag*)
(*   kind = "tpl":  syms (symbols of TplAlphabet), out = <<Template(src)>>   *)
(*   kind = "mut":  args, style, m (mutation), syms; the text must be        *)
(*                  Mutated(Text(args, style), m); out as for "tag"          *)
(*   kind = "grow": counts c1, c2, c4 of interpreter line events for a unit  *)
(*                  repeated n, 2n, 4n times, and the three outcomes: the    *)
(*                  exponent k of c ~ n^k between n and 4n must be <= 2.5,   *)
(*                  i.e. c4 <= 4^2.5 * c1 = 32 * c1                          *)
(*   kind = "pump": pre, u, suf (symbols of the alphabet named by `alpha`),   *)
(*                  k; syms must be PumpText(pre, u, k, suf)                  *)
(*   kind = "pmut": args, style, i, j, k, cut; syms must be                   *)
(*                  PumpSub(Text(args, style), i, j, k, cut)                  *)
(*   kind = "lib":  tag, words, form, wrap; syms must be                      *)
(*                  LibSource(tag, words, form, wrap), out = <<Template(src)>>*)
(* Records with a field `cpu` (CPU milliseconds of the worker process per     *)
(* channel) are also held against the time bound: every entry must be         *)
(* <= CpuBudgetMs(Chars(syms)) (AdversarialInputs.tla).                       *)
(* `chan` names what was observed, in order: it must be TagChannels for a    *)
(* tag text and TplChannels for a template source (AdversarialInputs.tla):    *)
(* every Template(..) compilation in every engine mode (plain, debug).        *)
(* Accepted iff the input belongs to the modelled input space, every          *)
(* outcome is in ParseOutcomes ("ok" / "tse") and the time bound holds.       *)
(* One verdict per record.                                                    *)
(***************************************************************************)
EXTENDS TagArgs, AdversarialInputs, Json, IOUtils

Traces == ndJsonDeserialize(IOEnv.IN)
VARIABLE tid

Over(s, alpha) == \A i \in 1..Len(s) : s[i] \in (IF alpha = "tag" THEN TagAlphabet ELSE TplAlphabet)
InSpace(e) ==
  CASE e.kind = "tag" -> \A i \in 1..Len(e.syms) : e.syms[i] \in TagAlphabet
    [] e.kind = "tpl" -> \A i \in 1..Len(e.syms) : e.syms[i] \in TplAlphabet
    [] e.kind = "mut" -> e.syms = Mutated(Text(e.args, e.style), e.m)
    [] e.kind = "pump" -> /\ Over(e.pre, e.alpha) /\ Over(e.u, e.alpha) /\ Over(e.suf, e.alpha)
                          /\ Len(e.u) >= 1 /\ e.k >= 1
                          /\ e.syms = PumpText(e.pre, e.u, e.k, e.suf)
    [] e.kind = "pmut" -> LET base == Text(e.args, e.style) IN
                          /\ 1 <= e.i /\ e.i <= e.j /\ e.j <= Len(base) /\ e.k >= 1
                          /\ e.syms = PumpSub(base, e.i, e.j, e.k, e.cut)
    [] e.kind = "lib" -> /\ e.tag \in LibTags /\ e.form \in Forms /\ e.wrap \in Wraps
                         /\ \A i \in 1..Len(e.words) : e.words[i] \in LeadWords
                         /\ e.syms = LibSource(e.tag, e.words, e.form, e.wrap)
    [] OTHER          -> TRUE
\* every configuration the property quantifies over has been observed
IsSource(e) == e.kind \in {"tpl", "lib"} \/ (e.kind = "pump" /\ e.alpha = "tpl")
ChannelsOK(e) == e.kind \in {"grow", "raw"} \/ e.chan = (IF IsSource(e) THEN TplChannels ELSE TagChannels)
BadOutcomes(e) == {i \in 1..Len(e.out) : e.out[i] \notin ParseOutcomes}
\* exponent k of c ~ n^k between n and 4n is at most 2.5  <=>  c4 / c1 <= 4^2.5 = 32
GrowthOK(e) == e.kind = "grow" => e.c4 <= 32 * e.c1
\* CPU time of every channel within the quadratic bound of the input's length in characters
TimeOK(e) == "cpu" \in DOMAIN e => \A i \in 1..Len(e.cpu) : e.cpu[i] <= CpuBudgetMs(Chars(e.syms))

Verdict(e) ==
  IF ~InSpace(e) THEN "bad:input_space"
  ELSE IF ~ChannelsOK(e) THEN "bad:channels"
  ELSE IF BadOutcomes(e) # {} THEN "bad:outcome_" \o ToString(CHOOSE i \in BadOutcomes(e) : TRUE)
  ELSE IF ~GrowthOK(e) THEN "bad:growth"
  ELSE IF ~TimeOK(e) THEN "bad:time"
  ELSE "ok"

TrInit == tid = 1
TrNext == /\ tid <= Len(Traces)
          /\ LET v == Verdict(Traces[tid]) IN
             IF v = "ok" THEN PrintT("ACCEPT " \o ToString(Traces[tid].id))
             ELSE PrintT("REJECT " \o ToString(Traces[tid].id) \o " " \o v)
          /\ tid' = tid + 1
TrSpec == TrInit /\ [][TrNext]_tid
=============================================================================
