SPECIFICATION Spec
CONSTANTS
  N = 3
  Level = "host"
  SelfRef = TRUE
  OwnerRef = FALSE
  AllowFail = TRUE
INVARIANT InjectSound
INVARIANT Quiescent
INVARIANT RefsWellFormed
PROPERTY EntryDeletedOnlyWhenDone
