------------------------------ MODULE MC_C13G ------------------------------
(***************************************************************************)
(* Bounded instance of EndTagGuard: contents built as                       *)
(*   prefix \o open \o <tag name in a letter-case pattern> \o tail \o "Z()" *)
(* for both kinds (js, css) and both tag names (own and the other one).     *)
(* Every case is an initial state; TLC checks that the declarative and the  *)
(* operational definition agree and exports the admitted outcomes and the   *)
(* prediction of the named deviation.  Every component is rendered         *)
(* MaxRenders times in one process (a history); the admitted outcomes are   *)
(* those of the content at EVERY render (EndTagGuard: Histories).           *)
(***************************************************************************)
EXTENDS EndTagGuard, TLC, Json, IOUtils

CONSTANT MaskMode,       \* "few" | "all": which letter-case patterns of the tag name
         MaxRenders      \* how often every component is rendered in one process

Kinds == {"js", "css"}
Prefixes == {"M1", "M1 </", "M1</scriptx></stylex>", "M1 <"}
Opens == {"</", "< /", "</ ", "<", "<\\/"}
Tails == {">", " >", "\n>", "\t>", "/>", " x=1>", "x>", "-", "", "</", "\f>"}
Masks(tag) == IF MaskMode = "all" THEN SUBSET (1..Len(tag))
              ELSE {{}, {1}, {Len(tag)}, {2, 4}, 1..Len(tag), 2..Len(tag)}
Cased(tag, mask) == Cat([k \in 1..Len(tag) |-> IF k \in mask THEN Upper(Ch(tag, k)) ELSE Ch(tag, k)])

\* contents without any "<": must simply be emitted
Plain == {"M1 a && b > 0 ? \"x\" : 'y' /* script style é */", "M1"}

VARIABLE g
MCInit == \/ \E kind \in Kinds, tag \in {"script", "style"}, p \in Prefixes, op \in Opens, t \in Tails :
               \E m \in Masks(tag) :
                 g = [kind |-> kind, s |-> p \o op \o Cased(tag, m) \o t \o "Z()"]
          \/ \E kind \in Kinds, s \in Plain : g = [kind |-> kind, s |-> s]
MCNext == UNCHANGED g
MCSpec == MCInit /\ [][MCNext]_g

Agree == TokenizerAgrees(g.s, "script") /\ TokenizerAgrees(g.s, "style")
\* the generated contents are what the harness assumes: no surrounding white space (the library strips
\* it), no "<!--"
Shape == Ch(g.s, 1) \notin WS /\ Ch(g.s, Len(g.s)) \notin WS
         /\ \A i \in 1..Len(g.s) : ~MatchAt(g.s, i, "<!--")
\* a terminating content is never also one that must be emitted
AdmittedNonEmpty == GuardAdmitted(g.kind, g.s) # {}
\* what the first render of a component did does not change what its later renders may do: a history
\* (first, later, later, ...) with an admitted first render is admitted iff `later` is admitted for the
\* content - so a terminating content that was refused (or left out) once is not emitted afterwards
HistoryLaw ==
  LET adm == GuardAdmitted(g.kind, g.s)
      ev(o) == [gkind |-> g.kind, s |-> g.s, outcome |-> o, rest |-> ""]
      hist(first, later) == [i \in 1..MaxRenders |-> ev(IF i = 1 THEN first ELSE later)] IN
  \A first \in adm, later \in {"refused", "absent", "emitted"} :
    HistoryAdmitted(hist(first, later)) <=> later \in adm

SetToSeq(s) == LET RECURSIVE R(_)
                   R(x) == IF x = {} THEN <<>> ELSE LET e == CHOOSE e \in x : TRUE IN <<e>> \o R(x \ {e})
               IN R(s)
Export ==
  Serialize(ToJson([kind |-> g.kind, s |-> g.s, admitted |-> SetToSeq(GuardAdmitted(g.kind, g.s)),
                    renders |-> MaxRenders, terminates |-> Terminates(g.s, TagOf(g.kind)), dev |-> DevGuard(g.kind, g.s)]) \o "\n",
            IOEnv.OUT, [format |-> "TXT", charset |-> "UTF-8",
                        openOptions |-> <<"WRITE", "CREATE", "APPEND">>]).exitValue = 0
=============================================================================
