------------------------------ MODULE HtmlAttrs ------------------------------
(***************************************************************************)
(* What {% html_attrs attrs defaults key=val ... %} promises (C13), written *)
(* from the property text and docs/concepts/fundamentals/html_attributes.md *)
(*                                                                         *)
(* Texts are TLA+ strings; Chars/Ch give character access.  A value is a   *)
(* record [t, s]: t \in {"str","safe","num","true","false","none"}, s its  *)
(* text ("" for the last three).  A case is                                *)
(*   [defaults, attrs : Seq([n, v])   (dictionaries; names unique, except  *)
(*                                     when the dictionary is written in   *)
(*                                     the aggregate form, see below),     *)
(*    kws : Seq([n, v])]              (extra keywords in template order,   *)
(*                                     spreads already flattened).         *)
(* A dictionary written as aggregate keywords (attrs:k=v / defaults:k=v,   *)
(* literally or contributed by a ...spread) is a list of keywords of the   *)
(* tag, and "you can supply the same key multiple times, and these will    *)
(* be all joined together" (docs; quantifier: "repeated keywords,          *)
(* aggregate attrs:k=v and defaults:k=v forms, spreads"): the entry k of   *)
(* that dictionary is the space-join of all prefix:k values in template    *)
(* order.  So attrs / defaults may carry a name several times; DictParts   *)
(* gives the parts of one entry.                                           *)
(* HOW attrs/defaults/keywords are written in the tag (positional, kwarg,  *)
(* attrs:k=v aggregate, ...spread, literal vs variable) does not occur in  *)
(* Merge: the docs declare these forms equivalent.                         *)
(*                                                                         *)
(* The module also contains a model of the attribute part of the WHATWG    *)
(* HTML tokenizer (ParseAttrs) so that "parsing the output yields exactly  *)
(* those names and values" is a statement TLC can evaluate: RoundTrip.     *)
(***************************************************************************)
EXTENDS HtmlText, TLC

(* ------------------------------------------- HTML attribute tokenizer --- *)
(* Input: the text between "<div " and the final ">" of a start tag.  Output:*)
(* [attrs : Seq([n, v, bare]), closed : a raw ">" ended the tag early,      *)
(*  open : input ended inside a quoted value].                              *)
Attr(n, v, b) == [n |-> n, v |-> v, bare |-> b]
PRes(acc, closed, open) == [attrs |-> acc, closed |-> closed, open |-> open]

\* One operator per tokenizer state.  cs = Chars(s); ns / vs: index where the current name /
\* value started; n: the finished name; acc: attributes so far.  End of input acts as the final ">".
RECURSIVE PBn(_, _, _, _), PNm(_, _, _, _, _), PAn(_, _, _, _, _), PBv(_, _, _, _, _),
          PQ(_, _, _, _, _, _, _), PUq(_, _, _, _, _, _), PAq(_, _, _, _)
Bare(acc, n) == Append(acc, Attr(n, "", TRUE))
Val(acc, n, s, vs, i) == Append(acc, Attr(n, Decode(SubSeq(s, vs, i - 1)), FALSE))
\* before attribute name
PBn(s, cs, i, acc) ==
  IF i > Len(cs) THEN PRes(acc, FALSE, FALSE)
  ELSE IF cs[i] = ">" THEN PRes(acc, TRUE, FALSE)
  ELSE IF cs[i] \in WS \/ cs[i] = "/" THEN PBn(s, cs, i + 1, acc)
  ELSE PNm(s, cs, i + 1, i, acc)
\* attribute name
PNm(s, cs, i, ns, acc) ==
  IF i > Len(cs) THEN PRes(Bare(acc, SubSeq(s, ns, i - 1)), FALSE, FALSE)
  ELSE IF cs[i] = ">" THEN PRes(Bare(acc, SubSeq(s, ns, i - 1)), TRUE, FALSE)
  ELSE IF cs[i] \in WS THEN PAn(s, cs, i + 1, SubSeq(s, ns, i - 1), acc)
  ELSE IF cs[i] = "/" THEN PBn(s, cs, i + 1, Bare(acc, SubSeq(s, ns, i - 1)))
  ELSE IF cs[i] = "=" THEN PBv(s, cs, i + 1, SubSeq(s, ns, i - 1), acc)
  ELSE PNm(s, cs, i + 1, ns, acc)
\* after attribute name
PAn(s, cs, i, n, acc) ==
  IF i > Len(cs) THEN PRes(Bare(acc, n), FALSE, FALSE)
  ELSE IF cs[i] = ">" THEN PRes(Bare(acc, n), TRUE, FALSE)
  ELSE IF cs[i] \in WS THEN PAn(s, cs, i + 1, n, acc)
  ELSE IF cs[i] = "/" THEN PBn(s, cs, i + 1, Bare(acc, n))
  ELSE IF cs[i] = "=" THEN PBv(s, cs, i + 1, n, acc)
  ELSE PNm(s, cs, i + 1, i, Bare(acc, n))
\* before attribute value
PBv(s, cs, i, n, acc) ==
  IF i > Len(cs) THEN PRes(Append(acc, Attr(n, "", FALSE)), FALSE, FALSE)
  ELSE IF cs[i] = ">" THEN PRes(Append(acc, Attr(n, "", FALSE)), TRUE, FALSE)
  ELSE IF cs[i] \in WS THEN PBv(s, cs, i + 1, n, acc)
  ELSE IF cs[i] = "\"" \/ cs[i] = "'" THEN PQ(s, cs, i + 1, cs[i], n, i + 1, acc)
  ELSE PUq(s, cs, i + 1, n, i, acc)
\* quoted value (q is the quote character)
PQ(s, cs, i, q, n, vs, acc) ==
  IF i > Len(cs) THEN PRes(acc, FALSE, TRUE)
  ELSE IF cs[i] = q THEN PAq(s, cs, i + 1, Val(acc, n, s, vs, i))
  ELSE PQ(s, cs, i + 1, q, n, vs, acc)
\* unquoted value
PUq(s, cs, i, n, vs, acc) ==
  IF i > Len(cs) THEN PRes(Val(acc, n, s, vs, i), FALSE, FALSE)
  ELSE IF cs[i] = ">" THEN PRes(Val(acc, n, s, vs, i), TRUE, FALSE)
  ELSE IF cs[i] \in WS THEN PBn(s, cs, i + 1, Val(acc, n, s, vs, i))
  ELSE PUq(s, cs, i + 1, n, vs, acc)
\* after a quoted value (a following name without whitespace is tolerated)
PAq(s, cs, i, acc) ==
  IF i > Len(cs) THEN PRes(acc, FALSE, FALSE)
  ELSE IF cs[i] = ">" THEN PRes(acc, TRUE, FALSE)
  ELSE PBn(s, cs, i, acc)
ParseAttrs(s) == PBn(s, Chars(s), 1, <<>>)
Clean(p) == ~p.closed /\ ~p.open

\* A name an HTML document can carry: written raw, a parser reads back exactly it.
Representable(n) ==
  /\ n # ""
  /\ LET p == ParseAttrs(n \o "=\"v\"") IN Clean(p) /\ p.attrs = <<Attr(n, "v", FALSE)>>
  /\ LET p == ParseAttrs(n) IN Clean(p) /\ p.attrs = <<Attr(n, "", TRUE)>>
(* exact : must come back letter for letter.                               *)
(* weak  : contains a character a library may legitimately entity-escape   *)
(*         (& < > " '); the number of attributes and their values are      *)
(*         fixed, the spelling of the name is not.                         *)
(* unrep : neither the raw nor the escaped name survives a parser (space,  *)
(*         "=", "/", control whitespace, empty): the only conforming       *)
(*         outcomes are refusing (any exception), dropping the attribute,  *)
(*         or emitting ONE attribute with the right value under some name. *)
NameClassDef(n) == IF Representable(n) /\ ~HasAny(n, Special) THEN "exact"
                   ELSE IF Representable(n) \/ Representable(Escape(n)) THEN "weak"
                   ELSE "unrep"
\* (bounded instances replace NameClass by a table of NameClassDef over their names: speed only)
NameClass(n) == NameClassDef(n)

(* ------------------------------------------------------------- merge --- *)
HasKey(d, n) == \E i \in 1..Len(d) : d[i].n = n
Get(d, n) == d[CHOOSE i \in 1..Len(d) : d[i].n = n].v
Vals(q) == [i \in 1..Len(q) |-> q[i].v]
\* the parts of entry n of a dictionary: one value, or (aggregate form with a repeated prefix:n) several,
\* joined with one space like any repeated keyword
DictParts(d, n) == Vals(SelectSeq(d, LAMBDA e : e.n = n))
Base(c, n) == IF HasKey(c.attrs, n) THEN DictParts(c.attrs, n)
              ELSE IF HasKey(c.defaults, n) THEN DictParts(c.defaults, n)
              ELSE <<>>
\* defaults, overridden by attrs (entry by entry: a repeated attrs:n replaces every defaults:n),
\* then every keyword of that name in template order
Parts(c, n) == Base(c, n) \o Vals(SelectSeq(c.kws, LAMBDA e : e.n = n))

RECURSIVE Dedup(_, _)
Dedup(q, seen) == IF q = <<>> THEN <<>>
                  ELSE IF q[1] \in seen THEN Dedup(Tail(q), seen)
                  ELSE <<q[1]>> \o Dedup(Tail(q), seen \cup {q[1]})
Names(c) == Dedup([i \in 1..Len(c.defaults) |-> c.defaults[i].n]
                  \o [i \in 1..Len(c.attrs) |-> c.attrs[i].n]
                  \o [i \in 1..Len(c.kws) |-> c.kws[i].n], {})

Textual(v) == v.t \in {"str", "safe", "num"}
Raw(v) == v.s
Lenient(v) == IF v.t = "safe" THEN Decode(v.s) ELSE v.s

(* What a parser must read back for name n.  kind:                          *)
(*  "omit"  not rendered (None / False);  "bare"  name only (True);         *)
(*  "val"   name="..." whose decoded value is in vals.  A safe string is    *)
(*          outside the guarantee: emitting it verbatim (value = Decode) or *)
(*          escaping it (value = the text) are both admitted;               *)
(*  "zone"  appending to / with None, True, False is not determined by the  *)
(*          property (today: TypeError, or the text "None"/"True"): any     *)
(*          rendering of this one name, or a TypeError, is admitted.        *)
(* Appending numbers IS determined: "appending each extra keyword value ... *)
(* separated by one space" over "bool / None / number values", and a number *)
(* renders as str(number) (docs: "data-id": 123 -> data-id="123").          *)
Item(c, n) ==
  LET p == Parts(c, n)
      one == p[1]
      mk(k, vs) == [n |-> n, cls |-> NameClass(n), kind |-> k, vals |-> vs] IN
  IF Len(p) = 1
  THEN CASE one.t \in {"none", "false"} -> mk("omit", {})
         [] one.t = "true"              -> mk("bare", {})
         [] OTHER                       -> mk("val", {Raw(one), Lenient(one)})
  ELSE IF \A i \in 1..Len(p) : Textual(p[i])
  THEN mk("val", {JoinSp([i \in 1..Len(p) |-> Raw(p[i])]), JoinSp([i \in 1..Len(p) |-> Lenient(p[i])])})
  ELSE mk("zone", {})

Items(c) == LET ns == Names(c) IN [i \in 1..Len(ns) |-> Item(c, ns[i])]
ErrOk(its) == (IF \E i \in 1..Len(its) : its[i].kind = "zone" THEN {"TypeError"} ELSE {})
              \cup (IF \E i \in 1..Len(its) : its[i].cls = "unrep" /\ its[i].kind \in {"bare", "val", "zone"}
                    THEN {"*"} ELSE {})
ExpectedI(its) == [items |-> its, err |-> ErrOk(its)]
Expected(c) == ExpectedI(Items(c))

(* -------------------------------------------- conformance of a result --- *)
(* obs = [err : "" or exception class name, spill, attrs : Seq([n,v,bare])] *)
(* (plus errkind and out, used only by the named deviations / the drift check) *)
(* read by an HTML parser from "<div " \o output \o ">".                    *)
Matches(it, a) == \/ it.kind = "zone"
                  \/ it.kind = "bare" /\ a.bare
                  \/ it.kind = "val" /\ ~a.bare /\ a.v \in it.vals
                  \/ it.kind = "val" /\ a.bare /\ "" \in it.vals      \* x="" and bare x are the same attribute
Idx(q, P(_)) == {i \in 1..Len(q) : P(q[i])}
Conform(e, obs) ==
  IF obs.err # "" THEN obs.err \in e.err \/ "*" \in e.err
  ELSE IF obs.spill THEN FALSE          \* something left the tag: text or elements after an early ">"
  ELSE
  LET its == e.items
      exact == Idx(its, LAMBDA it : it.cls = "exact")
      loose == Idx(its, LAMBDA it : it.cls # "exact")
      exactNames == {its[i].n : i \in exact}
      rest == Idx(obs.attrs, LAMBDA a : a.n \notin exactNames)       \* parsed attributes under other names
      need == {j \in loose : its[j].cls = "weak" /\ its[j].kind \in {"bare", "val"}} IN
  /\ \A i \in exact :
       LET hits == Idx(obs.attrs, LAMBDA a : a.n = its[i].n) IN
       CASE its[i].kind = "omit" -> hits = {}
         [] its[i].kind = "zone" -> Cardinality(hits) <= 1
         [] OTHER -> Cardinality(hits) = 1 /\ \A h \in hits : Matches(its[i], obs.attrs[h])
  \* every other parsed attribute is accounted for by its own non-exact entry (injective),
  \* and every weak entry that renders is present
  /\ \E f \in [rest -> loose] :
       /\ \A x, y \in rest : x # y => f[x] # f[y]
       /\ \A x \in rest : its[f[x]].kind # "omit" /\ Matches(its[f[x]], obs.attrs[x])
       /\ \A j \in need : \E x \in rest : f[x] = j

(* -------------------------------------- reference emission, round trip --- *)
EmitOne(it, v) == IF it.kind = "bare" THEN it.n ELSE it.n \o "=\"" \o Escape(v) \o "\""
\* the emission the property describes, for cases without zone/safe freedom
EmitTextI(items) == LET its == SelectSeq(items, LAMBDA it : it.kind \in {"bare", "val"}) IN
                    JoinSp([i \in 1..Len(its) |-> EmitOne(its[i], IF its[i].kind = "val"
                                                                    THEN CHOOSE v \in its[i].vals : TRUE ELSE "")])
DeterminedI(its) == \A i \in 1..Len(its) :
                      its[i].cls = "exact" /\ its[i].kind # "zone" /\ Cardinality(its[i].vals) <= 1
\* The specification is satisfiable and self-consistent: emitting as described and parsing back
\* conforms, so a library can meet Expected on every determined case.
RoundTripI(its) == DeterminedI(its) =>
                     LET p == ParseAttrs(EmitTextI(its)) IN
                     Clean(p) /\ Conform(ExpectedI(its), [err |-> "", spill |-> FALSE, attrs |-> p.attrs])
RoundTrip(c) == RoundTripI(Items(c))
\* attrs win over defaults; keywords never replace, only extend
OverrideLaw(c) == \A i \in 1..Len(c.attrs) :
                    LET n == c.attrs[i].n
                        own == DictParts(c.attrs, n) IN
                    /\ SubSeq(Parts(c, n), 1, Len(own)) = own
                    /\ Len(Parts(c, n)) = Len(own) + Cardinality({j \in 1..Len(c.kws) : c.kws[j].n = n})
AppendLaw(c) == \A n \in SeqRange(Names(c)) :
                  Len(Parts(c, n)) = Len(Base(c, n)) + Cardinality({i \in 1..Len(c.kws) : c.kws[i].n = n})
(* ------------- named deviations of the current implementation (KNOWN_FINDINGS) --- *)
(* Each describes exactly what the code does on the matched shape; a result that     *)
(* does not conform is a known finding only if it EQUALS the prediction.             *)
(*                                                                                   *)
(* 1. merge_repeated_kwargs joins repeated keywords (with str()) before anything     *)
(*    else.  It remembers the position of a keyword in the ORIGINAL parameter list   *)
(*    but uses it on the list from which earlier repeats were already dropped: a     *)
(*    name first seen after an earlier repeat and then repeated itself is written to *)
(*    the wrong slot - past the end (IndexError), or over another keyword, which is  *)
(*    lost, while the name itself now occurs twice (TypeError "multiple values" for  *)
(*    names that are Python identifiers; for other names the later one wins).        *)
(* 2. append_attributes does `old += " " + new` on raw values: a number on either    *)
(*    side raises TypeError.                                                         *)
(* 3. attribute names are entity-escaped but otherwise written as they are.          *)
PyStr(v) == CASE v.t = "none" -> "None" [] v.t = "true" -> "True" [] v.t = "false" -> "False" [] OTHER -> v.s
PyKeywords == {"False", "None", "True", "and", "as", "assert", "async", "await", "break", "class", "continue",
               "def", "del", "elif", "else", "except", "finally", "for", "from", "global", "if", "import", "in",
               "is", "lambda", "nonlocal", "not", "or", "pass", "raise", "return", "try", "while", "with", "yield"}
NonIdentChars == {"-", "@", ":", ".", "#", " ", "=", "/", "&", "<", ">", "\"", "'", "\t", "\n", ";", "%", "{", "}",
                  "!", "$", "+", "~", "*", "(", ")", ",", "?", "[", "]", "|", "^", "`", "\\"}
Digits == {"0", "1", "2", "3", "4", "5", "6", "7", "8", "9"}
PlainKwName(n) == n # "" /\ ~HasAny(n, NonIdentChars) /\ Ch(n, 1) \notin Digits /\ n \notin PyKeywords

DevRepeatShift(c) ==
  \E p, q, r \in 1..Len(c.kws) :
    /\ p < q /\ q < r
    /\ \E p0 \in 1..(p - 1) : c.kws[p0].n = c.kws[p].n
    /\ \A q0 \in 1..(q - 1) : c.kws[q0].n # c.kws[q].n
    /\ c.kws[r].n = c.kws[q].n
\* the merge of repeated keywords: res = surviving keyword list, slot[n] = where n is believed to sit in
\* res (buggy: its index in kws; otherwise its real position), cur[n] = value merged so far
RECURSIVE MR(_, _, _, _, _, _)
MR(kws, i, res, slot, cur, buggy) ==
  IF i > Len(kws) THEN [err |-> "", res |-> res]
  ELSE LET n == kws[i].n IN
       IF n \notin DOMAIN slot
       THEN MR(kws, i + 1, Append(res, kws[i]), slot @@ (n :> IF buggy THEN i ELSE Len(res) + 1),
               cur @@ (n :> kws[i].v), buggy)
       ELSE LET merged == [t |-> "str", s |-> PyStr(cur[n]) \o " " \o PyStr(kws[i].v)] IN
            IF slot[n] > Len(res) THEN [err |-> "IndexError", res |-> res]
            ELSE MR(kws, i + 1, [res EXCEPT ![slot[n]] = [n |-> n, v |-> merged]], slot,
                    [cur EXCEPT ![n] = merged], buggy)
DupPlain(res) == \E i, j \in 1..Len(res) : i < j /\ res[i].n = res[j].n /\ PlainKwName(res[i].n)
DupAny(res) == \E i, j \in 1..Len(res) : i < j /\ res[i].n = res[j].n
LastOnly(res) == LET keep == {i \in 1..Len(res) : \A j \in (i + 1)..Len(res) : res[j].n # res[i].n}
                     RECURSIVE Pick(_)
                     Pick(i) == IF i > Len(res) THEN <<>> ELSE (IF i \in keep THEN <<res[i]>> ELSE <<>>) \o Pick(i + 1)
                 IN Pick(1)
NumAppendRaises(c2) == \E n \in SeqRange(Names(c2)) :
                         /\ Len(Base(c2, n)) = 1 /\ Len(Parts(c2, n)) = 2
                         /\ \A i \in 1..2 : Textual(Parts(c2, n)[i])
                         /\ \E i \in 1..2 : Parts(c2, n)[i].t = "num"
DevEmitText(items) ==
  LET its == SelectSeq(items, LAMBDA it : it.kind \in {"bare", "val"}) IN
  JoinSp([i \in 1..Len(its) |-> EmitOne([its[i] EXCEPT !.n = Escape(@)],
                                         IF its[i].kind = "val" THEN CHOOSE v \in its[i].vals : TRUE ELSE "")])
KeyShift == "repeated-keyword-after-earlier-repeat:merged-into-wrong-slot"
KeyNum   == "append-number:TypeError"
KeyName  == "attr-name-unrepresentable:written-unchecked"
\* err: "Class/what" - the exception class and which failure it is (obs.errkind, read off the message by
\* the harness: "index" list index out of range, "multiple-values" repeated argument, "concat" str + number)
Prediction(mode, err, attrs, items, errok) ==
  [mode |-> mode, err |-> err, attrs |-> attrs, items |-> items, errok |-> errok]
(* What the code does on case c if exactly the deviations in S (1, 2, 3 above) are present and   *)
(* everything else follows the specification - so the findings stay recognisable when only some *)
(* of them have been repaired.                                                                   *)
Pred(c, S) ==
  LET m == MR(c.kws, 1, <<>>, <<>>, <<>>, 1 \in S) IN
  IF m.err # "" THEN Prediction("err", "IndexError/index", <<>>, <<>>, {})
  ELSE IF DupPlain(m.res) THEN Prediction("err", "TypeError/multiple-values", <<>>, <<>>, {})
  ELSE LET c2 == [c EXCEPT !.kws = LastOnly(m.res)]
           its == IF 1 \in S /\ DevRepeatShift(c) THEN Items(c2) ELSE Items(c)
           \* a name that is not a Python identifier occurring twice: today the later one wins silently;
           \* rejecting it like an identifier (TypeError) is predicted as well
           dupErr == IF DupAny(m.res) THEN {"TypeError"} ELSE {} IN
       IF 2 \in S /\ NumAppendRaises(c2) THEN Prediction("err", "TypeError/concat", <<>>, <<>>, {})
       ELSE IF /\ 3 \in S
               /\ \E i \in 1..Len(its) : its[i].cls = "unrep" /\ its[i].kind \in {"bare", "val"}
               /\ \A i \in 1..Len(its) : Cardinality(its[i].vals) <= 1 /\ its[i].kind # "zone"
       THEN Prediction("parse", "", ParseAttrs(DevEmitText(its)).attrs, <<>>, dupErr)
       ELSE Prediction("items", "", <<>>, its, ErrOk(its) \cup dupErr)
\* same attributes, in any order (the order of attributes in a tag carries no meaning)
SameBag(a, b) == /\ Len(a) = Len(b)
                 /\ \A x \in SeqRange(a) \cup SeqRange(b) :
                      Cardinality({i \in 1..Len(a) : a[i] = x}) = Cardinality({i \in 1..Len(b) : b[i] = x})
Predicted(p, obs) ==
  CASE p.mode = "err"   -> obs.err \o "/" \o obs.errkind = p.err
    [] p.mode = "parse" -> IF obs.err # "" THEN obs.err \in p.errok ELSE ~obs.spill /\ SameBag(obs.attrs, p.attrs)
    [] p.mode = "items" -> Conform([items |-> p.items, err |-> p.errok], obs)
DevSets == << {2}, {3}, {1}, {1, 2}, {1, 3}, {2, 3}, {1, 2, 3} >>
KeyOf(S) == IF 1 \in S THEN KeyShift ELSE IF 2 \in S THEN KeyNum ELSE KeyName
\* "" if no combination of the named deviations predicts this (non-conforming) observation
DevKey(c, obs) ==
  LET ok == {i \in 1..Len(DevSets) : Predicted(Pred(c, DevSets[i]), obs)} IN
  IF ok = {} THEN "" ELSE KeyOf(DevSets[CHOOSE i \in ok : \A j \in ok : i <= j])
=============================================================================
