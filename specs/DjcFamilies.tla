----------------------------- MODULE DjcFamilies -----------------------------
(***************************************************************************)
(* C10(b): Django's composition tags compose with components by INLINING.  *)
(* A program may come as a template family: P.tpls is a sequence of named  *)
(* templates [name, a]; the page (P.pext) and any component (comps[i].ext) *)
(* may be a CHILD template - {% extends "base" %} plus {% block %}         *)
(* overrides, possibly using {{ block.super }} - and any template may      *)
(* {% include %} another.  Flat(P) resolves inheritance and inclusion by   *)
(* hand; the law is   real render of P  =  Run(Flat(P))   wherever          *)
(* component, slot, fill and provide tags sit and however instances nest.  *)
(* Nodes added: [t |-> "include", name], [t |-> "block", name, a],          *)
(* [t |-> "super"] (inside a block override).                               *)
(***************************************************************************)
EXTENDS DjcSemantics

TplNamed(P, name) == P.tpls[CHOOSE i \in 1..Len(P.tpls) : P.tpls[i].name = name]
HasTpl(P, name) == \E i \in 1..Len(P.tpls) : P.tpls[i].name = name

\* replace {{ block.super }} by the parent's block content
RECURSIVE SubstSuper(_, _, _)
SubstSuper(nodes, i, parentContent) ==
  IF i > Len(nodes) THEN <<>>
  ELSE LET n == nodes[i]
           one == IF n.t = "super" THEN parentContent
                  ELSE IF "b" \in DOMAIN n /\ n.t = "if"
                  THEN << [n EXCEPT !.a = SubstSuper(n.a, 1, parentContent), !.b = SubstSuper(n.b, 1, parentContent)] >>
                  ELSE IF "a" \in DOMAIN n
                  THEN << [n EXCEPT !.a = SubstSuper(n.a, 1, parentContent)] >>
                  ELSE <<n>>
       IN one \o SubstSuper(nodes, i + 1, parentContent)

\* the overrides of a child template: its top-level block nodes
Overrides(childNodes) == SelectSeq(childNodes, LAMBDA n : n.t = "block")
HasOverride(ov, name) == \E i \in 1..Len(ov) : ov[i].name = name
OverrideOf(ov, name) == ov[CHOOSE i \in 1..Len(ov) : ov[i].name = name]

\* inline includes and blocks (with the given overrides) everywhere, to any depth
RECURSIVE Inline(_, _, _, _, _)
Inline(P, nodes, i, ov, fuel) ==
  IF i > Len(nodes) \/ fuel = 0 THEN <<>>
  ELSE LET n == nodes[i]
           one == CASE n.t = "include" ->
                         IF HasTpl(P, n.name) THEN Inline(P, TplNamed(P, n.name).a, 1, <<>>, fuel - 1) ELSE <<>>
                    [] n.t = "block" ->
                         LET own == Inline(P, n.a, 1, ov, fuel - 1) IN
                         IF HasOverride(ov, n.name)
                         THEN Inline(P, SubstSuper(OverrideOf(ov, n.name).a, 1, own), 1, <<>>, fuel - 1)
                         ELSE own
                    [] n.t = "super" -> <<>>
                    \* Known deviation (finding, see KNOWN_FINDINGS.txt): the default content of a {% slot %} is
                    \* rendered without the template family's block overrides - a {% block %} anywhere inside a
                    \* slot's default content prints the BASE template's content of that block.
                    [] n.t = "slot" /\ "BlockInSlotDefaultNotOverridden" \in Range(P.devs) ->
                         << [n EXCEPT !.a = Inline(P, n.a, 1, <<>>, fuel - 1)] >>
                    [] OTHER -> IF "b" \in DOMAIN n /\ n.t = "if"
                                THEN << [n EXCEPT !.a = Inline(P, n.a, 1, ov, fuel - 1), !.b = Inline(P, n.b, 1, ov, fuel - 1)] >>
                                ELSE IF "a" \in DOMAIN n
                                THEN << [n EXCEPT !.a = Inline(P, n.a, 1, ov, fuel - 1)] >>
                                ELSE <<n>>
       IN one \o Inline(P, nodes, i + 1, ov, fuel)

\* nesting budget of Inline (generated families nest <= ~20 levels; running out would silently drop content)
FamFuel == 64

\* a template given as (ext, nodes): a child of `ext` (its nodes are block overrides) or a plain one
FlatTemplate(P, ext, nodes) ==
  IF ext = "" THEN Inline(P, nodes, 1, <<>>, FamFuel)
  ELSE Inline(P, TplNamed(P, ext).a, 1, Overrides(nodes), FamFuel)

Flat(P) ==
  [P EXCEPT !.page = FlatTemplate(P, P.pext, P.page),
            !.comps = [c \in 1..Len(P.comps) |-> [P.comps[c] EXCEPT !.tpl = FlatTemplate(P, P.comps[c].ext, P.comps[c].tpl)]]]

RECURSIVE FamilyFree(_, _)
FamilyFree(nodes, i) ==
  IF i > Len(nodes) THEN TRUE
  ELSE /\ nodes[i].t \notin {"include", "block", "super"}
       /\ ("a" \in DOMAIN nodes[i] => FamilyFree(nodes[i].a, 1))
       /\ (("b" \in DOMAIN nodes[i] /\ nodes[i].t = "if") => FamilyFree(nodes[i].b, 1))
       /\ FamilyFree(nodes, i + 1)

\* theorems checked by TLC on every evaluated family (see Eval_Fam)
FlatIsFamilyFree(P) == LET F == Flat(P) IN
  FamilyFree(F.page, 1) /\ \A c \in 1..Len(F.comps) : FamilyFree(F.comps[c].tpl, 1)
FlatIsIdempotent(P) == LET F == Flat(P) IN
  Inline(P, F.page, 1, <<>>, FamFuel) = F.page

\* An included template (a PARTIAL) is a family of its own, whatever stands in it - component tags with {% block %}
\* tags inside their fills included - and wherever the {% include %} stands (in a page family, in the family of a
\* component template, inside a fill, in another partial): its blocks are never resolved against the overrides of
\* the including family.  So the NAMES of the blocks of a template that is only ever included are irrelevant:
\* renaming all of them (here: away from every name of the program) leaves Flat(P) unchanged.
RECURSIVE RenameBlocks(_, _)
RenameBlocks(nodes, i) ==
  IF i > Len(nodes) THEN <<>>
  ELSE LET n == nodes[i]
           m == IF n.t = "block" THEN [n EXCEPT !.name = n.name \o "~", !.a = RenameBlocks(n.a, 1)]
                ELSE IF "b" \in DOMAIN n /\ n.t = "if"
                THEN [n EXCEPT !.a = RenameBlocks(n.a, 1), !.b = RenameBlocks(n.b, 1)]
                ELSE IF "a" \in DOMAIN n THEN [n EXCEPT !.a = RenameBlocks(n.a, 1)]
                ELSE n
       IN <<m>> \o RenameBlocks(nodes, i + 1)
IsBaseTpl(P, name) == P.pext = name \/ \E c \in 1..Len(P.comps) : P.comps[c].ext = name
RenamedPartials(P) ==
  [P EXCEPT !.tpls = [k \in 1..Len(P.tpls) |->
      IF IsBaseTpl(P, P.tpls[k].name) THEN P.tpls[k] ELSE [P.tpls[k] EXCEPT !.a = RenameBlocks(P.tpls[k].a, 1)]]]
PartialBlockNamesIrrelevant(P) == LET F == Flat(P)  G == Flat(RenamedPartials(P)) IN
  F.page = G.page /\ F.comps = G.comps

RunFamily(P) == Run(Flat(P))
=============================================================================
