------------------------- MODULE ProvideRefs_proofs -------------------------
(***************************************************************************)
(* TLAPS proof that IndInv is an inductive invariant of ProvideRefs for    *)
(* ARBITRARY sets of providers and referrers (unbounded counterpart of the *)
(* TLC / Apalache checks), and that it implies the properties.             *)
(* Checked by: tlapm ProvideRefs_proofs.tla  (vf/provrefs.py, thorough)    *)
(***************************************************************************)
EXTENDS ProvideRefs, TLAPS

THEOREM InitInv == Init => IndInv
  BY PidRidDisjoint DEF Init, IndInv, TypeOK, RefsWellFormed, Unreferenced, SetIsCached, NothingBeforeSet,
                        SelfRefIffOpen, OnlySelf, Ref

THEOREM InvImpliesProps == IndInv => NoKeyError /\ OpenAlive /\ InjectSound /\ Quiescent
  BY DEF IndInv, TypeOK, RefsWellFormed, Unreferenced, SetIsCached, NothingBeforeSet, SelfRefIffOpen, OnlySelf,
         NoKeyError, OpenAlive, InjectSound, Quiescent, Ref

LEMMA StepSet == ASSUME IndInv, NEW p \in Pid, SetProvided(p) PROVE IndInv'
  BY PidRidDisjoint DEF SetProvided, IndInv, TypeOK, RefsWellFormed, Unreferenced, SetIsCached, NothingBeforeSet,
                        SelfRefIffOpen, OnlySelf, Ref

LEMMA StepEnter == ASSUME IndInv, NEW p \in Pid, EnterAct(p) PROVE IndInv'
  BY PidRidDisjoint DEF EnterAct, Enter, Becomes, Cur, St, IndInv, TypeOK, RefsWellFormed, Unreferenced, SetIsCached,
                        NothingBeforeSet, SelfRefIffOpen, OnlySelf, Ref

LEMMA StepRegister == ASSUME IndInv, NEW r \in Rid, NEW ps \in SUBSET Pid, RegisterAct(r, ps) PROVE IndInv'
  BY PidRidDisjoint DEF RegisterAct, Register, VisibleAlive, Becomes, Cur, St, IndInv, TypeOK, RefsWellFormed, Unreferenced,
                        SetIsCached, NothingBeforeSet, SelfRefIffOpen, OnlySelf, Ref

LEMMA StepUnregister == ASSUME IndInv, NEW r \in Rid, UnregisterAct(r) PROVE IndInv'
  BY PidRidDisjoint DEF UnregisterAct, Unreg, Becomes, Cur, St, IndInv, TypeOK, RefsWellFormed, Unreferenced,
                        SetIsCached, NothingBeforeSet, SelfRefIffOpen, OnlySelf, Ref

LEMMA StepExit == ASSUME IndInv, NEW p \in Pid, ExitAct(p) PROVE IndInv'
  BY PidRidDisjoint DEF ExitAct, Exit, Unreg, Cleanup, Becomes, Cur, St, IndInv, TypeOK, RefsWellFormed, Unreferenced,
                        SetIsCached, NothingBeforeSet, SelfRefIffOpen, OnlySelf, Ref

THEOREM StepInv == IndInv /\ [Next]_prVars => IndInv'
<1> SUFFICES ASSUME IndInv, [Next]_prVars PROVE IndInv'
  OBVIOUS
<1>1 CASE UNCHANGED prVars
  BY <1>1 DEF prVars, IndInv, TypeOK, RefsWellFormed, Unreferenced, SetIsCached, NothingBeforeSet, SelfRefIffOpen, OnlySelf, Ref
<1>2 CASE Next
  BY <1>2, StepSet, StepEnter, StepRegister, StepUnregister, StepExit DEF Next
<1> QED BY <1>1, <1>2

THEOREM Safety == Spec => []IndInv
  BY InitInv, StepInv, PTL DEF Spec
=============================================================================
