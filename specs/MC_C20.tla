------------------------------- MODULE MC_C20 -------------------------------
(***************************************************************************)
(* Bounded instance of Autodiscover, two families of states:               *)
(*                                                                         *)
(* mode "tree": one root of every variant (how the component directory is  *)
(*   configured), every requested suffix, and every tree of at most        *)
(*   MaxEntries entries over the pools below (trees of more than one entry *)
(*   are taken from SmallCodes only).                                      *)
(* mode "cfg": WHICH directories are searched.  Nine candidate directories *)
(*   (five project directories incl. BASE_DIR/components, four app         *)
(*   directories) all exist with the same small tree; the state chooses    *)
(*   COMPONENTS.dirs (not given / given empty / given with one or more of  *)
(*   the candidates in str, Path and tuple form), STATICFILES_DIRS (empty /*)
(*   one / several candidates, plain and (prefix, path) form, also one     *)
(*   that dirs lists too and the default directory itself), app_dirs (not  *)
(*   given / empty / one / two names) and how COMPONENTS itself is written *)
(*   (dict, dict with None for what is not given, ComponentsSettings).     *)
(*                                                                         *)
(* Every state is exported with the expected result of get_component_files *)
(* (spec -> code replay) and which of the selected files Python must be    *)
(* able to import under their dotted path.                                 *)
(***************************************************************************)
EXTENDS Autodiscover, TLC, Json, IOUtils

CONSTANTS VarIdx, SfxIdx, Codes, SmallCodes, MaxEntries,
          CfgSfxIdx        \* suffixes of the "cfg" family ({} switches it off)

DirPool == << <<>>, <<"pkg">>, <<"pkg", "sub">>, <<"_priv">>, <<".hid">>, <<"pkg", "_in">>, <<"pkg", ".h">>,
              <<"d.ot">>, <<"__pycache__">>, <<"a-b", "c">>, <<"p_q">> >>
FileNames == << "a.py", "_b.py", "__init__.py", ".h.py", "m.py", "a.b.py", "x.js", "x.PY", "x.pyc",
                "__init__.pyx", "__main__.py", "noext", "a-b.py", "c.pyx", "_p.js", "py", "pkg.py",
                "__init__.js", "xpy", "a.py.bak", "x_y.py" >>
DirNames == << "e.py", "plain", "_e.py", ".e.py", "e.js" >>
Suffixes == << ".py", "", ".js", ".pyx" >>

M(w, f) == [in |-> w, form |-> f]
Cfg(d, a, names) == [dirs |-> d, appdirs |-> a, appnames |-> names, form |-> "dict"]
\* how the root is configured; the harness materialises it from (kind, prefix, src) and cfg
Variants == <<
  [id |-> "dirs-str",      kind |-> "dirs", prefix |-> <<"comps">>,            globmeta |-> FALSE,
   src |-> <<M("dirs", "str")>>,      cfg |-> Cfg("set", "unset", <<>>)],
  [id |-> "dirs-path",     kind |-> "dirs", prefix |-> <<"outer", "comps">>,   globmeta |-> FALSE,
   src |-> <<M("dirs", "path")>>,     cfg |-> Cfg("set", "set", <<>>)],
  [id |-> "static",        kind |-> "dirs", prefix |-> <<"assets">>,           globmeta |-> FALSE,
   src |-> <<M("static", "str")>>,    cfg |-> Cfg("unset", "unset", <<>>)],
  [id |-> "static-tuple",  kind |-> "dirs", prefix |-> <<"assets">>,           globmeta |-> FALSE,
   src |-> <<M("static", "tuple-path")>>, cfg |-> Cfg("unset", "set", <<"components">>)],
  [id |-> "default",       kind |-> "dirs", prefix |-> <<"components">>,       globmeta |-> FALSE,
   src |-> <<M("default", "")>>,      cfg |-> Cfg("unset", "unset", <<>>)],
  [id |-> "app",           kind |-> "app",  prefix |-> <<"genapp", "components">>,  globmeta |-> FALSE,
   src |-> <<>>,                      cfg |-> Cfg("set", "unset", <<>>)],
  [id |-> "app-nested-ui", kind |-> "app",  prefix |-> <<"pk", "napp", "ui">>,      globmeta |-> FALSE,
   src |-> <<>>,                      cfg |-> Cfg("set", "set", <<"ui">>)],
  [id |-> "app-outside",   kind |-> "app",  prefix |-> <<"extapp", "components">>,  globmeta |-> FALSE,
   src |-> <<>>,                      cfg |-> Cfg("set", "set", <<"components">>)],
  [id |-> "dirs-bracket",  kind |-> "dirs", prefix |-> <<"comps">>,            globmeta |-> TRUE,
   src |-> <<M("dirs", "str")>>,      cfg |-> Cfg("set", "unset", <<>>)] >>

\* entry codes: kind*10000 + dir*100 + name
Decode(c) == LET d == (c % 10000) \div 100
                 n == c % 100 IN
             IF c >= 10000 THEN Dir(DirPool[d] \o <<DirNames[n]>>) ELSE File(DirPool[d] \o <<FileNames[n]>>)

(* ---- the "cfg" family -------------------------------------------------- *)
Cands == <<
  [id |-> "c1", kind |-> "dirs", prefix |-> <<"comps">>,                globmeta |-> FALSE],
  [id |-> "c2", kind |-> "dirs", prefix |-> <<"outer", "comps">>,       globmeta |-> FALSE],
  [id |-> "c3", kind |-> "dirs", prefix |-> <<"assets">>,               globmeta |-> FALSE],
  [id |-> "c4", kind |-> "dirs", prefix |-> <<"lib", "more">>,          globmeta |-> FALSE],
  [id |-> "c5", kind |-> "dirs", prefix |-> <<"components">>,           globmeta |-> FALSE],
  [id |-> "c6", kind |-> "app",  prefix |-> <<"genapp", "components">>, globmeta |-> FALSE],
  [id |-> "c7", kind |-> "app",  prefix |-> <<"pk", "napp", "ui">>,     globmeta |-> FALSE],
  [id |-> "c8", kind |-> "app",  prefix |-> <<"extapp", "components">>, globmeta |-> FALSE],
  [id |-> "c9", kind |-> "app",  prefix |-> <<"genapp", "ui">>,         globmeta |-> FALSE] >>
DefaultCand == 5
L(c, f) == [c |-> c, form |-> f]
\* COMPONENTS.dirs: not given, or the list of candidates given
DirsChoices == <<
  [given |-> FALSE, list |-> <<>>],
  [given |-> TRUE,  list |-> <<>>],
  [given |-> TRUE,  list |-> <<L(1, "str")>>],
  [given |-> TRUE,  list |-> <<L(1, "path"), L(2, "tuple")>>],
  [given |-> TRUE,  list |-> <<L(3, "str")>>],
  [given |-> TRUE,  list |-> <<L(5, "path")>> ] >>
StaticChoices == <<
  <<>>,
  <<L(3, "str")>>,
  <<L(3, "tuple")>>,
  <<L(3, "path"), L(4, "tuple-path")>>,
  <<L(5, "str")>> >>
AppChoices == <<
  [given |-> FALSE, names |-> <<>>],
  [given |-> TRUE,  names |-> <<>>],
  [given |-> TRUE,  names |-> <<"components">>],
  [given |-> TRUE,  names |-> <<"ui">>],
  [given |-> TRUE,  names |-> <<"ui", "components">>] >>
Forms == <<"dict", "dict-none", "object">>
CfgTree == {File(<<"a.py">>), File(<<"pkg", "__init__.py">>), File(<<"pkg", "m.py">>), File(<<"_p.py">>),
            File(<<"x.js">>), File(<<"pkg", "_in", "z.py">>)}
NoScn == [d |-> 0, s |-> 0, a |-> 0, f |-> 0]
Scns == [d : DOMAIN DirsChoices, s : DOMAIN StaticChoices, a : DOMAIN AppChoices, f : DOMAIN Forms]

Mentions(list, w, c) == LET idx == {i \in DOMAIN list : list[i].c = c} IN
                        IF idx = {} THEN <<>> ELSE <<M(w, list[CHOOSE i \in idx : TRUE].form)>>
ScnRoots(x) == [c \in DOMAIN Cands |->
  [id |-> Cands[c].id, kind |-> Cands[c].kind, prefix |-> Cands[c].prefix, globmeta |-> FALSE,
   src |-> IF Cands[c].kind = "app" THEN <<>>
           ELSE Mentions(DirsChoices[x.d].list, "dirs", c) \o Mentions(StaticChoices[x.s], "static", c)
                \o (IF c = DefaultCand THEN <<M("default", "")>> ELSE <<>>)]]
ScnCfg(x) == [dirs |-> IF DirsChoices[x.d].given THEN "set" ELSE "unset",
              appdirs |-> IF AppChoices[x.a].given THEN "set" ELSE "unset",
              appnames |-> AppChoices[x.a].names, form |-> Forms[x.f]]

VARIABLES vid, sid, codes, scn
mcVars == <<vid, sid, codes, scn>>
IsCfg == scn # NoScn
Sfx == Suffixes[sid]
Tree == {Decode(c) : c \in codes}
Root == [k \in {"id", "kind", "prefix", "globmeta", "src"} |-> Variants[vid][k]]
TheRoots == IF IsCfg THEN ScnRoots(scn) ELSE <<Root>>
TheTrees == IF IsCfg THEN [c \in DOMAIN Cands |-> CfgTree] ELSE <<Tree>>
TheCfg == IF IsCfg THEN ScnCfg(scn) ELSE Variants[vid].cfg

MCInit == \/ vid \in VarIdx /\ sid \in SfxIdx /\ codes = {} /\ scn = NoScn
          \/ vid = 0 /\ sid \in CfgSfxIdx /\ codes = {} /\ scn \in Scns
Add(c) == /\ ~IsCfg
          /\ c \notin codes /\ Cardinality(codes) < MaxEntries
          /\ codes = {} \/ (c \in SmallCodes /\ codes \subseteq SmallCodes)
          /\ codes' = codes \cup {c} /\ UNCHANGED <<vid, sid, scn>>
MCNext == \E c \in Codes : Add(c)
MCSpec == MCInit /\ [][MCNext]_mcVars

\* a file and a directory cannot have the same path; no entry lies "inside" a file
WellFormed == /\ \A k \in DOMAIN TheTrees : \A a, b \in TheTrees[k] :
                   a # b => /\ a.parts # b.parts
                            /\ ~(a.kind = "file" /\ IsPrefix(a.parts, b.parts))
              /\ CfgWellFormed(TheCfg, TheRoots)
Exp == Expected(TheCfg, TheRoots, TheTrees, Sfx)
DevExp == DevExpected(TheCfg, TheRoots, TheTrees, Sfx)
Act == Active(TheCfg, TheRoots)
SelectedIn(k, sfx) == {e \in TheTrees[k] : Selected(e, sfx)}

(* ---- theorems ---------------------------------------------------------- *)
Theorems ==
  /\ \A r \in Exp : \E e \in TheTrees[r.k] : e.kind = "file" /\ e.parts = r.parts  \* only files
  /\ \A k \in DOMAIN TheTrees : \A e \in TheTrees[k] : Selected(e, Sfx) =>         \* nothing private or hidden
       /\ \A i \in 1..Len(e.parts) : ~Hidden(e.parts[i])
       /\ \A i \in 1..(Len(e.parts) - 1) : ~Underscored(e.parts[i])
  /\ \A k \in DOMAIN TheTrees : \A e \in TheTrees[k] :
       (e.kind = "file" /\ Name(e) = "__init__.py" /\ Sfx \in {".py", ""}
        /\ \A i \in 1..(Len(e.parts) - 1) : ~Hidden(e.parts[i]) /\ ~Underscored(e.parts[i]))
       => Selected(e, Sfx)
  /\ Cardinality(Exp) = Cardinality(UNION {{<<k, e>> : e \in SelectedIn(k, Sfx)} : k \in Act})  \* each once
  /\ \A k \in DOMAIN TheTrees : \A e \in TheTrees[k] : Loadable(TheTrees[k], e) => DotDetermined(e)
  \* distinct loadable files (of searched roots) have distinct dotted paths
  /\ \A j, k \in Act : \A a \in SelectedIn(j, ".py") : \A b \in SelectedIn(k, ".py") :
       (<<j, a>> # <<k, b>> /\ Loadable(TheTrees[j], a) /\ Loadable(TheTrees[k], b))
       => DotPath(TheRoots[j], a) # DotPath(TheRoots[k], b)
  \* the deviations only ever add directories or drop whole roots
  /\ (Exp # DevExp) => DevKeysFor(TheCfg, TheRoots, TheTrees, Sfx) # {}
  \* which directories are searched
  /\ TheCfg.dirs = "set" => \A k \in Act : TheRoots[k].kind = "app" \/ In(TheRoots[k], "dirs")
  /\ (TheCfg.dirs = "set" /\ ~\E k \in DOMAIN TheRoots : In(TheRoots[k], "dirs"))      \* dirs = [] : no project dir
       => \A k \in Act : TheRoots[k].kind = "app"
  /\ (TheCfg.appdirs = "set" /\ TheCfg.appnames = <<>>) => \A k \in Act : TheRoots[k].kind # "app"
  /\ \A k \in DOMAIN TheRoots : (TheRoots[k].kind = "dirs" /\ TheRoots[k].src = <<>>) => k \notin Act

Skip == ~WellFormed
Export ==
  Skip \/
  Serialize(ToJson([label |-> IF IsCfg THEN "cfg" ELSE Variants[vid].id,
                    roots |-> TheRoots, cfg |-> TheCfg, sfx |-> Sfx, trees |-> TheTrees,
                    active |-> Act,
                    exp |-> Exp, dev |-> DevExp, keys |-> DevKeysFor(TheCfg, TheRoots, TheTrees, Sfx),
                    \* files to import one by one (the cfg family imports through autodiscover() only)
                    load |-> IF IsCfg THEN {} ELSE
                             UNION {{[k |-> k, parts |-> e.parts, dot |-> DotPath(TheRoots[k], e)] :
                                       e \in {x \in SelectedIn(k, ".py") : Loadable(TheTrees[k], x)}} : k \in Act},
                    expauto |-> Expected(TheCfg, TheRoots, TheTrees, ".py"),
                    \* autodiscover() can be called: every selected .py file is loadable and no deviation applies
                    auto |-> /\ \A k \in Act : \A x \in SelectedIn(k, ".py") : Loadable(TheTrees[k], x)
                             /\ Expected(TheCfg, TheRoots, TheTrees, ".py") = DevExpected(TheCfg, TheRoots, TheTrees, ".py")]) \o "\n",
            IOEnv.OUT, [format |-> "TXT", charset |-> "UTF-8",
                        openOptions |-> <<"WRITE", "CREATE", "APPEND">>]).exitValue = 0
=============================================================================
