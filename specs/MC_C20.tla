------------------------------- MODULE MC_C20 -------------------------------
(***************************************************************************)
(* Bounded instance of Autodiscover: one root of every variant (how the    *)
(* component directory is configured), every requested suffix, and every   *)
(* tree of at most MaxEntries entries over the pools below (trees of more  *)
(* than one entry are taken from SmallCodes only).  Every state is         *)
(* exported with the expected result of get_component_files (spec -> code  *)
(* replay) and which of the selected files Python must be able to import   *)
(* under their dotted path.                                                *)
(***************************************************************************)
EXTENDS Autodiscover, TLC, Json, IOUtils

CONSTANTS VarIdx, SfxIdx, Codes, SmallCodes, MaxEntries

DirPool == << <<>>, <<"pkg">>, <<"pkg", "sub">>, <<"_priv">>, <<".hid">>, <<"pkg", "_in">>, <<"pkg", ".h">>,
              <<"d.ot">>, <<"__pycache__">>, <<"a-b", "c">>, <<"p_q">> >>
FileNames == << "a.py", "_b.py", "__init__.py", ".h.py", "m.py", "a.b.py", "x.js", "x.PY", "x.pyc",
                "__init__.pyx", "__main__.py", "noext", "a-b.py", "c.pyx", "_p.js", "py", "pkg.py",
                "__init__.js", "xpy", "a.py.bak", "x_y.py" >>
DirNames == << "e.py", "plain", "_e.py", ".e.py", "e.js" >>
Suffixes == << ".py", "", ".js", ".pyx" >>

\* how the root is configured; the harness materialises it from (id, kind, prefix)
Variants == <<
  [id |-> "dirs-str",      kind |-> "dirs", prefix |-> <<"comps">>,            globmeta |-> FALSE],
  [id |-> "dirs-path",     kind |-> "dirs", prefix |-> <<"outer", "comps">>,   globmeta |-> FALSE],
  [id |-> "static",        kind |-> "dirs", prefix |-> <<"assets">>,           globmeta |-> FALSE],
  [id |-> "static-tuple",  kind |-> "dirs", prefix |-> <<"assets">>,           globmeta |-> FALSE],
  [id |-> "default",       kind |-> "dirs", prefix |-> <<"components">>,       globmeta |-> FALSE],
  [id |-> "app",           kind |-> "app",  prefix |-> <<"genapp", "components">>,  globmeta |-> FALSE],
  [id |-> "app-nested-ui", kind |-> "app",  prefix |-> <<"pk", "napp", "ui">>,      globmeta |-> FALSE],
  [id |-> "app-outside",   kind |-> "app",  prefix |-> <<"extapp", "components">>,  globmeta |-> FALSE],
  [id |-> "dirs-bracket",  kind |-> "dirs", prefix |-> <<"comps">>,            globmeta |-> TRUE] >>

\* entry codes: kind*10000 + dir*100 + name
Decode(c) == LET d == (c % 10000) \div 100
                 n == c % 100 IN
             IF c >= 10000 THEN Dir(DirPool[d] \o <<DirNames[n]>>) ELSE File(DirPool[d] \o <<FileNames[n]>>)

VARIABLES vid, sid, codes
mcVars == <<vid, sid, codes>>
Root == Variants[vid]
Sfx == Suffixes[sid]
Tree == {Decode(c) : c \in codes}

MCInit == vid \in VarIdx /\ sid \in SfxIdx /\ codes = {}
Add(c) == /\ c \notin codes /\ Cardinality(codes) < MaxEntries
          /\ codes = {} \/ (c \in SmallCodes /\ codes \subseteq SmallCodes)
          /\ codes' = codes \cup {c} /\ UNCHANGED <<vid, sid>>
MCNext == \E c \in Codes : Add(c)
MCSpec == MCInit /\ [][MCNext]_mcVars

\* a file and a directory cannot have the same path; no entry lies "inside" a file
WellFormed == \A a, b \in Tree : a # b => /\ a.parts # b.parts
                                          /\ ~(a.kind = "file" /\ IsPrefix(a.parts, b.parts))
Exp == Expected(<<Root>>, <<Tree>>, Sfx)
DevExp == DevExpected(<<Root>>, <<Tree>>, Sfx)

(* ---- theorems ---------------------------------------------------------- *)
Theorems ==
  /\ \A r \in Exp : \E e \in Tree : e.kind = "file" /\ e.parts = r.parts            \* only files
  /\ \A e \in Tree : Selected(e, Sfx) =>                                             \* nothing private or hidden
       /\ \A i \in 1..Len(e.parts) : ~Hidden(e.parts[i])
       /\ \A i \in 1..(Len(e.parts) - 1) : ~Underscored(e.parts[i])
  /\ \A e \in Tree : (e.kind = "file" /\ Name(e) = "__init__.py" /\ Sfx \in {".py", ""}
                      /\ \A i \in 1..(Len(e.parts) - 1) : ~Hidden(e.parts[i]) /\ ~Underscored(e.parts[i]))
                     => Selected(e, Sfx)
  /\ Cardinality(Exp) = Cardinality({e \in Tree : Selected(e, Sfx)})                  \* each once
  /\ \A e \in Tree : Loadable(Tree, e) => DotDetermined(e)
  \* distinct loadable files have distinct dotted paths
  /\ \A a, b \in Tree : (a # b /\ Loadable(Tree, a) /\ Loadable(Tree, b) /\ Selected(a, ".py") /\ Selected(b, ".py"))
                        => DotPath(Root, a) # DotPath(Root, b)
  \* the deviations only ever add directories or drop whole roots
  /\ (Exp # DevExp) => DevKeysFor(<<Root>>, <<Tree>>, Sfx) # {}

Skip == ~WellFormed
Export ==
  Skip \/
  Serialize(ToJson([root |-> Root, sfx |-> Sfx, entries |-> Tree,
                    exp |-> Exp, dev |-> DevExp, keys |-> DevKeysFor(<<Root>>, <<Tree>>, Sfx),
                    load |-> {[parts |-> e.parts, dot |-> DotPath(Root, e)] :
                                e \in {x \in Tree : Selected(x, ".py") /\ Loadable(Tree, x)}},
                    \* autodiscover() can be called: every selected .py file is loadable and no deviation applies
                    auto |-> /\ \A x \in Tree : Selected(x, ".py") => Loadable(Tree, x)
                             /\ Expected(<<Root>>, <<Tree>>, ".py") = DevExpected(<<Root>>, <<Tree>>, ".py")]) \o "\n",
            IOEnv.OUT, [format |-> "TXT", charset |-> "UTF-8",
                        openOptions |-> <<"WRITE", "CREATE", "APPEND">>]).exitValue = 0
=============================================================================
