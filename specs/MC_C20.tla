------------------------------- MODULE MC_C20 -------------------------------
(***************************************************************************)
(* Bounded instance of Autodiscover, two families of states:               *)
(*                                                                         *)
(* mode "tree": one root of every variant (how the component directory is  *)
(*   configured), every requested suffix, and every tree of at most        *)
(*   MaxEntries entries over the pools below (trees of more than one entry *)
(*   are taken from SmallCodes only).                                      *)
(* mode "cfg": WHICH directories are searched.  Thirteen candidate         *)
(*   directories (five project directories incl. BASE_DIR/components,      *)
(*   eight app directories, one of an app located through a linked         *)
(*   sys.path entry and one that is a symbolic link to a shared directory) *)
(*   all exist with the same small tree; the state chooses                 *)
(*   COMPONENTS.dirs (not given / given empty / given with one or more of  *)
(*   the candidates in str, Path and tuple form), STATICFILES_DIRS (empty /*)
(*   one / several candidates, plain and (prefix, path) form, also one     *)
(*   that dirs lists too and the default directory itself), app_dirs (not  *)
(*   given / empty / one / two names) and how COMPONENTS itself is written *)
(*   (dict, dict with None for what is not given, ComponentsSettings);     *)
(*   further choices SPELL the listed paths (trailing slash, "." / ".."    *)
(*   segments, a symbolic link, the same directory listed several times),  *)
(*   give app_dirs entries that are multi-segment relative paths or carry  *)
(*   a trailing slash / leading "./" / are repeated, and spell BASE_DIR    *)
(*   itself with ".." or through a symbolic link.                          *)
(*                                                                         *)
(* Every state is exported with the expected result of get_component_files *)
(* (spec -> code replay) and which of the selected files Python must be    *)
(* able to import under their dotted path.                                 *)
(***************************************************************************)
EXTENDS Autodiscover, TLC, Json, IOUtils

CONSTANTS VarIdx, SfxIdx, Codes, SmallCodes, MaxEntries,
          CfgSfxIdx,       \* suffixes of the "cfg" family ({} switches it off)
          SpelledCfgSfxIdx, \* suffixes of the "cfg" scenarios with spellings
          LightVarIdx, LightCodes, \* variants whose trees are built from LightCodes only,
          LightSfxIdx              \* and their suffixes

DirPool == << <<>>, <<"pkg">>, <<"pkg", "sub">>, <<"_priv">>, <<".hid">>, <<"pkg", "_in">>, <<"pkg", ".h">>,
              <<"d.ot">>, <<"__pycache__">>, <<"a-b", "c">>, <<"p_q">> >>
FileNames == << "a.py", "_b.py", "__init__.py", ".h.py", "m.py", "a.b.py", "x.js", "x.PY", "x.pyc",
                "__init__.pyx", "__main__.py", "noext", "a-b.py", "c.pyx", "_p.js", "py", "pkg.py",
                "__init__.js", "xpy", "a.py.bak", "x_y.py" >>
DirNames == << "e.py", "plain", "_e.py", ".e.py", "e.js" >>
Suffixes == << ".py", "", ".js", ".pyx" >>

M(w, f) == [in |-> w, form |-> f, spell |-> "plain"]
MS(w, f, sp) == [in |-> w, form |-> f, spell |-> sp]
E(segs, sp) == [segs |-> segs, spell |-> sp]
Names(ns) == [i \in DOMAIN ns |-> E(<<ns[i]>>, "plain")]
Cfg(d, a, names) == [dirs |-> d, appdirs |-> a, appnames |-> names, form |-> "dict", base |-> "plain"]
\* how the root is configured; the harness materialises it from (kind, prefix, app, alias, src) and cfg.
\* Variants 10.. are the SPELLINGS (LightVarIdx: they get the trees over LightCodes only)
V(id, kind, prefix, app, alias, glob, src, cfg) ==
  [id |-> id, kind |-> kind, prefix |-> prefix, app |-> app, alias |-> alias, globmeta |-> glob, src |-> src, cfg |-> cfg,
   reach |-> "plain"]
VR(v, reach) == [v EXCEPT !.reach = reach]
Variants == <<
  V("dirs-str",      "dirs", <<"comps">>,            <<>>, <<>>, FALSE, <<M("dirs", "str")>>,  Cfg("set", "unset", <<>>)),
  V("dirs-path",     "dirs", <<"outer", "comps">>,   <<>>, <<>>, FALSE, <<M("dirs", "path")>>, Cfg("set", "set", <<>>)),
  V("static",        "dirs", <<"assets">>,           <<>>, <<>>, FALSE, <<M("static", "str")>>, Cfg("unset", "unset", <<>>)),
  V("static-tuple",  "dirs", <<"assets">>,           <<>>, <<>>, FALSE, <<M("static", "tuple-path")>>,
    Cfg("unset", "set", Names(<<"components">>))),
  V("default",       "dirs", <<"components">>,       <<>>, <<>>, FALSE, <<M("default", "")>>,  Cfg("unset", "unset", <<>>)),
  V("app",           "app",  <<"genapp", "components">>, <<"genapp">>, <<>>, FALSE, <<>>,     Cfg("set", "unset", <<>>)),
  V("app-nested-ui", "app",  <<"pk", "napp", "ui">>, <<"pk", "napp">>, <<>>, FALSE, <<>>,     Cfg("set", "set", Names(<<"ui">>))),
  V("app-outside",   "app",  <<"extapp", "components">>, <<"extapp">>, <<>>, FALSE, <<>>,     Cfg("set", "set", Names(<<"components">>))),
  V("dirs-bracket",  "dirs", <<"comps">>,            <<>>, <<>>, TRUE,  <<M("dirs", "str")>>,  Cfg("set", "unset", <<>>)),
  \* 10: <BASE_DIR>/conf/../comps
  V("dirs-dotdot",   "dirs", <<"comps">>,            <<>>, <<>>, FALSE, <<MS("dirs", "str", "dotdot")>>, Cfg("set", "unset", <<>>)),
  \* 11: ("pfx", <BASE_DIR>/assets/../assets) in STATICFILES_DIRS
  V("static-tuple-updown", "dirs", <<"assets">>,     <<>>, <<>>, FALSE, <<MS("static", "tuple", "updown")>>, Cfg("unset", "set", <<>>)),
  \* 12: Path with "." segment and the same directory once more with a trailing slash
  V("dirs-twice-dot-slash", "dirs", <<"outer", "comps">>, <<>>, <<>>, FALSE,
    <<MS("dirs", "path", "dot"), MS("dirs", "str", "slash")>>, Cfg("set", "set", <<>>)),
  \* 13: the directory and a symbolic link to it, both listed
  V("dirs-real-and-link", "dirs", <<"comps">>,       <<>>, <<"lnk", "c1">>, FALSE,
    <<M("dirs", "str"), MS("dirs", "path", "alias")>>, Cfg("set", "unset", <<>>)),
  \* 14: only the link listed, in STATICFILES_DIRS
  V("static-link",   "dirs", <<"assets">>,           <<>>, <<"lnk", "c3">>, FALSE, <<MS("static", "str", "alias")>>, Cfg("unset", "unset", <<>>)),
  \* 15: app_dirs = ["parts/inner"]
  V("app-path",      "app",  <<"extapp", "parts", "inner">>, <<"extapp">>, <<>>, FALSE, <<>>,
    Cfg("set", "set", <<E(<<"parts", "inner">>, "plain")>>)),
  \* 16: app_dirs = ["components/"] of a nested app
  V("app-slash",     "app",  <<"pk", "napp", "components">>, <<"pk", "napp">>, <<>>, FALSE, <<>>,
    Cfg("set", "set", <<E(<<"components">>, "slash")>>)),
  \* 17: app_dirs = ["./parts/inner/"-like: "./parts/inner"] of a nested app
  V("app-path-dot",  "app",  <<"pk", "napp", "parts", "inner">>, <<"pk", "napp">>, <<>>, FALSE, <<>>,
    Cfg("set", "set", <<E(<<"parts", "inner">>, "dot")>>)),
  \* 18: the same app directory given twice
  V("app-twice",     "app",  <<"genapp", "components">>, <<"genapp">>, <<>>, FALSE, <<>>,
    Cfg("set", "set", <<E(<<"components">>, "plain"), E(<<"components">>, "slash")>>)),
  \* 19 / 20: BASE_DIR itself spelled with ".." / through a symbolic link
  V("base-dotdot",   "dirs", <<"comps">>,            <<>>, <<>>, FALSE, <<M("dirs", "str")>>,
    [Cfg("set", "unset", <<>>) EXCEPT !.base = "dotdot"]),
  V("base-link",     "dirs", <<"components">>,       <<>>, <<>>, FALSE, <<M("default", "")>>,
    [Cfg("unset", "unset", <<>>) EXCEPT !.base = "alias"]),
  \* 21.. how the file system leads to an APP directory: 21 the app package located through a sys.path entry that
  \* is a symbolic link, app_dirs not given
  VR(V("app-pathlink", "app", <<"lnkapp", "components">>, <<"lnkapp">>, <<>>, FALSE, <<>>, Cfg("set", "unset", <<>>)), "pathlink"),
  \* 22: the same app, app_dirs = ["./ui"]
  VR(V("app-pathlink-ui", "app", <<"lnkapp", "ui">>, <<"lnkapp">>, <<>>, FALSE, <<>>,
       Cfg("unset", "set", <<E(<<"ui">>, "dot")>>)), "pathlink"),
  \* 23: <app>/components is a symbolic link to a shared directory elsewhere
  VR(V("app-dirlink", "app", <<"extapp", "components">>, <<"extapp">>, <<>>, FALSE, <<>>, Cfg("set", "unset", <<>>)), "dirlink"),
  \* 24: <app>/parts/inner of a nested app is such a link, app_dirs = ["parts/inner/"]
  VR(V("app-nested-dirlink-path", "app", <<"pk", "napp", "parts", "inner">>, <<"pk", "napp">>, <<>>, FALSE, <<>>,
       Cfg("set", "set", <<E(<<"parts", "inner">>, "slash")>>)), "dirlink") >>

\* entry codes: kind*10000 + dir*100 + name
Decode(c) == LET d == (c % 10000) \div 100
                 n == c % 100 IN
             IF c >= 10000 THEN Dir(DirPool[d] \o <<DirNames[n]>>) ELSE File(DirPool[d] \o <<FileNames[n]>>)

(* ---- the "cfg" family -------------------------------------------------- *)
C(id, kind, prefix, app, alias) ==
  [id |-> id, kind |-> kind, prefix |-> prefix, app |-> app, alias |-> alias, globmeta |-> FALSE, reach |-> "plain"]
Cands == <<
  C("c1", "dirs", <<"comps">>,                <<>>, <<"lnk", "c1">>),
  C("c2", "dirs", <<"outer", "comps">>,       <<>>, <<>>),
  C("c3", "dirs", <<"assets">>,               <<>>, <<"lnk", "c3">>),
  C("c4", "dirs", <<"lib", "more">>,          <<>>, <<>>),
  C("c5", "dirs", <<"components">>,           <<>>, <<>>),
  C("c6", "app",  <<"genapp", "components">>, <<"genapp">>, <<>>),
  C("c7", "app",  <<"pk", "napp", "ui">>,     <<"pk", "napp">>, <<>>),
  C("c8", "app",  <<"extapp", "components">>, <<"extapp">>, <<>>),
  C("c9", "app",  <<"genapp", "ui">>,         <<"genapp">>, <<>>),
  C("c10", "app", <<"extapp", "parts", "inner">>,     <<"extapp">>, <<>>),
  C("c11", "app", <<"pk", "napp", "parts", "inner">>, <<"pk", "napp">>, <<>>),
  \* an app located through a linked sys.path entry; an app directory that is a link to a shared directory
  VR(C("c12", "app", <<"lnkapp", "components">>, <<"lnkapp">>, <<>>), "pathlink"),
  VR(C("c13", "app", <<"extapp", "ui">>,         <<"extapp">>, <<>>), "dirlink") >>
DefaultCand == 5
L(c, f) == [c |-> c, form |-> f, spell |-> "plain"]
LS(c, f, sp) == [c |-> c, form |-> f, spell |-> sp]
\* COMPONENTS.dirs: not given, or the list of candidates given.  Choices after the first N*Old are the
\* spellings: "..", trailing slash, a symbolic link, the same directory several times.
DirsChoices == <<
  [given |-> FALSE, list |-> <<>>],
  [given |-> TRUE,  list |-> <<>>],
  [given |-> TRUE,  list |-> <<L(1, "str")>>],
  [given |-> TRUE,  list |-> <<L(1, "path"), L(2, "tuple")>>],
  [given |-> TRUE,  list |-> <<L(3, "str")>>],
  [given |-> TRUE,  list |-> <<L(5, "path")>> ],
  [given |-> TRUE,  list |-> <<LS(1, "str", "dotdot"), LS(2, "path", "updown")>>],
  [given |-> TRUE,  list |-> <<L(1, "path"), LS(1, "str", "alias"), LS(2, "tuple", "slash"), LS(2, "str", "dotdot")>>],
  [given |-> TRUE,  list |-> <<LS(3, "path", "alias"), LS(5, "str", "dot")>>] >>
NDirsOld == 6
StaticChoices == <<
  <<>>,
  <<L(3, "str")>>,
  <<L(3, "tuple")>>,
  <<L(3, "path"), L(4, "tuple-path")>>,
  <<L(5, "str")>>,
  <<LS(3, "tuple", "dotdot"), LS(4, "str", "slash")>>,
  <<L(3, "str"), LS(3, "tuple-path", "alias"), LS(4, "path", "updown")>> >>
NStaticOld == 5
AppChoices == <<
  [given |-> FALSE, names |-> <<>>],
  [given |-> TRUE,  names |-> <<>>],
  [given |-> TRUE,  names |-> Names(<<"components">>)],
  [given |-> TRUE,  names |-> Names(<<"ui">>)],
  [given |-> TRUE,  names |-> Names(<<"ui", "components">>)],
  [given |-> TRUE,  names |-> <<E(<<"parts", "inner">>, "plain")>>],
  [given |-> TRUE,  names |-> <<E(<<"components">>, "slash"), E(<<"parts", "inner">>, "dot")>>],
  [given |-> TRUE,  names |-> <<E(<<"parts", "inner">>, "slash"), E(<<"ui">>, "dot"), E(<<"parts", "inner">>, "plain")>>] >>
NAppOld == 5
Forms == <<"dict", "dict-none", "object">>
Bases == <<"plain", "dotdot", "alias">>
CfgTree == {File(<<"a.py">>), File(<<"pkg", "__init__.py">>), File(<<"pkg", "m.py">>), File(<<"_p.py">>),
            File(<<"x.js">>), File(<<"pkg", "_in", "z.py">>)}
NoScn == [d |-> 0, s |-> 0, a |-> 0, f |-> 0, b |-> 0]
\* every combination of the plain choices in every form; the spellings with every other choice, and the
\* spellings of BASE_DIR with a selection of the choices, COMPONENTS written as a dict
Scns == [d : 1..NDirsOld, s : 1..NStaticOld, a : 1..NAppOld, f : DOMAIN Forms, b : {1}]
        \cup {x \in [d : DOMAIN DirsChoices, s : DOMAIN StaticChoices, a : DOMAIN AppChoices, f : {1}, b : {1}] :
                x.d > NDirsOld \/ x.s > NStaticOld \/ x.a > NAppOld}
        \cup [d : {1, 3, 6, 7}, s : {1, 2, 6}, a : {1, 2, 6}, f : {1}, b : {2, 3}]
SpelledScn(x) == x.d > NDirsOld \/ x.s > NStaticOld \/ x.a > NAppOld \/ x.b > 1

Mentions(list, w, c) == LET mine == SelectSeq(list, LAMBDA x : x.c = c) IN
                        [i \in DOMAIN mine |-> MS(w, mine[i].form, mine[i].spell)]
ScnRoots(x) == [c \in DOMAIN Cands |->
  [id |-> Cands[c].id, kind |-> Cands[c].kind, prefix |-> Cands[c].prefix, app |-> Cands[c].app,
   alias |-> Cands[c].alias, globmeta |-> FALSE, reach |-> Cands[c].reach,
   src |-> IF Cands[c].kind = "app" THEN <<>>
           ELSE Mentions(DirsChoices[x.d].list, "dirs", c) \o Mentions(StaticChoices[x.s], "static", c)
                \o (IF c = DefaultCand THEN <<M("default", "")>> ELSE <<>>)]]
ScnCfg(x) == [dirs |-> IF DirsChoices[x.d].given THEN "set" ELSE "unset",
              appdirs |-> IF AppChoices[x.a].given THEN "set" ELSE "unset",
              appnames |-> AppChoices[x.a].names, form |-> Forms[x.f], base |-> Bases[x.b]]

VARIABLES vid, sid, codes, scn
mcVars == <<vid, sid, codes, scn>>
IsCfg == scn # NoScn
Sfx == Suffixes[sid]
Tree == {Decode(c) : c \in codes}
Root == [k \in {"id", "kind", "prefix", "app", "alias", "globmeta", "src", "reach"} |-> Variants[vid][k]]
TheRoots == IF IsCfg THEN ScnRoots(scn) ELSE <<Root>>
TheTrees == IF IsCfg THEN [c \in DOMAIN Cands |-> CfgTree] ELSE <<Tree>>
TheCfg == IF IsCfg THEN ScnCfg(scn) ELSE Variants[vid].cfg

MCInit == \/ vid \in VarIdx /\ sid \in SfxIdx /\ codes = {} /\ scn = NoScn
             /\ (vid \in LightVarIdx => sid \in LightSfxIdx)
          \/ vid = 0 /\ sid \in CfgSfxIdx /\ codes = {} /\ scn \in Scns
             /\ (SpelledScn(scn) => sid \in SpelledCfgSfxIdx)
Add(c) == /\ ~IsCfg
          /\ vid \in LightVarIdx => c \in LightCodes
          /\ c \notin codes /\ Cardinality(codes) < MaxEntries
          /\ codes = {} \/ (c \in SmallCodes /\ codes \subseteq SmallCodes)
          /\ codes' = codes \cup {c} /\ UNCHANGED <<vid, sid, scn>>
MCNext == \E c \in Codes : Add(c)
MCSpec == MCInit /\ [][MCNext]_mcVars

\* a file and a directory cannot have the same path; no entry lies "inside" a file
WellFormed == /\ \A k \in DOMAIN TheTrees : \A a, b \in TheTrees[k] :
                   a # b => /\ a.parts # b.parts
                            /\ ~(a.kind = "file" /\ IsPrefix(a.parts, b.parts))
              /\ CfgWellFormed(TheCfg, TheRoots)
Exp == Expected(TheCfg, TheRoots, TheTrees, Sfx)
DevExp == DevExpected(TheCfg, TheRoots, TheTrees, Sfx)
Act == Active(TheCfg, TheRoots)
SelectedIn(k, sfx) == {e \in TheTrees[k] : Selected(e, sfx)}

(* ---- theorems ---------------------------------------------------------- *)
Theorems ==
  /\ \A r \in Exp : \E e \in TheTrees[r.k] : e.kind = "file" /\ e.parts = r.parts  \* only files
  /\ \A k \in DOMAIN TheTrees : \A e \in TheTrees[k] : Selected(e, Sfx) =>         \* nothing private or hidden
       /\ \A i \in 1..Len(e.parts) : ~Hidden(e.parts[i])
       /\ \A i \in 1..(Len(e.parts) - 1) : ~Underscored(e.parts[i])
  /\ \A k \in DOMAIN TheTrees : \A e \in TheTrees[k] :
       (e.kind = "file" /\ Name(e) = "__init__.py" /\ Sfx \in {".py", ""}
        /\ \A i \in 1..(Len(e.parts) - 1) : ~Hidden(e.parts[i]) /\ ~Underscored(e.parts[i]))
       => Selected(e, Sfx)
  /\ Cardinality(Exp) = Cardinality(UNION {{<<k, e>> : e \in SelectedIn(k, Sfx)} : k \in Act})  \* each once
  /\ \A k \in DOMAIN TheTrees : \A e \in TheTrees[k] : Loadable(TheTrees[k], e) => DotDetermined(e)
  \* distinct loadable files (of searched roots) have distinct dotted paths
  /\ \A j, k \in Act : \A a \in SelectedIn(j, ".py") : \A b \in SelectedIn(k, ".py") :
       (<<j, a>> # <<k, b>> /\ Loadable(TheTrees[j], a) /\ Loadable(TheTrees[k], b))
       => DotPath(TheRoots[j], a) # DotPath(TheRoots[k], b)
  \* a deviating outcome is only ever predicted where a named deviation is triggered, and every prediction
  \* differs from the specified outcome
  /\ (Exp # DevExp) => DevKeysFor(TheCfg, TheRoots, TheTrees, Sfx) # {}
  /\ \A alt \in DevAlternatives(TheCfg, TheRoots, TheTrees, Sfx) : alt.rows # Exp /\ alt.keys # {}
  \* how directories are spelled (and how often they are listed) means nothing: the same configuration with every
  \* path written plainly selects the same files under the same dotted paths
  /\ LET plain == [k \in DOMAIN TheRoots |->
                     [TheRoots[k] EXCEPT !.src = [i \in DOMAIN TheRoots[k].src |-> [TheRoots[k].src[i] EXCEPT !.spell = "plain"]],
                                         !.reach = "plain"]]
         pcfg == [TheCfg EXCEPT !.base = "plain",
                                !.appnames = [i \in DOMAIN TheCfg.appnames |-> [TheCfg.appnames[i] EXCEPT !.spell = "plain"]]]
         P(rows) == {[k |-> r.k, parts |-> r.parts, dot |-> r.dot, n |-> r.n] : r \in rows} IN
     P(Expected(pcfg, plain, TheTrees, Sfx)) = P(Exp)
  /\ \A r \in Exp : r.n = 1 /\ r.dot \in r.dots
  \* which directories are searched
  /\ TheCfg.dirs = "set" => \A k \in Act : TheRoots[k].kind = "app" \/ In(TheRoots[k], "dirs")
  /\ (TheCfg.dirs = "set" /\ ~\E k \in DOMAIN TheRoots : In(TheRoots[k], "dirs"))      \* dirs = [] : no project dir
       => \A k \in Act : TheRoots[k].kind = "app"
  /\ (TheCfg.appdirs = "set" /\ TheCfg.appnames = <<>>) => \A k \in Act : TheRoots[k].kind # "app"
  /\ \A k \in DOMAIN TheRoots : (TheRoots[k].kind = "dirs" /\ TheRoots[k].src = <<>>) => k \notin Act

Skip == ~WellFormed
Export ==
  Skip \/
  Serialize(ToJson([label |-> IF IsCfg THEN "cfg" ELSE Variants[vid].id,
                    roots |-> TheRoots, cfg |-> TheCfg, sfx |-> Sfx, trees |-> TheTrees,
                    active |-> Act,
                    exp |-> Exp, devs |-> DevAlternatives(TheCfg, TheRoots, TheTrees, Sfx),
                    keys |-> DevKeysFor(TheCfg, TheRoots, TheTrees, Sfx),
                    \* files to import one by one (the cfg family imports through autodiscover() only)
                    load |-> IF IsCfg THEN {} ELSE
                             UNION {{[k |-> k, parts |-> e.parts, dot |-> DotPath(TheRoots[k], e)] :
                                       e \in {x \in SelectedIn(k, ".py") : Loadable(TheTrees[k], x)}} : k \in Act},
                    expauto |-> Expected(TheCfg, TheRoots, TheTrees, ".py"),
                    \* autodiscover() can be called: every selected .py file is loadable under one determined dotted
                    \* path (no directory listed through a link) and no deviation is triggered
                    auto |-> /\ \A k \in Act : \A x \in SelectedIn(k, ".py") : Loadable(TheTrees[k], x)
                             /\ \A k \in Act : ~AliasListed(TheRoots[k])
                             /\ DevsFor(TheCfg, TheRoots, TheTrees, ".py") = {}]) \o "\n",
            IOEnv.OUT, [format |-> "TXT", charset |-> "UTF-8",
                        openOptions |-> <<"WRITE", "CREATE", "APPEND">>]).exitValue = 0
=============================================================================
