---------------------------- MODULE MgmtCommands ----------------------------
(***************************************************************************)
(* X05 - the management commands `startcomponent` and `upgradecomponent`   *)
(* as a state machine over a small file system.  Written from the          *)
(* documentation only (docs/reference/commands.md = the commands' help     *)
(* texts and the docstring of startcomponent; CHANGELOG v0.50).            *)
(*                                                                         *)
(* Sentences relied on - startcomponent:                                   *)
(*  [S1] "name: The name of the component to create."                      *)
(*  [S2] "--path: The path to the component's directory. ... If not        *)
(*       provided, the command will use the `COMPONENTS.dirs` setting from *)
(*       your Django settings."                                            *)
(*  [S3] "python manage.py startcomponent my_component ... will create a   *)
(*       new component named `my_component` in the `components` directory  *)
(*       of your Django project. The JavaScript, CSS, and template files   *)
(*       will be named `script.js`, `style.css`, and `template.html`".     *)
(*       (COMPONENTS.dirs "Defaults to [Path(settings.BASE_DIR) /          *)
(*       "components"]", so [S2] and [S3] agree for default settings.)     *)
(*  [S4] "startcomponent new_component --path my_components --js           *)
(*       my_script.js --css my_style.css --template my_template.html ...   *)
(*       will create a new component named `new_component` in the          *)
(*       `my_components` directory. The JavaScript, CSS, and template      *)
(*       files will be named `my_script.js`, `my_style.css`, and           *)
(*       `my_template.html`".                                              *)
(*  [S5] "--force: This option allows you to overwrite existing files if   *)
(*       they exist." / "This will overwrite the existing `my_component`   *)
(*       if it exists."   (so: without --force nothing existing is         *)
(*       overwritten; the refusal is a CommandError, the failure channel   *)
(*       of a Django management command)                                   *)
(*  [S6] "--dry-run: ... simulate component creation without actually      *)
(*       creating any files."                                              *)
(*  [S7] "--verbose: ... print additional information during component     *)
(*       creation."                                                        *)
(*  [S8] "Create a new django component."  (the python file <name>.py      *)
(*       defines a Component registered under <name> that refers to the    *)
(*       js / css / template files created beside it)                      *)
(* upgradecomponent:                                                       *)
(*  [U1] "Updates component and component_block tags to the new syntax"    *)
(*  [U2] "--path: Path to search for components"                           *)
(*  [U3] "`{% component_block %}` is now `{% component %}`, and            *)
(*       `{% component %}` blocks need an ending `{% endcomponent %}` tag. *)
(*       The new `python manage.py upgradecomponent` command can be used   *)
(*       to upgrade a directory (use `--path` argument to point to each    *)
(*       dir) of templates that use components to the new syntax           *)
(*       automatically."                                                   *)
(*  [U4] "The component name must be a single- or double-quotes string"    *)
(*                                                                         *)
(* The world (all paths are sequences of parts below one scratch root):    *)
(*   proj/                BASE_DIR, the Django project                     *)
(*   proj/components      default COMPONENTS.dirs                          *)
(*   proj/ui              COMPONENTS.dirs = [BASE_DIR/"ui"] ("custom")     *)
(*   proj/my_components   `--path my_components` with cwd = BASE_DIR       *)
(*   proj/templates       a template directory of the project              *)
(*   lib/                 `--path <absolute, existing>`                    *)
(*   fresh/sub            `--path <absolute, does not exist yet>`          *)
(*   outside/             never configured, never passed                   *)
(*                                                                         *)
(* Where the documentation is silent the operators return a SET of         *)
(* admitted outcomes (see Start, AdmittedAfter) or the case is not         *)
(* `Determined` and is never generated.                                    *)
(***************************************************************************)
EXTENDS Integers, Sequences, FiniteSets

(* ---- paths ------------------------------------------------------------ *)
IsPrefix(p, q) == Len(p) <= Len(q) /\ SubSeq(q, 1, Len(p)) = p
Ancestors(p) == {SubSeq(p, 1, i) : i \in 1..Len(p)}          \* p itself and every directory above it
LastPart(p) == p[Len(p)]
StrEndsWith(n, s) == Len(s) <= Len(n) /\ SubSeq(n, Len(n) - Len(s) + 1, Len(n)) = s

Base == <<"proj">>
DefaultCompDir == Base \o <<"components">>
CustomCompDir == Base \o <<"ui">>
PresetDirs == {Base, DefaultCompDir, CustomCompDir, Base \o <<"my_components">>, <<"lib">>, <<"outside">>}

\* `w` says how the directory that receives / is searched for components is designated
WhereDir(w) == CASE w = "P" -> <<"lib">>                        \* --path <absolute existing directory>
                 [] w = "R" -> Base \o <<"my_components">>      \* --path my_components, cwd = BASE_DIR   [S4]
                 [] w = "N" -> <<"fresh", "sub">>               \* --path <absolute, not existing>  (docs silent)
                 [] w = "B" -> DefaultCompDir                   \* no --path, COMPONENTS.dirs unset   [S2][S3]
                 [] w = "D" -> CustomCompDir                    \* no --path, COMPONENTS.dirs = [BASE_DIR/"ui"]  [S2]
GivesPath(w) == w \in {"P", "R", "N"}

(* ---- file contents ---------------------------------------------------- *)
\* One record shape for every file.  by = "user": written by the user (harness), c = its template
\* content as a sequence of symbols (see below; <<>> for files that are not templates).
\* by = "cmd": generated by startcomponent in the given role; for the python file reg / tpl / js / css
\* say under which name the component is registered and which files beside it it refers to.
User(c) == [by |-> "user", role |-> "", reg |-> "", tpl |-> "", js |-> "", css |-> "", c |-> c]

(* ======================================================================= *)
(* startcomponent                                                          *)
(* ======================================================================= *)
\* an invocation: [name, w, js, css, tpl, force, dry, verbose]; js/css/tpl = "" when the option is omitted
JsName(i)  == IF i.js  = "" THEN "script.js"     ELSE i.js          \* [S3][S4]
CssName(i) == IF i.css = "" THEN "style.css"     ELSE i.css
TplName(i) == IF i.tpl = "" THEN "template.html" ELSE i.tpl
PyName(i)  == i.name \o ".py"
CompDir(i) == WhereDir(i.w) \o <<i.name>>
RoleFile(i, role) == CASE role = "js" -> JsName(i) [] role = "css" -> CssName(i)
                       [] role = "tpl" -> TplName(i) [] role = "py" -> PyName(i)
Roles == {"js", "css", "tpl", "py"}
Written(i) == {CompDir(i) \o <<RoleFile(i, r)>> : r \in Roles}
RoleOf(i, p) == CHOOSE r \in Roles : p = CompDir(i) \o <<RoleFile(i, r)>>
\* the four names are pairwise distinct in every generated invocation (docs silent on collisions)
NamesDistinct(i) == Cardinality(Written(i)) = 4

Gen(i, role) == [by |-> "cmd", role |-> role,
                 reg |-> IF role = "py" THEN i.name ELSE "",
                 tpl |-> IF role = "py" THEN TplName(i) ELSE "",
                 js  |-> IF role = "py" THEN JsName(i) ELSE "",
                 css |-> IF role = "py" THEN CssName(i) ELSE "",
                 c |-> <<>>]

Outcome(res, f, d, w) == [res |-> res, fs |-> f, dirs |-> d, written |-> w]

\* The set of admitted outcomes of `startcomponent` in file system (fs, dirs).
\* fs: function path -> content record; dirs: set of existing directories.
Start(fs, dirs, i) ==
  LET W == Written(i)
      refuse == Outcome("error", fs, dirs, {})
      nothing == Outcome("ok", fs, dirs, {})
      create == Outcome("ok",
                        [p \in DOMAIN fs \cup W |-> IF p \in W THEN Gen(i, RoleOf(i, p)) ELSE fs[p]],
                        dirs \cup Ancestors(CompDir(i)), W)
      parentMissing == WhereDir(i.w) \notin dirs IN
  IF CompDir(i) \in dirs /\ ~i.force THEN {refuse}                     \* [S5]
  ELSE IF i.dry THEN (IF parentMissing THEN {nothing, refuse} ELSE {nothing})   \* [S6]
  ELSE IF parentMissing THEN {create, refuse}                          \* docs silent: create parents or refuse
  ELSE {create}                                                        \* [S1]-[S4], [S8]

\* Named deviation of the implementation (used ONLY to classify a failing case as a known finding):
\* without --path the component is created under BASE_DIR/components whatever COMPONENTS.dirs says.
KD == "path-omitted-custom-dirs:created-in-base-components"
StartDevAlts(fs, dirs, i) ==
  IF i.w = "D" THEN {[keys |-> {KD}, admitted |-> Start(fs, dirs, [i EXCEPT !.w = "B"])]} ELSE {}

\* [S7] is a statement about the output only
VerboseIrrelevant(fs, dirs, i) == Start(fs, dirs, i) = Start(fs, dirs, [i EXCEPT !.verbose = ~@])

(* ======================================================================= *)
(* upgradecomponent: template contents                                     *)
(* ======================================================================= *)
\* A template is a sequence of symbols [k, v, raw]:
\*   k = "T"  text that contains none of the four tags (v selects the text: plain, CRLF line ends,
\*            other template syntax, the bare words, non-ASCII)
\*       "OO" {% component_block "n" ... %}        old block opener           [U3]
\*       "OC" {% endcomponent_block %}             old block end (v=2,3: with the name repeated)
\*       "C"  {% component "n" ... %}              old inline tag OR new opener - the same text
\*       "E"  {% endcomponent %}                   new end tag
\*       "S"  {% component "n" ... / %}            new self-closing tag
\*       "B"  the whole content of a file that is not text (an image beside the components)
\*   v = presentation of the tag: 1 canonical, 2 with arguments, 3 name in single quotes [U4],
\*       4 no blanks inside the delimiters, 5 spread over several lines with arguments
\*   raw = TRUE: byte-for-byte the text the user wrote; FALSE: a tag (re)written by the command, of
\*       which only the tag name and the arguments are determined, not the white space.
Sym(k, v) == [k |-> k, v |-> v, raw |-> TRUE]
New(k, v) == [k |-> k, v |-> v, raw |-> FALSE]

Has(s, ks) == \E i \in 1..Len(s) : s[i].k \in ks
Count(s, k, i) == Cardinality({j \in 1..i : s[j].k = k})
\* the tags `up` ... `down` nest properly: never more ends than openers, as many in the end
Nested(s, up, down) == /\ \A i \in 1..Len(s) : Count(s, up, i) >= Count(s, down, i)
                       /\ Count(s, up, Len(s)) = Count(s, down, Len(s))
\* every {% component %} has its {% endcomponent %}: these tags are new syntax already
Balanced(s) == Nested(s, "C", "E")
\* every old block opener has its end
BlocksBalanced(s) == Nested(s, "OO", "OC")
\* What the file means is determined when the old blocks are well formed and its {% component %} tags
\* are all closed (new syntax, possibly with old blocks left) or none is (old syntax: no
\* {% endcomponent %}, no self-closing tag).  A file that mixes closed and unclosed {% component %} tags
\* is in neither syntax: never generated.
Determined(s) == BlocksBalanced(s) /\ (Balanced(s) \/ ~Has(s, {"E", "S"}))

RECURSIVE Flat(_)
Flat(ss) == IF Len(ss) = 0 THEN <<>> ELSE ss[1] \o Flat(SubSeq(ss, 2, Len(ss)))

SingleQuoted(x) == x.k \in {"OO", "OC", "C"} /\ x.v = 3
LastE(s) == IF Has(s, {"E"})
            THEN CHOOSE i \in 1..Len(s) : s[i].k = "E" /\ \A j \in (i+1)..Len(s) : s[j].k # "E"
            ELSE 0

\* Named deviations of the implementation (used ONLY to classify a failing case as a known finding):
KA == "closed-component-tag:endcomponent-added"
   \* a {% component "n" %} tag that is followed by an {% endcomponent %} somewhere later in the file, or
   \* a self-closing tag, is taken for an unclosed one: one more {% endcomponent %} is written after the
   \* last {% endcomponent %} of the file / after the self-closing tag
KB == "single-quoted-name:tag-not-upgraded"
   \* tags whose component name is in single quotes are not recognised
KC == "crlf-in-rewritten-file:converted-to-lf"
   \* a file that is rewritten loses its CRLF line ends

\* The rewrite with the set A of deviations active; A = {} is the documented rewrite.
Rewrite(s, A) ==
  LET le == LastE(s)
      recog(x) == ~(KB \in A /\ SingleQuoted(x))
      one(i) ==
        LET x == s[i]
            closeIt == IF KA \in A
                       THEN x.k \in {"C", "S"} /\ recog(x) /\ i > le
                       ELSE x.k = "C" /\ recog(x) /\ ~Balanced(s)             \* old inline tag gets its end [U3]
            extra == /\ KA \in A /\ i = le
                     /\ \E j \in 1..(le - 1) : s[j].k \in {"C", "S"} /\ recog(s[j])
            body == CASE x.k = "OO" /\ recog(x) -> <<New("C", x.v)>>          \* component_block -> component
                      [] x.k = "OC" /\ recog(x) -> <<New("E", 1)>>            \* endcomponent_block -> endcomponent
                      [] OTHER -> <<x>>
        IN body \o (IF closeIt \/ extra THEN <<New("E", 1)>> ELSE <<>>)
      out == Flat([i \in 1..Len(s) |-> one(i)])
  \* ("TLF", 2) is the text ("T", 2) with LF instead of CRLF line ends
  IN IF KC \in A /\ out # s
     THEN [i \in 1..Len(out) |-> IF out[i].k = "T" /\ out[i].v = 2 THEN New("TLF", 2) ELSE out[i]]
     ELSE out

Upgrade(s) == Rewrite(s, {})

Applicable(s) ==
  (IF \E i \in 1..Len(s) : s[i].k = "S" \/ (s[i].k = "C" /\ i < LastE(s)) THEN {KA} ELSE {})
  \cup (IF \E i \in 1..Len(s) : SingleQuoted(s[i]) THEN {KB} ELSE {})
  \cup (IF \E i \in 1..Len(s) : s[i].k = "T" /\ s[i].v = 2 THEN {KC} ELSE {})
DevAlts(s) == {a \in {[keys |-> A, out |-> Rewrite(s, A)] : A \in (SUBSET Applicable(s)) \ {{}}} :
                 a.out # Upgrade(s)}

\* observed content (symbols projected from the bytes; raw = the bytes are the canonical user text)
\* agrees with a specified content
Agrees(obs, exp) == /\ Len(obs) = Len(exp)
                    /\ \A i \in 1..Len(exp) : /\ obs[i].k = exp[i].k /\ obs[i].v = exp[i].v
                                              /\ exp[i].raw => obs[i].raw

(* ---- theorems about the rewrite (checked by TLC over every enumerated content) -------------- *)
UpgradeTheorems(s) ==
  Determined(s) =>
    /\ Upgrade(Upgrade(s)) = Upgrade(s)                                   \* running twice = running once
    /\ ~Has(Upgrade(s), {"OO", "OC"})                                     \* no old tag is left
    /\ Balanced(Upgrade(s))                                               \* every component tag is closed
    /\ (~Has(s, {"OO", "OC"}) /\ Balanced(s)) => Upgrade(s) = s           \* new syntax: byte-identical
    /\ SelectSeq(Upgrade(s), LAMBDA x : x.k \in {"T", "S"}) = SelectSeq(s, LAMBDA x : x.k \in {"T", "S"})
    /\ Determined(Upgrade(s))
    /\ \A a \in DevAlts(s) : a.out # Upgrade(s)

(* ======================================================================= *)
(* upgradecomponent: which files                                           *)
(* ======================================================================= *)
\* an invocation: [usepath, w, cdirs]; usepath: --path WhereDir(w) is given; cdirs = "default" |
\* "custom": how COMPONENTS.dirs is set when the command runs
HtmlFile(p) == StrEndsWith(LastPart(p), ".html")
SearchRoot(u) == IF u.usepath THEN WhereDir(u.w)                                  \* [U2][U3]
                 ELSE IF u.cdirs = "custom" THEN CustomCompDir ELSE DefaultCompDir \* where components live
Searched(p, u) == IsPrefix(SearchRoot(u), p)
\* Without --path the docs do not say what else inside the project is searched (the implementation adds
\* BASE_DIR/templates); nothing outside the project that is neither configured nor passed can be.
MaybeSearched(p, u) == ~u.usepath /\ IsPrefix(Base, p)
UpContent(t) == IF t.by = "user" THEN [t EXCEPT !.c = Upgrade(t.c)] ELSE t       \* generated files hold no tags
\* contents the file may have after the command ("templates" = *.html is determined [U3]; whether
\* other files below a searched directory - *.py with inline templates, *.txt ... - are rewritten is not)
AdmittedAfter(p, t, u) ==
  IF Searched(p, u) /\ HtmlFile(p) THEN {UpContent(t)}
  ELSE IF Searched(p, u) \/ MaybeSearched(p, u) THEN {t, UpContent(t)}
  ELSE {t}
=============================================================================
