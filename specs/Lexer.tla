------------------------------- MODULE Lexer -------------------------------
(***************************************************************************)
(* C09 - what the token stream of a template source must be.               *)
(*                                                                         *)
(* Layer A (this module).  A template source is a sequence of SEGMENTS     *)
(* (text, {{ var }}, {# comment #}, {% block %} made of plain runs /       *)
(* whitespace / quoted strings, verbatim ... endverbatim, unterminated     *)
(* tails).  Characters are code points (small integers), so every position *)
(* and every line number below is computed by the specification itself.    *)
(*                                                                         *)
(*   Flat(src)      the characters of the source                           *)
(*   Tokens(src)    the token stream the property demands: type, contents  *)
(*                  (span minus delimiters and outer whitespace), [s,e)    *)
(*                  and lineno = 1 + newlines before s                     *)
(*   StockTokens    a transcription of Django's Lexer/DebugLexer           *)
(*                  (tag_re split + create_token, incl. verbatim)          *)
(*   PartitionOK    the first sentence of the property as a predicate on   *)
(*                  an arbitrary token list                                *)
(*                                                                         *)
(* Theorems checked by TLC on every enumerated source (MC_C09):            *)
(*   Partition, StockEqual, OnlyQuotedClosersDiffer, SingleLineSame.       *)
(*                                                                         *)
(* Written from the property text, docs/concepts/fundamentals/             *)
(* template_tag_syntax.md (tags inside quoted strings, multi-line tags)    *)
(* and Django's documented lexing; not from template_parser.py.            *)
(***************************************************************************)
EXTENDS Naturals, Sequences, FiniteSets

LB == 123   \* {
RB == 125   \* }
PC == 37    \* %
HS == 35    \* #
DQ == 34    \* "
SQ == 39    \* '
BS == 92    \* backslash
NL == 10
SP == 32
TAB == 9
CR == 13
RSQB == 93  \* ]  (used to neutralise a closer)

VERBATIM == <<118, 101, 114, 98, 97, 116, 105, 109>>
ENDW == <<101, 110, 100>>

IsWs(c) == c \in {SP, NL, TAB, CR}     \* what Python's str.strip() removes, as far as generated
Closer(o) == IF o = PC THEN PC ELSE IF o = LB THEN RB ELSE HS   \* second-last char of the closing delimiter
Openers == {PC, LB, HS}
TypeOf(o) == IF o = PC THEN "BLOCK" ELSE IF o = LB THEN "VAR" ELSE "COMMENT"

MinOf(S) == CHOOSE x \in S : \A y \in S : x <= y
MaxOf(S) == CHOOSE x \in S : \A y \in S : x >= y

RECURSIVE Cat(_)
Cat(ss) == IF ss = <<>> THEN <<>> ELSE Head(ss) \o Cat(Tail(ss))

NLs(s) == Cardinality({i \in 1..Len(s) : s[i] = NL})
Strip(s) == LET I == {i \in 1..Len(s) : ~IsWs(s[i])}
            IN IF I = {} THEN <<>> ELSE SubSeq(s, MinOf(I), MaxOf(I))
AllWs(s) == \A i \in 1..Len(s) : IsWs(s[i])
HasQuote(s) == \E i \in 1..Len(s) : s[i] \in {DQ, SQ}
HasPair(s, a, b) == \E i \in 1..(Len(s) - 1) : s[i] = a /\ s[i + 1] = b
StartsWith(s, p) == Len(s) >= Len(p) /\ SubSeq(s, 1, Len(p)) = p
\* Django: content[:9] in ("verbatim", "verbatim ")
OpensVerbatim(c) == SubSeq(c, 1, IF Len(c) < 9 THEN Len(c) ELSE 9) \in {VERBATIM, VERBATIM \o <<SP>>}

(***************************************************************************)
(* Segments -> characters                                                  *)
(***************************************************************************)
PartChars(p) ==
  CASE p.p = "plain" -> p.c
    [] p.p = "ws"    -> p.c
    [] p.p = "str"   -> <<p.q>> \o p.c \o <<p.q>>      \* complete quoted string, body p.c
    [] p.p = "openq" -> <<p.q>> \o p.c                 \* string that is never closed

PartsChars(ps) == Cat([i \in 1..Len(ps) |-> PartChars(ps[i])])

\* var / comment / block: opener o, outer whitespace lw / rw, parts
TagRaw(s) == <<LB, s.o>> \o s.lw \o PartsChars(s.parts) \o s.rw \o <<Closer(s.o), RB>>

RECURSIVE SegChars(_)
SegChars(s) ==
  CASE s.k = "text" -> s.c
    [] s.k = "tag"  -> TagRaw(s)
    [] s.k = "tail" -> <<LB, s.o>> \o PartsChars(s.parts)
    [] s.k = "verbatim" ->
         TagRaw(s.open) \o Cat([i \in 1..Len(s.body) |-> SegChars(s.body[i])])
                        \o (IF s.closed THEN TagRaw(s.close) ELSE <<>>)

Flat(src) == Cat([i \in 1..Len(src) |-> SegChars(src[i])])

\* what the property calls the contents of a tag token
TagContent(raw) == Strip(SubSeq(raw, 3, Len(raw) - 2))

(***************************************************************************)
(* Well-formedness: the conditions under which the segment structure IS    *)
(* the structure of the text (segment borders are token borders).          *)
(***************************************************************************)
NoOpener(c) == \A i \in 1..Len(c) : c[i] = LB => (i < Len(c) /\ c[i + 1] \notin Openers)
NoBrace(c) == \A i \in 1..Len(c) : c[i] # LB

\* escapes inside a string body come in pairs, no unescaped closing quote, no trailing backslash
RECURSIVE StrBodyOK(_, _, _)
StrBodyOK(c, i, q) ==
  IF i > Len(c) THEN TRUE
  ELSE IF c[i] = BS THEN (i < Len(c) /\ StrBodyOK(c, i + 2, q))
  ELSE c[i] # q /\ StrBodyOK(c, i + 1, q)

PartOK(p, o) ==
  CASE p.p = "plain" -> /\ Len(p.c) > 0 /\ ~HasQuote(p.c) /\ NoBrace(p.c)
                        /\ \A i \in 1..Len(p.c) : ~IsWs(p.c[i]) /\ p.c[i] # RB /\ p.c[i] # BS
                        /\ (o # PC => \A i \in 1..Len(p.c) : p.c[i] \notin {PC, HS})
    [] p.p = "ws"    -> Len(p.c) > 0 /\ AllWs(p.c)
    [] p.p = "str"   -> p.q \in {DQ, SQ} /\ StrBodyOK(p.c, 1, p.q) /\ (o # PC => ~HasPair(p.c, Closer(o), RB))
    [] p.p = "openq" -> p.q \in {DQ, SQ} /\ o = PC /\ \A i \in 1..Len(p.c) : p.c[i] \notin {p.q, BS}

EmbeddedCloser(p) == p.p \in {"str", "openq"} /\ HasPair(p.c, PC, RB)
IsOpenQ(p) == p.p = "openq"

TagOK(s) ==
  /\ s.o \in Openers /\ AllWs(s.lw) /\ AllWs(s.rw)
  /\ \A i \in 1..Len(s.parts) : PartOK(s.parts[i], s.o)
  /\ \A i \in 1..Len(s.parts) : IsOpenQ(s.parts[i]) => i = Len(s.parts)
  /\ \A i \in 1..(Len(s.parts) - 1) : ~(s.parts[i].p = "plain" /\ s.parts[i + 1].p = "plain")

TagQuoted(s) == s.o = PC /\ \E i \in 1..Len(s.parts) : s.parts[i].p \in {"str", "openq"}
TagHasCloserInString(s) == s.o = PC /\ \E i \in 1..Len(s.parts) : EmbeddedCloser(s.parts[i])
TagUnbalanced(s) == \E i \in 1..Len(s.parts) : IsOpenQ(s.parts[i])

BodySegOK(b, endc) ==
  \/ b.k = "text" /\ NoOpener(b.c)
  \/ b.k = "tag" /\ TagOK(b) /\ ~TagHasCloserInString(b) /\ ~TagUnbalanced(b)
       /\ (b.o = PC => TagContent(TagRaw(b)) # endc)

SegOK(s) ==
  CASE s.k = "text" -> NoOpener(s.c)
    [] s.k = "tag"  -> TagOK(s) /\ (s.o = PC => ~OpensVerbatim(TagContent(TagRaw(s))))
    [] s.k = "tail" -> /\ s.o \in Openers
                       /\ \A i \in 1..Len(s.parts) : PartOK(s.parts[i], s.o)
                       /\ \A i \in 1..Len(s.parts) : IsOpenQ(s.parts[i]) => i = Len(s.parts)
                       \* nothing outside a string closes it
                       /\ ~HasPair(Cat([i \in 1..Len(s.parts) |->
                                          IF s.parts[i].p \in {"str", "openq"} THEN <<SP>> ELSE s.parts[i].c]),
                                   Closer(s.o), RB)
                       \* and nothing inside it is a complete tag of its own
                       /\ \A i \in 1..Len(s.parts) : NoBrace(s.parts[i].c)
    [] s.k = "verbatim" ->
         /\ TagOK(s.open) /\ s.open.o = PC /\ ~TagHasCloserInString(s.open) /\ ~TagUnbalanced(s.open)
         /\ OpensVerbatim(TagContent(TagRaw(s.open)))
         /\ \A i \in 1..Len(s.body) : BodySegOK(s.body[i], ENDW \o TagContent(TagRaw(s.open)))
         /\ s.closed => /\ TagOK(s.close) /\ s.close.o = PC
                        /\ TagContent(TagRaw(s.close)) = ENDW \o TagContent(TagRaw(s.open))

WellFormed(src) ==
  /\ \A i \in 1..Len(src) : SegOK(src[i])
  \* unterminated constructs only as the tail of the source
  /\ \A i \in 1..Len(src) : (src[i].k = "tail" \/ (src[i].k = "verbatim" /\ ~src[i].closed)) => i = Len(src)
  \* a text segment must not end in "{" (it would fuse with a following opener)
  /\ \A i \in 1..Len(src) : src[i].k = "text" /\ Len(src[i].c) > 0 => src[i].c[Len(src[i].c)] # LB

(***************************************************************************)
(* Oracle zone: the property / docs do not determine one token stream when *)
(* a block tag has an unbalanced quote, or when a tag with a quoted "%}"   *)
(* is never closed.  Admitted: TemplateSyntaxError, or any stream that is  *)
(* a faithful partition (PartitionOK).                                     *)
(***************************************************************************)
SegZone(s) ==
  CASE s.k = "tag"  -> TagUnbalanced(s)
    [] s.k = "tail" -> s.o = PC /\ \E i \in 1..Len(s.parts) : EmbeddedCloser(s.parts[i])
    [] OTHER -> FALSE
Zone(src) == \E i \in 1..Len(src) : SegZone(src[i])

SegQuoted(s) ==
  CASE s.k = "tag" -> TagQuoted(s)
    [] s.k = "verbatim" -> TagQuoted(s.open) \/ (s.closed /\ TagQuoted(s.close))
    [] s.k = "tail" -> SegZone(s)      \* its quoted "%}" makes a stock block tag with a quote in it
    [] OTHER -> FALSE
NoQuote(src) == \A i \in 1..Len(src) : ~SegQuoted(src[i])
NoCloserInString(src) == \A i \in 1..Len(src) : src[i].k = "tag" => ~TagHasCloserInString(src[i])

\* does any (potential) tag span a line break?  (only then does multiline_tags matter)
RECURSIVE SegTagNL(_)
SegTagNL(s) ==
  CASE s.k = "text" -> FALSE
    [] s.k = "tag"  -> NLs(TagRaw(s)) > 0
    [] s.k = "tail" -> NLs(SegChars(s)) > 0
    [] s.k = "verbatim" -> \/ NLs(TagRaw(s.open)) > 0
                           \/ (s.closed /\ NLs(TagRaw(s.close)) > 0)
                           \/ \E i \in 1..Len(s.body) : SegTagNL(s.body[i])
InTagNL(src) == \E i \in 1..Len(src) : SegTagNL(src[i])

(***************************************************************************)
(* Tokens(src)                                                             *)
(***************************************************************************)
Piece(t, raw, c, m) == [t |-> t, raw |-> raw, c |-> c, m |-> m]   \* m: literal text, merges with neighbours

BodyPieces(b) == IF b.k = "text" THEN <<Piece("TEXT", b.c, b.c, TRUE)>>
                 ELSE <<Piece("TEXT", TagRaw(b), TagRaw(b), FALSE)>>   \* inside verbatim a tag is one TEXT token

SegPieces(s) ==
  CASE s.k = "text" -> <<Piece("TEXT", s.c, s.c, TRUE)>>
    [] s.k = "tail" -> <<Piece("TEXT", SegChars(s), SegChars(s), TRUE)>>
    [] s.k = "tag"  -> <<Piece(TypeOf(s.o), TagRaw(s), TagContent(TagRaw(s)), FALSE)>>
    [] s.k = "verbatim" ->
         <<Piece("BLOCK", TagRaw(s.open), TagContent(TagRaw(s.open)), FALSE)>>
         \o Cat([i \in 1..Len(s.body) |-> BodyPieces(s.body[i])])
         \o (IF s.closed THEN <<Piece("BLOCK", TagRaw(s.close), TagContent(TagRaw(s.close)), FALSE)>> ELSE <<>>)

RECURSIVE Coalesce(_, _)
Coalesce(ps, acc) ==
  IF ps = <<>> THEN acc
  ELSE LET p == Head(ps) IN
       IF p.raw = <<>> THEN Coalesce(Tail(ps), acc)
       ELSE IF p.m /\ acc # <<>> /\ acc[Len(acc)].m
            THEN Coalesce(Tail(ps), [acc EXCEPT ![Len(acc)] =
                                       Piece("TEXT", @.raw \o p.raw, @.c \o p.c, TRUE)])
            ELSE Coalesce(Tail(ps), Append(acc, p))

Tok(t, c, s, e, l) == [t |-> t, c |-> c, s |-> s, e |-> e, l |-> l]

RECURSIVE Layout(_, _, _, _)
Layout(ps, pos, line, acc) ==
  IF ps = <<>> THEN acc
  ELSE LET p == Head(ps) IN
       Layout(Tail(ps), pos + Len(p.raw), line + NLs(p.raw),
              Append(acc, Tok(p.t, p.c, pos, pos + Len(p.raw), line)))

Pieces(src) == Coalesce(Cat([i \in 1..Len(src) |-> SegPieces(src[i])]), <<>>)
Tokens(src) == Layout(Pieces(src), 0, 1, <<>>)

(***************************************************************************)
(* The first sentence of the property, for an arbitrary token list.        *)
(***************************************************************************)
TokShapeOK(ch, k) ==
  LET raw == SubSeq(ch, k.s + 1, k.e) IN
  IF k.t = "TEXT" THEN k.c = raw
  ELSE /\ Len(raw) >= 4
       /\ raw[1] = LB /\ raw[2] \in Openers /\ TypeOf(raw[2]) = k.t
       /\ raw[Len(raw) - 1] = Closer(raw[2]) /\ raw[Len(raw)] = RB
       /\ k.c = TagContent(raw)

PartitionClauses(ch, toks) ==
  {c \in {"cover", "contiguous", "nonempty", "lineno", "contents"} :
     CASE c = "cover"      -> IF Len(ch) = 0 THEN toks # <<>>
                              ELSE toks = <<>> \/ toks[1].s # 0 \/ toks[Len(toks)].e # Len(ch)
       [] c = "contiguous" -> \E i \in 1..(Len(toks) - 1) : toks[i].e # toks[i + 1].s
       [] c = "nonempty"   -> \E i \in 1..Len(toks) : ~(toks[i].s < toks[i].e /\ toks[i].e <= Len(ch))
       [] c = "lineno"     -> \E i \in 1..Len(toks) :
                                 toks[i].s <= Len(ch) /\ toks[i].l # 1 + NLs(SubSeq(ch, 1, toks[i].s))
       [] c = "contents"   -> \E i \in 1..Len(toks) :
                                 toks[i].s < toks[i].e /\ toks[i].e <= Len(ch) /\ ~TokShapeOK(ch, toks[i])}
PartitionOK(ch, toks) == PartitionClauses(ch, toks) = {}

(***************************************************************************)
(* Stock Django: tag_re = ({%.*?%}|{{.*?}}|{#.*?#}) ; ml <=> re.DOTALL     *)
(* (COMPONENTS.multiline_tags, default on).  Indices into ch are 1-based.  *)
(***************************************************************************)
RECURSIVE FindCloser(_, _, _, _)
\* least j >= from with ch[j..j+1] = <<a, "}">> ; 0 when "." cannot get there
FindCloser(ch, j, a, ml) ==
  IF j >= Len(ch) THEN 0
  ELSE IF ch[j] = a /\ ch[j + 1] = RB THEN j
  ELSE IF ~ml /\ ch[j] = NL THEN 0
  ELSE FindCloser(ch, j + 1, a, ml)

\* tag_re.split / DebugLexer._tag_re_split_positions: <<in_tag, s, e>> with 0-based half-open spans,
\* empty strings already dropped
RECURSIVE Split(_, _, _, _)
Split(ch, i, last, ml) ==
  IF i >= Len(ch)
  THEN (IF last < Len(ch) THEN <<[tag |-> FALSE, s |-> last, e |-> Len(ch)]>> ELSE <<>>)
  ELSE IF ch[i] = LB /\ ch[i + 1] \in Openers
       THEN LET j == FindCloser(ch, i + 2, Closer(ch[i + 1]), ml) IN
            IF j # 0
            THEN (IF last < i - 1 THEN <<[tag |-> FALSE, s |-> last, e |-> i - 1]>> ELSE <<>>)
                 \o <<[tag |-> TRUE, s |-> i - 1, e |-> j + 1]>>
                 \o Split(ch, j + 2, j + 1, ml)
            ELSE Split(ch, i + 1, last, ml)
       ELSE Split(ch, i + 1, last, ml)

\* Lexer.tokenize + create_token.  verb = <<>> is "self.verbatim = False"
RECURSIVE StockFold(_, _, _, _, _)
StockFold(ch, sp, verb, line, acc) ==
  IF sp = <<>> THEN acc
  ELSE LET p == Head(sp)
           raw == SubSeq(ch, p.s + 1, p.e)
           nl == line + NLs(raw)
           content == TagContent(raw)
       IN
       IF ~p.tag THEN StockFold(ch, Tail(sp), verb, nl, Append(acc, Tok("TEXT", raw, p.s, p.e, line)))
       ELSE IF raw[2] = PC
            THEN IF verb # <<>>
                 THEN IF content # verb
                      THEN StockFold(ch, Tail(sp), verb, nl, Append(acc, Tok("TEXT", raw, p.s, p.e, line)))
                      ELSE StockFold(ch, Tail(sp), <<>>, nl, Append(acc, Tok("BLOCK", content, p.s, p.e, line)))
                 ELSE StockFold(ch, Tail(sp), IF OpensVerbatim(content) THEN ENDW \o content ELSE <<>>, nl,
                                Append(acc, Tok("BLOCK", content, p.s, p.e, line)))
            ELSE IF verb = <<>>
                 THEN StockFold(ch, Tail(sp), verb, nl, Append(acc, Tok(TypeOf(raw[2]), content, p.s, p.e, line)))
                 ELSE StockFold(ch, Tail(sp), verb, nl, Append(acc, Tok("TEXT", raw, p.s, p.e, line)))

StockTokensV(ch, ml, verb) == StockFold(ch, Split(ch, 1, 0, ml), verb, 1, <<>>)
StockTokens(ch, ml) == StockTokensV(ch, ml, <<>>)

(***************************************************************************)
(* Theorems (checked by TLC for every enumerated well-formed source)       *)
(***************************************************************************)
\* replace the "}" of every "%}" inside a quoted string by "]"
NeutChars(c) == [i \in 1..Len(c) |-> IF c[i] = RB /\ i > 1 /\ c[i - 1] = PC THEN RSQB ELSE c[i]]
NeutPart(p) == IF p.p \in {"str", "openq"} THEN [p EXCEPT !.c = NeutChars(@)] ELSE p
NeutSeg(s) == IF s.k = "tag" THEN [s EXCEPT !.parts = [i \in 1..Len(s.parts) |-> NeutPart(s.parts[i])]] ELSE s
Neut(src) == [i \in 1..Len(src) |-> NeutSeg(src[i])]

ThmPartition(src) == PartitionOK(Flat(src), Tokens(src))
ThmStockEqual(src) == NoQuote(src) => Tokens(src) = StockTokens(Flat(src), TRUE)
ThmOnlyQuotedClosersDiffer(src) ==
  LET n == Neut(src) a == Tokens(src) b == Tokens(n) IN
  ~Zone(src) =>
    /\ NoCloserInString(src) => a = StockTokens(Flat(src), TRUE)
    /\ b = StockTokens(Flat(n), TRUE)
    /\ Len(a) = Len(b)
    /\ \A i \in 1..Len(a) : /\ a[i].t = b[i].t /\ a[i].s = b[i].s /\ a[i].e = b[i].e /\ a[i].l = b[i].l
                            /\ NeutChars(a[i].c) = NeutChars(b[i].c)
\* multiline_tags only matters when a tag spans a line break
ThmSingleLineSame(src) == ~InTagNL(src) => StockTokens(Flat(src), FALSE) = StockTokens(Flat(src), TRUE)
=============================================================================
