---------------------------- MODULE TagFormatter ----------------------------
(***************************************************************************)
(* Extension check X01: tag formatters of django-components.               *)
(*                                                                         *)
(* Written from the documentation only (docs/concepts/advanced/            *)
(* tag_formatter.md, the docstrings of tag_formatter.py / component.py /   *)
(* component_registry.py and CHANGELOG.md).  Sentences relied on:          *)
(*                                                                         *)
(*  [D1] "ComponentFormatter ... Uses the `component` and `endcomponent`   *)
(*       tags, and the component name is gives as the first positional     *)
(*       argument."  (block: {% component "button" href="..." %} ...       *)
(*       {% endcomponent %}; inlined: {% component "button" href="..." / %})*)
(*  [D2] "ShorthandComponentFormatter ... Uses the component name as start *)
(*       tag, and `end<component_name>` as an end tag."  ({% button        *)
(*       href="..." %} Click me! {% endbutton %}; {% button href="..." / %})*)
(*  [D3] TagFormatterABC.parse: "['component', '\"my_comp\"', 'key=val',   *)
(*       'key2=val2'] - `component` is the tag name, which we drop. -      *)
(*       `\"my_comp\"` is the component name, but we must remove the extra *)
(*       quotes. - The remaining tokens we pass unmodified, as that's the  *)
(*       input to the component.  So in the end, we return:                *)
(*       TagResult('my_comp', ['key=val', 'key2=val2'])"                   *)
(*  [D4] {% component %} docstring: "The component name must be a single-  *)
(*       or double-quotes string and must be either: - The first           *)
(*       positional argument after `component`: {% component \"my_table\"  *)
(*       rows=rows headers=headers ... / %} - Passed as kwarg `name`:      *)
(*       {% component rows=rows headers=headers name=\"my_table\" ... / %}"*)
(*  [D5] shorthand parse (tag_formatter.md): "name = tokens.pop(0);        *)
(*       return TagResult(name, tokens)" - "The parser receives:           *)
(*       ['button', 'href=\"...\"', 'disabled']"                           *)
(*  [D6] InternalTagFormatter: "Internal wrapper around user-provided      *)
(*       TagFormatters, so that we validate the outputs." / "We validate   *)
(*       the generated tags, so they contain only valid characters         *)
(*       (\w - : . @ #) and NO SPACE. Otherwise we wouldn't be able to     *)
(*       distinguish a \"multi-word\" tag from several single-word tags."  *)
(*       / error text "Tag must contain only following chars: \w - : @ . # *)
(*       /" and "Tag cannot be empty" (ValueError) / CHANGELOG: "Allow     *)
(*       using forward slash (`/`) when defining custom TagFormatter, e.g. *)
(*       {% MyComp %}..{% /MyComp %}."                                     *)
(*  [D7] tag_formatter.md: "1. `component` must be registered as a         *)
(*       Django's template tag ... 3. The tag handler passes the tag       *)
(*       contents for pre-processing to TagFormatter.parse() ... 6. Tag    *)
(*       handler looks up the component `button`, and passes the args,     *)
(*       kwargs, and slots to it."  ComponentRegistry: "When you register  *)
(*       a component to a registry, behind the scenes the registry         *)
(*       automatically adds the component's template tag ... to the        *)
(*       Library.  And the opposite happens when you unregister";          *)
(*       registry.get: "Raises NotRegistered if the given name is not      *)
(*       registered."                                                      *)
(*  [D8] template_tag_syntax.md: "In a case of conflicts, the values added *)
(*       later (right-most) overwrite previous values."                    *)
(*                                                                         *)
(* A text (name, tag, token) is a sequence of characters (1-character      *)
(* strings; TLC has no Head/Tail on strings); the harness joins them.      *)
(* Everything is defined on RAW token lists, so the same operators decide  *)
(* the cases TLC builds (MC_X01) and the records of the random driver      *)
(* (Trace_X01).                                                            *)
(*                                                                         *)
(* Where the documentation does not determine one answer the operators     *)
(* return a SET of admissible outcomes (see "zones" at ParseComp).         *)
(***************************************************************************)
EXTENDS Naturals, Sequences, FiniteSets, TLC

Chars(s) == [i \in 1..Len(s) |-> SubSeq(s, i, i)]      \* "end" -> <<"e", "n", "d">>
Min(S) == CHOOSE x \in S : \A y \in S : x <= y

(* ------------------------------ characters ----------------------------- *)
Lower == {"a", "b", "c", "d", "e", "f", "g", "h", "i", "j", "k", "l", "m",
          "n", "o", "p", "q", "r", "s", "t", "u", "v", "w", "x", "y", "z"}
Upper == {"A", "B", "C", "D", "E", "F", "G", "H", "I", "J", "K", "L", "M",
          "N", "O", "P", "Q", "R", "S", "T", "U", "V", "W", "X", "Y", "Z"}
Digit == {"0", "1", "2", "3", "4", "5", "6", "7", "8", "9"}
AsciiWord == Lower \cup Upper \cup Digit \cup {"_"}
TagPunct == {"-", ":", "@", ".", "#", "/"}                           \* [D6]
Quotes == {"\"", "'"}
WS == {" ", "\n", "\t", "\r", "\f"}

\* W: the non-ASCII characters of the case that are letters / digits according to the Unicode
\* character database (supplied by the harness from unicodedata, not from the library); \w of
\* [D6] = ASCII letters, digits, underscore and those.
IsWordChar(c, W) == c \in AsciiWord \/ c \in W
TagChar(c, W) == IsWordChar(c, W) \/ c \in TagPunct
\* [D6] a tag is not empty, has no space and only the listed characters
ValidTag(t, W) == Len(t) > 0 /\ \A i \in 1..Len(t) : TagChar(t[i], W)

(* ------------------------------ formatters ----------------------------- *)
\* comp:  ComponentFormatter(tag)                         [D1]
\* short: ShorthandComponentFormatter()                   [D2]
\* affix: a user-written TagFormatterABC subclass of the harness: start tag sp+name+ss, end tag
\*        ep+name+es, parse() takes the name out of tokens[0] (the pattern of the documented
\*        example implementation; e.g. sp = "", ep = "/" is the CHANGELOG's {% MyComp %}{% /MyComp %})
CompF(tag) == [kind |-> "comp", tag |-> tag, sp |-> <<>>, ss |-> <<>>, ep |-> <<>>, es |-> <<>>]
ShortF == [kind |-> "short", tag |-> <<>>, sp |-> <<>>, ss |-> <<>>, ep |-> <<>>, es |-> <<>>]
AffixF(sp, ss, ep, es) == [kind |-> "affix", tag |-> <<>>, sp |-> sp, ss |-> ss, ep |-> ep, es |-> es]

End == Chars("end")
StartTag(f, n) == CASE f.kind = "comp"  -> f.tag
                    [] f.kind = "short" -> n
                    [] f.kind = "affix" -> f.sp \o n \o f.ss
EndTag(f, n) == CASE f.kind = "comp"  -> End \o f.tag
                  [] f.kind = "short" -> End \o n
                  [] f.kind = "affix" -> f.ep \o n \o f.es

\* InternalTagFormatter.start_tag / end_tag: the formatter's answer, validated [D6]
TagOk(t)  == [k |-> "ok", cls |-> "", v |-> t]
TagErr(c) == [k |-> "exc", cls |-> c, v |-> <<>>]
Checked(t, W) == IF ValidTag(t, W) THEN TagOk(t) ELSE TagErr("ValueError")
IStart(f, n, W) == Checked(StartTag(f, n), W)
IEnd(f, n, W)   == Checked(EndTag(f, n), W)
\* registry.register(n, cls): needs the start tag.  An invalid END tag must surface as
\* ValueError before the tag can be used; whether already at register() is not documented.
RegisterOutcomes(f, n, W) ==
  IF ~ValidTag(StartTag(f, n), W) THEN {"ValueError"}
  ELSE IF ~ValidTag(EndTag(f, n), W) THEN {"ok", "ValueError"} ELSE {"ok"}

(* ------------------------------ tokens --------------------------------- *)
\* A token is a word of the tag: whitespace occurs only inside quotes, quotes are closed
\* (what splitting a tag's content on unquoted whitespace yields; backslash escapes are not
\* modelled - generators do not use backslashes).
RECURSIVE Scan(_, _, _)
Scan(tok, i, q) ==      \* q: "" outside quotes, else the open quote
  IF i > Len(tok) THEN q = ""
  ELSE LET c == tok[i] IN
       IF q = "" THEN (IF c \in Quotes THEN Scan(tok, i + 1, c) ELSE c \notin WS /\ Scan(tok, i + 1, ""))
       ELSE (IF c = q THEN Scan(tok, i + 1, "") ELSE Scan(tok, i + 1, q))
WellFormedTok(tok) == Len(tok) > 0 /\ Scan(tok, 1, "")
WellFormedToks(toks) == \A i \in 1..Len(toks) : WellFormedTok(toks[i])

FirstOf(tok, S) == LET hits == {i \in 1..Len(tok) : tok[i] \in S} IN IF hits = {} THEN 0 ELSE Min(hits)
EqPos(tok) == FirstOf(tok, {"="})
\* key=value: a non-empty key, and the "=" stands before any quote (a quoted string that merely
\* contains "=" is a string literal, i.e. a positional argument)
IsKw(tok) == LET e == EqPos(tok)  q == FirstOf(tok, Quotes) IN e > 1 /\ (q = 0 \/ e < q)
Key(tok) == SubSeq(tok, 1, EqPos(tok) - 1)
Val(tok) == SubSeq(tok, EqPos(tok) + 1, Len(tok))
\* "a single- or double-quotes string" [D4]
Quoted(s) == Len(s) >= 2 /\ s[1] \in Quotes /\ s[Len(s)] = s[1]
Inner(s) == SubSeq(s, 2, Len(s) - 1)                     \* "remove the extra quotes" [D3]
NameKey == Chars("name")

RECURSIVE Drop(_, _, _)
Drop(s, I, i) == IF i > Len(s) THEN <<>> ELSE (IF i \in I THEN <<>> ELSE <<s[i]>>) \o Drop(s, I, i + 1)

(* ------------------------------ parse ---------------------------------- *)
Ok(n, r) == [k |-> "ok", name |-> n, rest |-> r]
Tse == [k |-> "tse", name |-> <<>>, rest |-> <<>>]        \* TemplateSyntaxError

\* ComponentFormatter.parse(toks); toks[1] is the tag word, "which we drop" [D3].
\* Candidates for the name: the first token when it is positional [D1, D4], every `name=`
\* keyword [D4], and - not documented either way - the first QUOTED positional token that
\* follows keyword arguments.  A candidate is usable when it is a quoted string [D4]; the result
\* is its content and all other tokens, unchanged and in order [D3].
\* Determined (exactly one outcome): no token -> error; one candidate which is the first token
\* or a `name=` keyword: usable and non-empty -> that result, not usable -> error; no candidate
\* -> error.
\* Zones (set of outcomes, error always admitted):
\*   - several candidates (positional name AND name=, or name= twice: an error, or any of
\*     them wins - [D8] would say the right-most; with name= repeated the other name= tokens may
\*     be dropped as well);
\*   - a quoted positional token after keyword arguments as the only candidate;
\*   - the empty name ("" / '').
ParseComp(toks) ==
  LET A == Tail(toks)
      Pos == {i \in 1..Len(A) : ~IsKw(A[i])}
      NameKws == {i \in 1..Len(A) : IsKw(A[i]) /\ Key(A[i]) = NameKey}
      LatePos == {i \in Pos : i > 1 /\ Quoted(A[i])}
      FirstPos == IF 1 \in Pos THEN {1} ELSE IF LatePos = {} THEN {} ELSE {Min(LatePos)}
      Cands == FirstPos \cup NameKws
      NameText(i) == IF i \in NameKws THEN Val(A[i]) ELSE A[i]
      Usable == {i \in Cands : Quoted(NameText(i))}
      Oks == UNION {{Ok(Inner(NameText(i)), Drop(A, {i}, 1))} \cup
                    (IF i \in NameKws THEN {Ok(Inner(NameText(i)), Drop(A, NameKws, 1))} ELSE {}) : i \in Usable}
      Determined == Cardinality(Cands) = 1 /\ (Cands = {1} \/ Cands \subseteq NameKws)
      Firm == Determined /\ \A o \in Oks : Len(o.name) > 0
  IN IF Len(A) = 0 THEN {Tse}
     ELSE IF Firm /\ Oks # {} THEN Oks
     ELSE Oks \cup {Tse}

\* ShorthandComponentFormatter.parse [D5]
ParseShort(toks) == {Ok(toks[1], Tail(toks))}

\* the harness's affix formatter (user code; raises TemplateSyntaxError on a foreign tag word)
HasAffix(w, f) == /\ Len(w) >= Len(f.sp) + Len(f.ss)
                  /\ SubSeq(w, 1, Len(f.sp)) = f.sp
                  /\ SubSeq(w, Len(w) - Len(f.ss) + 1, Len(w)) = f.ss
ParseAffix(f, toks) ==
  IF HasAffix(toks[1], f)
  THEN {Ok(SubSeq(toks[1], Len(f.sp) + 1, Len(toks[1]) - Len(f.ss)), Tail(toks))} ELSE {Tse}

\* precondition: Len(toks) >= 1 (the tag word is always there)
Parse(f, toks) == CASE f.kind = "comp"  -> ParseComp(toks)
                    [] f.kind = "short" -> ParseShort(toks)
                    [] f.kind = "affix" -> ParseAffix(f, toks)

(* ------------------------------ prescription --------------------------- *)
\* The tag a formatter prescribes for calling component n with argument tokens ts.
\* ComponentFormatter writes the name as a string literal: possible when one kind of quote does
\* not occur in n (escapes are not documented).
QuoteFor(n) == IF \A i \in 1..Len(n) : n[i] # "\"" THEN "\"" ELSE "'"
Writable(n) == \E q \in Quotes : \A i \in 1..Len(n) : n[i] # q
Lit(n, q) == <<q>> \o n \o <<q>>
PrescribedToks(f, n, ts) ==
  IF f.kind = "comp" THEN <<f.tag, Lit(n, QuoteFor(n))>> \o ts ELSE <<StartTag(f, n)>> \o ts
\* Round-trip law: parsing what the formatter itself prescribes yields (n, ts).  `name=` among
\* the arguments of ComponentFormatter is a zone (see above), so is the empty name.
NoNameKw(ts) == \A i \in 1..Len(ts) : ~(IsKw(ts[i]) /\ Key(ts[i]) = NameKey)
RoundTripApplies(f, n, ts) ==
  /\ WellFormedToks(PrescribedToks(f, n, ts))
  /\ f.kind = "comp" => Writable(n) /\ Len(n) > 0 /\ NoNameKw(ts)
RoundTrip(f, n, ts) == RoundTripApplies(f, n, ts) => Parse(f, PrescribedToks(f, n, ts)) = {Ok(n, ts)}

(* ------------------------------ arguments ------------------------------ *)
\* The small argument grammar used end to end ("receives exactly the remaining arguments"):
\* decimal integers, quoted strings without template syntax, key=<those>, the flag `only`.
\* Their meaning is the one of docs/concepts/fundamentals/template_tag_syntax.md (C02 covers
\* the full grammar): positional values in order, keyword values by key, the flag is no value.
OnlyFlag == Chars("only")
Slash == <<"/">>
StrChar(c) == c \in AsciiWord \/ c \in {" ", "=", "/", "-", ":", ".", "@", "#", "'", "\"", ","}
IsInt(s) == Len(s) > 0 /\ (\A i \in 1..Len(s) : s[i] \in Digit) /\ (Len(s) > 1 => s[1] # "0")
IsStrLit(s) == Quoted(s) /\ \A i \in 2..(Len(s) - 1) : StrChar(s[i]) /\ s[i] # s[1]
ValueOK(s) == IsInt(s) \/ IsStrLit(s)
Value(s) == IF Quoted(s) THEN [t |-> "str", s |-> Inner(s)] ELSE [t |-> "int", s |-> s]
KeyChar(c) == c \in AsciiWord \/ c \in {"-", "@", ".", "#"}
KeyOK(key) == Len(key) > 0 /\ \A i \in 1..Len(key) : KeyChar(key[i])
ArgKind(tok) == IF tok = OnlyFlag THEN "flag" ELSE IF IsKw(tok) THEN "kw" ELSE "pos"
ArgOK(tok) == CASE ArgKind(tok) = "flag" -> TRUE
                [] ArgKind(tok) = "kw"   -> KeyOK(Key(tok)) /\ ValueOK(Val(tok))
                [] OTHER                 -> ValueOK(tok)
\* inside the grammar, keys distinct, no positional after a keyword, flag at most once
ArgsOK(as) ==
  /\ \A i \in 1..Len(as) : ArgOK(as[i])
  /\ \A i, j \in 1..Len(as) : i < j =>
        /\ ~(ArgKind(as[i]) = "kw" /\ ArgKind(as[j]) = "pos")
        /\ ~(ArgKind(as[i]) = "kw" /\ ArgKind(as[j]) = "kw" /\ Key(as[i]) = Key(as[j]))
        /\ ~(ArgKind(as[i]) = "flag" /\ ArgKind(as[j]) = "flag")
RECURSIVE PosVals(_, _), KwVals(_, _)
PosVals(as, i) == IF i > Len(as) THEN <<>>
                  ELSE (IF ArgKind(as[i]) = "pos" THEN <<Value(as[i])>> ELSE <<>>) \o PosVals(as, i + 1)
KwVals(as, i) == IF i > Len(as) THEN <<>>
                 ELSE (IF ArgKind(as[i]) = "kw" THEN <<[key |-> Key(as[i]), v |-> Value(Val(as[i]))]>> ELSE <<>>)
                      \o KwVals(as, i + 1)

(* ------------------------------ end to end ----------------------------- *)
\* A registry with formatter f, its own Library, and the set R of names registered in it (all
\* registered successfully).  A use of a tag in a template that loads that Library only:
\*   word   the tag word ({% word ... %})        toks   the words after it
\*   close  "self": toks ends with "/";  "block": followed by the body X and {% endw %};
\*          "open": followed by nothing
\* Preconditions (generators): word and endw are no tags of Django / of the builtin libraries;
\* "/" occurs only as the last token of a "self" use.
X(c) == [k |-> "exc", cls |-> c, comp |-> <<>>, args |-> <<>>, kwargs |-> <<>>, body |-> ""]
Rendered(n, as, body) == [k |-> "rendered", cls |-> "", comp |-> n, args |-> PosVals(as, 1),
                          kwargs |-> KwVals(as, 1), body |-> body]
Front(s) == SubSeq(s, 1, Len(s) - 1)
LibTags(f, R) == {StartTag(f, n) : n \in R}
ArgsOf(u, rest) == IF u.close = "self" THEN Front(rest) ELSE rest
After(f, R, u, p, W) ==
  IF ~ValidTag(EndTag(f, p.name), W) THEN {X("ValueError")}                          \* [D6]
  ELSE IF u.close = "open" THEN {X("TemplateSyntaxError")}                           \* unclosed block
  ELSE IF u.close = "block" /\ u.endw # EndTag(f, p.name) THEN {X("TemplateSyntaxError")}   \* [D1, D2]
  ELSE IF p.name \notin R THEN {X("NotRegistered")}                                  \* [D7]
  ELSE {Rendered(p.name, ArgsOf(u, p.rest), IF u.close = "self" THEN "default" ELSE "body")}
E2E(f, R, u, W) ==
  IF u.word \notin LibTags(f, R) THEN {X("TemplateSyntaxError")}                     \* Invalid block tag [D7]
  ELSE UNION {IF p.k = "tse" THEN {X("TemplateSyntaxError")} ELSE After(f, R, u, p, W)
              : p \in Parse(f, <<u.word>> \o u.toks)}
\* the case is inside the argument grammar for every admitted parse
E2EArgsOK(f, u) ==
  /\ u.close = "self" => Len(u.toks) > 0 /\ u.toks[Len(u.toks)] = Slash
  /\ \A i \in 1..Len(u.toks) : u.toks[i] = Slash => i = Len(u.toks) /\ u.close = "self"
  /\ \A p \in Parse(f, <<u.word>> \o u.toks) : p.k = "ok" => ArgsOK(ArgsOf(u, p.rest))
\* The uses a formatter prescribes for component n with arguments ts
PrescribedUse(f, n, ts, close) ==
  LET pt == PrescribedToks(f, n, ts) IN
  [word |-> pt[1], toks |-> Tail(pt) \o (IF close = "self" THEN <<Slash>> ELSE <<>>),
   close |-> close, endw |-> IF close = "block" THEN EndTag(f, n) ELSE <<>>]
\* Reachability law: a registered component whose tags are valid is rendered by the
\* prescribed block and self-closing tags and receives exactly ts.
Reachable(f, R, n, ts, close, W) ==
  (/\ n \in R /\ RoundTripApplies(f, n, ts) /\ ArgsOK(ts)
   /\ \A m \in R : ValidTag(StartTag(f, m), W) /\ ValidTag(EndTag(f, m), W)
   /\ close \in {"self", "block"})
  => E2E(f, R, PrescribedUse(f, n, ts, close), W)
       = {Rendered(n, ts, IF close = "self" THEN "default" ELSE "body")}

(* ------------------------------ named deviations ----------------------- *)
\* What the code under test is known to do instead on specific shapes (KNOWN_FINDINGS.txt).
\* A deviation never makes a case pass; an observation that equals a deviation's prediction is
\* reported under its name (finding key), anything else as a plain violation.
NoDev == "none"
\* ComponentFormatter: the first token is a quoted string that contains "=" -> refused
DevEqName(f, toks) ==
  f.kind = "comp" /\ Len(toks) >= 2 /\ ~IsKw(toks[2]) /\ Quoted(toks[2]) /\ EqPos(toks[2]) > 0
DevParse(f, toks) ==
  IF DevEqName(f, toks) /\ Tse \notin Parse(f, toks)
  THEN [name |-> "comp-quoted-name-contains-equals:tse", out |-> Tse]
  ELSE [name |-> NoDev, out |-> Tse]
\* a tag that is valid up to one trailing "\n" is let through by the validation
DevNewline(t, W) == Len(t) >= 2 /\ t[Len(t)] = "\n" /\ ValidTag(Front(t), W)
DevTag(t, W) ==
  IF DevNewline(t, W) THEN [name |-> "tag-trailing-newline:accepted", out |-> TagOk(t)]
  ELSE [name |-> NoDev, out |-> TagOk(t)]
\* a start tag that contains ":" (a listed character), or that is exactly "..." (three listed
\* characters), is registered but cannot be used: the tag word is read as argument syntax
DevE2E(f, R, u, W) ==
  LET exp == E2E(f, R, u, W) IN
  IF X("TemplateSyntaxError") \in exp THEN [name |-> NoDev, out |-> X("")]
  ELSE IF DevEqName(f, <<u.word>> \o u.toks)
       THEN [name |-> "comp-quoted-name-contains-equals:tse", out |-> X("TemplateSyntaxError")]
  ELSE IF u.word \in LibTags(f, R) /\ \E i \in 1..Len(u.word) : u.word[i] = ":"
       THEN [name |-> "start-tag-contains-colon:tse", out |-> X("TemplateSyntaxError")]
  ELSE IF u.word \in LibTags(f, R) /\ u.word = <<".", ".", ".">>
       THEN [name |-> "start-tag-is-spread-token:tse", out |-> X("TemplateSyntaxError")]
  ELSE [name |-> NoDev, out |-> X("")]

(* ------------------------------ documented examples -------------------- *)
T(s) == Chars(s)
DocExamplesOK ==
  /\ Parse(CompF(T("component")), <<T("component"), T("\"my_comp\""), T("key=val"), T("key2=val2")>>)
       = {Ok(T("my_comp"), <<T("key=val"), T("key2=val2")>>)}                                   \* [D3]
  /\ Parse(CompF(T("component")), <<T("component"), T("\"button\""), T("href=\"...\""), T("disabled")>>)
       = {Ok(T("button"), <<T("href=\"...\""), T("disabled")>>)}
  /\ Parse(CompF(T("component")), <<T("component"), T("rows=rows"), T("headers=headers"), T("name=\"my_table\""), T("/")>>)
       = {Ok(T("my_table"), <<T("rows=rows"), T("headers=headers"), T("/")>>)}                  \* [D4]
  /\ Parse(ShortF, <<T("button"), T("href=\"...\""), T("disabled")>>)
       = {Ok(T("button"), <<T("href=\"...\""), T("disabled")>>)}                                \* [D5]
  /\ StartTag(CompF(T("component")), T("button")) = T("component")
  /\ EndTag(CompF(T("component")), T("button")) = T("endcomponent")                             \* [D1]
  /\ StartTag(ShortF, T("button")) = T("button") /\ EndTag(ShortF, T("button")) = T("endbutton") \* [D2]
  /\ IEnd(AffixF(<<>>, <<>>, <<"/">>, <<>>), T("MyComp"), {}) = TagOk(T("/MyComp"))             \* [D6] changelog
  /\ IStart(AffixF(<<>>, T(" comp"), End, <<>>), T("simple"), {}) = TagErr("ValueError")        \* multi-word
  /\ IStart(ShortF, <<>>, {}) = TagErr("ValueError")                                            \* empty
=============================================================================
