------------------------------ MODULE Trace_C09 ------------------------------
(***************************************************************************)
(* Trace validation (code -> spec) for C09.  IOEnv.IN names an ndjson      *)
(* file; every line is one recorded run of the real lexer:                 *)
(*                                                                         *)
(*   id      number of the trace                                           *)
(*   useids / ids / segs   the abstract source: atom ids (LexerAtoms) or   *)
(*           segment records in the format of Lexer.tla                    *)
(*   chars   the code points the harness actually fed to the code          *)
(*   ml      was tag_re DOTALL (COMPONENTS.multiline_tags) during the run  *)
(*   err     "" | "unterminated-tag" | "unterminated-string" | other       *)
(*   toks    the observed tokens [t, c, s, e, l]                           *)
(*   hastrail / trail   the observed passes of the hand-over loop          *)
(*           [idx, hb, bs, bl] (auxiliary channel; drift is not a verdict) *)
(*                                                                         *)
(* Verdict per trace (total - one line each):                              *)
(*   ACCEPT     explained by the specification (Tokens / oracle zone)      *)
(*   DEV D      explained only by LexerHandover with the named deviations  *)
(*              D switched on, and by no smaller set  (-> known finding)   *)
(*   REJECT cl  explained by neither; cl = failing clauses  (-> violation) *)
(*   MACHINERY  the harness is wrong (ill-formed source / other text)      *)
(***************************************************************************)
EXTENDS LexerAtoms, LexerHandover, TLC, Json, IOUtils

Traces == ndJsonDeserialize(IOEnv.IN)

VARIABLE tid

Case == Traces[tid]
CSrc == IF Case.useids THEN Src(Case.ids) ELSE Case.segs
Obs == [err |-> Case.err, toks |-> Case.toks]

\* what the specification determines for this source and setting
Determined(src, ml) == ~Zone(src) /\ (ml \/ ~InTagNL(src) \/ NoQuote(src))
Expected(src, ch, ml) == IF ml \/ ~InTagNL(src) THEN Tokens(src) ELSE StockTokens(ch, FALSE)

Diff(o, exp) ==
  {c \in {"error", "count", "type", "span", "contents", "lineno"} :
     LET n == IF Len(o.toks) < Len(exp) THEN Len(o.toks) ELSE Len(exp) IN
     CASE c = "error"    -> o.err # ""
       [] c = "count"    -> o.err = "" /\ Len(o.toks) # Len(exp)
       [] c = "type"     -> \E i \in 1..n : o.toks[i].t # exp[i].t
       [] c = "span"     -> \E i \in 1..n : o.toks[i].s # exp[i].s \/ o.toks[i].e # exp[i].e
       [] c = "contents" -> \E i \in 1..n : o.toks[i].c # exp[i].c
       [] c = "lineno"   -> \E i \in 1..n : o.toks[i].l # exp[i].l}

\* candidate deviation sets, smallest first
DevOrder ==
  LET d1 == "lineno-double-offset" d2 == "lineno-stripped-newlines"
      d3 == "verbatim-quoted-reset" d4 == "percent-swallows-closer" IN
  <<{d1}, {d2}, {d3}, {d4},
    {d1, d2}, {d1, d3}, {d1, d4}, {d2, d3}, {d2, d4}, {d3, d4},
    {d1, d2, d3}, {d1, d2, d4}, {d1, d3, d4}, {d2, d3, d4}, {d1, d2, d3, d4}>>

RECURSIVE FirstExplaining(_, _, _, _)
FirstExplaining(ch, ml, o, k) ==
  IF k > Len(DevOrder) THEN 0
  ELSE IF HOut(ch, DevOrder[k], ml) = o THEN k
  ELSE FirstExplaining(ch, ml, o, k + 1)

\* auxiliary: do the observed passes of the loop equal those of the model under deviation set D
\* (informational "drift", never a verdict; a larger deviation set may be needed to explain the
\* passes than to explain the tokens, e.g. when the run ends in an error)
TrailDrift(ch, ml, D) ==
  /\ Case.hastrail
  /\ HRun(ch, D, ml).trail # Case.trail
  /\ \A k \in 1..Len(DevOrder) : D \subseteq DevOrder[k] => HRun(ch, DevOrder[k], ml).trail # Case.trail

V(kind, devs, clauses, note) == [kind |-> kind, devs |-> devs, clauses |-> clauses, note |-> note]

Verdict ==
  LET src == CSrc
      ch == Case.chars
      ml == Case.ml
      o == Obs
  IN
  IF ~WellFormed(src) THEN V("MACHINERY", {}, {}, "ill-formed source")
  ELSE IF Flat(src) # ch THEN V("MACHINERY", {}, {}, "harness text differs from Flat(src)")
  ELSE IF ~Determined(src, ml)
       THEN IF o.err \in {"unterminated-tag", "unterminated-string"} THEN V("ACCEPT", {}, {}, "zone-error")
            ELSE IF o.err = "" /\ PartitionOK(ch, o.toks) THEN V("ACCEPT", {}, {}, "zone-partition")
            ELSE LET fcl == IF o.err # "" THEN {"error"} ELSE PartitionClauses(ch, o.toks)
                     k == FirstExplaining(ch, ml, o, 1) IN
                 \* not a faithful partition: a known deviation of the loop, or a violation
                 IF k # 0 THEN V("DEV", DevOrder[k], fcl, "zone") ELSE V("REJECT", {}, fcl, "zone")
  ELSE LET exp == Expected(src, ch, ml) IN
       IF o = [err |-> "", toks |-> exp]
       THEN V("ACCEPT", {}, {}, IF TrailDrift(ch, ml, {}) THEN "drift" ELSE "ok")
       ELSE LET k == FirstExplaining(ch, ml, o, 1) IN
            IF k # 0 THEN V("DEV", DevOrder[k], Diff(o, exp), IF TrailDrift(ch, ml, DevOrder[k]) THEN "drift" ELSE "ok")
            ELSE V("REJECT", {}, Diff(o, exp), "determined")

\* one line per trace, as a single string (TLC wraps long tuples):  V|id|kind|devs|clauses|note
RECURSIVE Join(_)
Join(S) == IF S = {} THEN "" ELSE LET x == CHOOSE y \in S : TRUE IN x \o "," \o Join(S \ {x})
Line(v) == "V|" \o ToString(Case.id) \o "|" \o v.kind \o "|" \o Join(v.devs) \o "|" \o Join(v.clauses) \o "|" \o v.note

TrInit == tid = 1
TrNext == tid <= Len(Traces) /\ PrintT(Line(Verdict)) /\ tid' = tid + 1
TrSpec == TrInit /\ [][TrNext]_tid
=============================================================================
