---------------------------- MODULE DepsInsertImpl ----------------------------
(***************************************************************************)
(* Layer B for C08: what dependencies.render_dependencies() *does*, step by *)
(* step, on texts.  A "text" is anything TLC can take Len, \o and SubSeq   *)
(* of: tuples of unit symbols in the bounded model (MC_C08), real strings   *)
(* in trace validation (Trace_C08).  `E` is the empty text of that kind.    *)
(*                                                                          *)
(*   1. COMPONENT_COMMENT_REGEX.sub   - markers harvested and removed       *)
(*   2. PLACEHOLDER_REGEX.sub         - placeholders replaced by the blocks *)
(*                                      (document) or by nothing (fragment) *)
(*   3. _insert_js_css_to_default_locations on the text after 1-2, for the  *)
(*      kinds that had no placeholder: scan for lower-case end tags, then   *)
(*      two insertions: CSS at the first </head>, index_offset = len(css),  *)
(*      JS at (last </body>) + index_offset.                                *)
(*   4. fragment: the JSON script is appended.                              *)
(*                                                                          *)
(* The deviations of the current tree from layer A are named switches; the  *)
(* parameter `fixes` is the set of deviations that have been repaired       *)
(* (current tree: {}).                                                      *)
(*   "offset"    Dev_JsOffsetShiftedWhenBodyEndPrecedesHeadEnd: index_offset *)
(*               is added to the JS index unconditionally ("we assume that  *)
(*               <head> is before <body>").  Repair: shift only when the    *)
(*               CSS went in before the JS position.                        *)
(*   "multiattr" Dev_PlaceholderWithSeveralIdAttrsNotRecognised:            *)
(*               PLACEHOLDER_REGEX allows at most one data-djc-id attribute; *)
(*               a "multi" placeholder is ordinary text for the code.       *)
(*   "nonutf8"   Dev_NonUtf8BytesRaise: step 3 decodes the bytes as UTF-8;  *)
(*               a body in another charset raises UnicodeDecodeError.       *)
(*   "blocktag"  Dev_EndTagInsideGeneratedBlockCounts: step 3 scans the     *)
(*               text *after* step 2, so a `</head>` inside the JS block    *)
(*               that replaced a JS placeholder (component JS such as       *)
(*               `frame.srcdoc = "<html><head></head>..."`) is taken for    *)
(*               the document's, and the CSS is inserted into the script    *)
(*               (symmetrically `</body>` inside the CSS block).            *)
(*                                                                          *)
(* blk = [css, js, frag: the generated blocks (texts),                      *)
(*        jsh: 0-based offsets of lower-case </head> tags inside js,         *)
(*        cssb: offsets of lower-case </body> tags inside css]               *)
(***************************************************************************)
EXTENDS DepsInsert

Devs == {"offset", "multiattr", "nonutf8", "blocktag"}

InsertAt(text, at, x) == SubSeq(text, 1, at) \o x \o SubSeq(text, at + 1, Len(text))

RECURSIVE CatTextN(_, _, _)
CatTextN(f, n, E) == IF n = 0 THEN E ELSE CatTextN(f, n - 1, E) \o f[n]

NoIndex == 0 - 1

\* the document as the code sees it: unrecognised placeholders are text
Seen(doc, fixes) ==
  [i \in DOMAIN doc |-> IF "multiattr" \notin fixes /\ doc[i].t \in {"cssph", "jsph"} /\ doc[i].v = "multi"
                        THEN Txt("unrecognised placeholder") ELSE doc[i]]
Sites(doc, kind) == {i \in DOMAIN doc : doc[i].t = kind}

\* doc0: segments; txt[i]: the text of segment i; blk: the generated blocks; E: the empty text
ImplOut(doc0, txt, blk, E, mode, fixes) ==
  LET doc == Seen(doc0, fixes)
      css == blk.css
      js  == blk.js
      sub == [i \in DOMAIN doc |->
                CASE doc[i].t = "marker" -> E
                  [] doc[i].t = "cssph"  -> IF mode = "document" THEN css ELSE E
                  [] doc[i].t = "jsph"   -> IF mode = "document" THEN js ELSE E
                  [] OTHER               -> txt[i]]
      html     == CatTextN(sub, Len(doc), E)
      off(i)   == Len(CatTextN(sub, i - 1, E))          \* 0-based index of segment i in html
      inBlocks == "blocktag" \notin fixes               \* end tags inside substituted blocks count
      \* the regex is case-sensitive
      heads    == {off(i) : i \in Ends(doc, "head", FALSE)}
                    \cup (IF inBlocks THEN {off(i) + o : i \in Sites(doc, "jsph"), o \in blk.jsh} ELSE {})
      bodies   == {off(i) : i \in Ends(doc, "body", FALSE)}
                    \cup (IF inBlocks THEN {off(i) + o : i \in Sites(doc, "cssph"), o \in blk.cssb} ELSE {})
      h == IF ~Has(doc, "cssph") /\ heads # {} THEN Min(heads) ELSE NoIndex
      b == IF ~Has(doc, "jsph") /\ bodies # {} THEN Max(bodies) ELSE NoIndex
      afterCss    == IF h # NoIndex THEN InsertAt(html, h, css) ELSE html
      indexOffset == IF h # NoIndex THEN Len(css) ELSE 0
      shift       == IF "offset" \in fixes /\ b < h THEN 0 ELSE indexOffset
      afterJs     == IF b # NoIndex THEN InsertAt(afterCss, b + shift, js) ELSE afterCss
  IN IF mode = "document" THEN afterJs ELSE html \o blk.frag

\* step 3 runs (and decodes the bytes) unless both kinds of placeholder were found
ImplDecodes(doc0, mode, fixes) ==
  LET doc == Seen(doc0, fixes) IN mode = "document" /\ ~(Has(doc, "cssph") /\ Has(doc, "jsph"))

\* The abstract result rendered as a text with the same concretisation.
Flat(doc, out, txt, blk, E) ==
  CatTextN([j \in DOMAIN out |->
              CASE out[j].k = "seg"  -> txt[out[j].i]
                [] out[j].k = "css"  -> blk.css
                [] out[j].k = "js"   -> blk.js
                [] out[j].k = "frag" -> blk.frag], Len(out), E)

(* ---- carried texts (layer A on texts) ----------------------------------- *)
\* x is a contiguous sub-text of text
Occurs(x, text) == \E p \in 0..(Len(text) - Len(x)) : SubSeq(text, p + 1, p + Len(x)) = x
\* the same with a hint where to look (0-based; negative = no hint: search)
OccursAt(x, text, at) == IF at >= 0 THEN at + Len(x) <= Len(text) /\ SubSeq(text, at + 1, at + Len(x)) = x
                         ELSE Occurs(x, text)
\* pay: the texts the components of the document contribute verbatim, [k: block kind, s: text, at: hint];
\* the ones of a kind in `kinds` that the block of that kind does not carry
NotCarried(blk, pay, kinds) ==
  {j \in DOMAIN pay : pay[j].k \in kinds /\ ~OccursAt(pay[j].s, blk[pay[j].k], pay[j].at)}

(* ---- shapes on which the deviations show -------------------------------- *)
\* document mode, no recognised placeholder of either kind, the last lower-case </body>
\* lies before the first lower-case </head>, CSS block not empty: the JS lands len(css)
\* characters to the right of the </body>, displacing document text (or inside the CSS
\* block that was just inserted).
DevOffsetShape(doc0, mode, blk, E, fixes) ==
  LET doc == Seen(doc0, fixes) IN
  /\ mode = "document" /\ ~Has(doc, "cssph") /\ ~Has(doc, "jsph")
  /\ Ends(doc, "head", FALSE) # {} /\ Ends(doc, "body", FALSE) # {}
  /\ Max(Ends(doc, "body", FALSE)) < Min(Ends(doc, "head", FALSE))
  /\ blk.css # E
DevMultiShape(doc) == \E i \in DOMAIN doc : doc[i].t \in {"cssph", "jsph"} /\ doc[i].v = "multi"
\* document mode; exactly one kind of placeholder is recognised, the block put there contains an
\* end tag of the *other* kind's default location, and that tag wins the first-/last- search.
DevBlockTagShape(doc0, mode, blk, E, fixes) ==
  LET doc == Seen(doc0, fixes)
      hs == Ends(doc, "head", FALSE)
      bs == Ends(doc, "body", FALSE) IN
  /\ mode = "document"
  /\ \/ /\ ~Has(doc, "cssph") /\ Has(doc, "jsph") /\ blk.jsh # {} /\ blk.css # E
        /\ hs # {} => Min(Sites(doc, "jsph")) < Min(hs)
     \/ /\ ~Has(doc, "jsph") /\ Has(doc, "cssph") /\ blk.cssb # {} /\ blk.js # E
        /\ bs # {} => Max(Sites(doc, "cssph")) > Max(bs)
=============================================================================
