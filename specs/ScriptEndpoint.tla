--------------------------- MODULE ScriptEndpoint ---------------------------
(***************************************************************************)
(* C19 - what a render announces, the endpoint serves.                     *)
(*                                                                         *)
(* Component classes 1..N; class c carries inline JS and/or CSS (or none)  *)
(* and optionally JS/CSS *variables* (get_js_data / get_css_data), which   *)
(* give one extra "vars" script per kind.  A script is named by an entry   *)
(* <<class, kind, which>>, which \in {"main","vars"}.                      *)
(*                                                                         *)
(* `cache` is the set of entries the endpoint MUST serve: a render caches  *)
(* every script of every rendered class *before* it emits the URLs; only a *)
(* cache clear (eviction) or a redefinition of the class ends the          *)
(* obligation.  For an entry outside `cache` the property does not fix the *)
(* answer (404, or the class's code if the implementation happens to have  *)
(* it) - the specification admits a set.                                   *)
(*                                                                         *)
(* `ver[c]` counts definitions of class c under the same import path       *)
(* (module reload / redeploy with a persistent cache): the code a class    *)
(* serves is the code of its *current* definition.                         *)
(* `held` are pages pre-rendered with render_dependencies=False whose HTML *)
(* (with its <!-- _RENDERED --> markers) is post-processed later.          *)
(* `kept` is bookkeeping for one named deviation only (see MC/Trace).      *)
(*                                                                         *)
(* `url` is the *URL configuration* that is active in the process: the     *)
(* script prefix (WSGI SCRIPT_NAME / django.urls.set_script_prefix) and    *)
(* the URLconf (ROOT_URLCONF, or a per-request request.urlconf /           *)
(* set_urlconf) with the place where it includes django_components.urls.   *)
(* It is an opaque value: two different values address the endpoint under  *)
(* different paths.  It CHANGES between renders of one process (SetUrl): a *)
(* process reachable under two mount points, multi-tenant URLconfs.  A URL *)
(* is *addressed to* one configuration; `eloc` is the configuration the    *)
(* URLs of the last emitting action are addressed to.  The property: what  *)
(* a render emits is served by a request made under the configuration that *)
(* was active at that render - so eloc must be that configuration.  A path *)
(* addressed to another configuration than the active one is not a path of *)
(* the endpoint (outside the mount point / no such route): 404.            *)
(***************************************************************************)
EXTENDS Naturals, Sequences, FiniteSets

Kinds == {"js", "css"}
Methods == {"GET", "POST", "PUT", "DELETE", "HEAD"}
\* content types that match a kind
CT == [js |-> {"text/javascript", "application/javascript"}, css |-> {"text/css"}]

Range(s) == {s[i] : i \in 1..Len(s)}

(* ---- static structure: conf is a sequence of [js, css, vars : BOOLEAN] -- *)
Has(conf, c, k) == IF k = "js" THEN conf[c].js ELSE conf[c].css
KindsOf(conf, c) == {k \in Kinds : Has(conf, c, k)}
EntriesOfClass(conf, c) ==
  {<<c, k, "main">> : k \in KindsOf(conf, c)} \cup
  (IF conf[c].vars THEN {<<c, k, "vars">> : k \in KindsOf(conf, c)} ELSE {})
Need(conf, page) == UNION {EntriesOfClass(conf, c) : c \in page}
AllEntries(conf) == Need(conf, 1..Len(conf))

(* ---- responses ---------------------------------------------------------- *)
NoResp     == [st |-> 0,   c |-> 0, k |-> "", i |-> "", v |-> 0]
NotFound   == [st |-> 404, c |-> 0, k |-> "", i |-> "", v |-> 0]
NotAllowed == [st |-> 405, c |-> 0, k |-> "", i |-> "", v |-> 0]
Served(e, v) == [st |-> 200, c |-> e[1], k |-> e[2], i |-> e[3], v |-> v]

(* A request: c = class whose hash is used (0: a hash of no class), k = the  *)
(* script kind as written in the path (anything), i = "none" (no input hash),*)
(* "vars" (the valid input hash of that class and kind) or anything else,    *)
(* m = method.                                                               *)
Shaped(conf, r) == r.c \in 1..Len(conf) /\ r.k \in Kinds /\ r.i \in {"none", "vars"}
EntryOf(r) == <<r.c, r.k, IF r.i = "none" THEN "main" ELSE "vars">>
Exists(conf, r) == Shaped(conf, r) /\ EntryOf(r) \in EntriesOfClass(conf, r.c)

(* The set of answers the property admits.                                   *)
Adm(conf, cch, vr, r) ==
  IF r.m # "GET"
  THEN (IF Exists(conf, r) THEN {NotAllowed} ELSE {NotAllowed, NotFound})
  ELSE IF ~Exists(conf, r) THEN {NotFound}
  ELSE IF EntryOf(r) \in cch THEN {Served(EntryOf(r), vr[r.c])}
  ELSE {NotFound} \cup {Served(EntryOf(r), v) : v \in 1..vr[r.c]}

GetReq(e) == [c |-> e[1], k |-> e[2], i |-> IF e[3] = "main" THEN "none" ELSE "vars", m |-> "GET"]

(* Requests that also say which URL configuration their path is addressed to *)
(* (r.at), made while configuration u is active.                            *)
AdmAt(conf, cch, vr, u, r) == IF r.at # u THEN {NotFound} ELSE Adm(conf, cch, vr, r)

(* ---- the machine --------------------------------------------------------- *)
VARIABLES conf, cache, ver, held, kept, emitted, resp, url, eloc
seVars == <<conf, cache, ver, held, kept, emitted, resp, url, eloc>>

\* script prefix "/" and ROOT_URLCONF = django_components.urls (components/ at the root)
DefaultUrl == "none/root"
\* every action but SetUrl: the configuration stays; what is emitted is addressed to it
UrlKeep == url' = url /\ eloc' = url

\* what an implementation that never overwrites an existing cache entry would hold
KeepAdd(kp, need, vr) ==
  kp \cup {<<e, vr[e[1]]>> : e \in {x \in need : ~\E p \in kp : p[1] = x}}

SEInit(cf) == /\ conf = cf /\ cache = {} /\ ver = [c \in 1..Len(cf) |-> 1]
              /\ held = {} /\ kept = {} /\ emitted = {} /\ resp = NoResp
              /\ url = DefaultUrl /\ eloc = DefaultUrl

\* Render a page (a set of classes) in document or fragment mode, dependencies included.
Render(page, mode) ==
  /\ cache' = cache \cup Need(conf, page)
  /\ kept' = KeepAdd(kept, Need(conf, page), ver)
  /\ emitted' = Need(conf, page)
  /\ resp' = NoResp
  /\ UNCHANGED <<conf, ver, held>>
  /\ UrlKeep

\* Render a page with render_dependencies=False and keep the HTML.
Prerender(page) ==
  /\ cache' = cache \cup Need(conf, page)
  /\ kept' = KeepAdd(kept, Need(conf, page), ver)
  /\ held' = held \cup {page}
  /\ emitted' = {} /\ resp' = NoResp
  /\ UNCHANGED <<conf, ver>>
  /\ UrlKeep

\* render_dependencies() on kept HTML.  If an eviction happened in between, the call may
\* either fail (nothing is emitted) or make the scripts available again - but whatever it
\* emits must be served.
FinishOk(page, mode) ==
  /\ page \in held
  /\ cache' = cache \cup Need(conf, page)
  /\ kept' = KeepAdd(kept, Need(conf, page), ver)
  /\ emitted' = Need(conf, page)
  /\ resp' = NoResp
  /\ UNCHANGED <<conf, ver, held>>
  /\ UrlKeep

FinishFail(page, mode) ==
  /\ page \in held
  /\ ~(Need(conf, page) \subseteq cache)
  /\ emitted' = {} /\ resp' = NoResp
  /\ UNCHANGED <<conf, cache, ver, held, kept>>
  /\ UrlKeep

ClearCache ==
  /\ cache' = {} /\ kept' = {} /\ emitted' = {} /\ resp' = NoResp
  /\ UNCHANGED <<conf, ver, held>>
  /\ UrlKeep

\* A new class object with the same import path (hence the same hash and URL) and new code.
Redefine(c) ==
  /\ ver' = [ver EXCEPT ![c] = @ + 1]
  /\ cache' = {e \in cache : e[1] # c}
  /\ held' = {p \in held : c \notin p}
  /\ emitted' = {} /\ resp' = NoResp
  /\ UNCHANGED <<conf, kept>>
  /\ UrlKeep

\* The active URL configuration changes (another script prefix and / or another URLconf).
\* Nothing that must be served stops being served under its own configuration.
SetUrl(u) ==
  /\ url' = u /\ eloc' = u
  /\ emitted' = {} /\ resp' = NoResp
  /\ UNCHANGED <<conf, cache, ver, held, kept>>

Get(r) ==
  /\ resp' \in Adm(conf, cache, ver, r)
  /\ UNCHANGED <<conf, cache, ver, held, kept, emitted>>
  /\ UrlKeep

(* ---- properties ----------------------------------------------------------- *)
\* every URL the last render emitted is one the endpoint must serve ...
\* ... addressed to the configuration that is active (no SetUrl since that render)
EmittedAreServed == emitted \subseteq cache /\ (emitted # {} => eloc = url)
\* ... and "must serve" determines one answer: 200 with that class's current code
MustServeDetermined ==
  \A e \in cache : Adm(conf, cache, ver, GetReq(e)) = {Served(e, ver[e[1]])}
\* never a server error, never another component's code, whatever is asked
AnswersSane(reqs) ==
  \A r \in reqs : \A a \in Adm(conf, cache, ver, r) :
     /\ a.st \in {200, 404, 405}
     /\ a.st = 200 => /\ r.m = "GET" /\ a.c = r.c /\ a.k = r.k
                      /\ a.v \in 1..ver[r.c] /\ Has(conf, r.c, r.k)
     /\ (r.m # "GET" => a.st \in {404, 405})
     /\ (~Exists(conf, r) => a.st # 200)
\* a render re-establishes the obligation whatever preceded it (clears, other renders)
RenderRecaches == [][emitted' # {} => emitted' \subseteq cache' /\ eloc' = url']_seVars
\* only a clear or a redefinition ends an obligation
OnlyClearDrops == [][cache \subseteq cache' \/ cache' = {} \/ ver' # ver]_seVars
=============================================================================
