------------------------------- MODULE Finder -------------------------------
(***************************************************************************)
(* What ComponentsFileSystemFinder promises (C17).                         *)
(*                                                                         *)
(* A file is identified by its path relative to the component directory,   *)
(* a string such as "sub/c.tar.gz" (TLC strings are character sequences:   *)
(* Len, SubSeq and \o work on them, so "ends with" is literal).            *)
(* A configuration holds up to three optional pattern lists:               *)
(*   a  = COMPONENTS.static_files_allowed                                  *)
(*   f  = COMPONENTS.static_files_forbidden                                *)
(*   fo = COMPONENTS.forbidden_static_files   (deprecated name of f)       *)
(* each [set |-> BOOLEAN, pats |-> sequence of patterns]; an unset list    *)
(* means the documented default.  A pattern is a suffix string or one of a  *)
(* small catalogue of compiled regular expressions, each given here by its *)
(* predicate (the harness holds the re.Pattern of the same id and          *)
(* calibrates the two against each other).                                 *)
(* A suffix string is matched as given: the file "ends with" it, literally.*)
(* The usual entry is an extension with its leading dot (".js"), but the   *)
(* property speaks of suffixes: "_test.js", "min.js", "LICENSE" (a whole   *)
(* file name) are suffixes too, and a string entry is never rewritten      *)
(* (no dot is added or removed, no case folding): "js" matches the files   *)
(* "js" and "nodejs", ".js" matches neither; "min.js" matches "admin.js",  *)
(* ".min.js" does not.  See SuffixInScope for the strings that are used.   *)
(*                                                                         *)
(*   Exposed(p, c) == some allowed pattern matches p                       *)
(*                    /\ no forbidden pattern matches p                    *)
(*                                                                         *)
(* The second half of the module models lookup paths (find(path)): parts   *)
(* with "." and "..", relative to the component root or absolute, inside   *)
(* a sandbox  S/r0 (component root), S/r0x (look-alike sibling),           *)
(* S/outside.js.  Resolve normalises a lookup; only lookups that resolve   *)
(* to an exposed file under the root may be answered (NoEscape).           *)
(*                                                                         *)
(* The last part names the known deviation of the implementation (suffix   *)
(* strings are interpolated into a regular expression, rf"\{p}$"), so that *)
(* a failing case can be classified as that known finding or as a new      *)
(* violation.  The deviation never influences the expected value.          *)
(***************************************************************************)
EXTENDS Integers, Sequences, FiniteSets

(* ---- strings ---------------------------------------------------------- *)
Ch(s, i) == SubSeq(s, i, i)
EndsWith(n, s) == Len(s) <= Len(n) /\ SubSeq(n, Len(n) - Len(s) + 1, Len(n)) = s
StartsWith(n, s) == Len(s) <= Len(n) /\ SubSeq(n, 1, Len(s)) = s
Contains(n, s) == \E i \in 1..(Len(n) - Len(s) + 1) : SubSeq(n, i, i + Len(s) - 1) = s
Range(q) == {q[i] : i \in DOMAIN q}
Upper == {"A","B","C","D","E","F","G","H","I","J","K","L","M","N","O","P","Q","R","S","T","U","V","W","X","Y","Z"}
\* index of the first character of the base name (the part after the last "/")
BaseStart(n) == IF \E i \in 1..Len(n) : Ch(n, i) = "/"
                THEN 1 + CHOOSE i \in 1..Len(n) : Ch(n, i) = "/" /\ \A j \in (i+1)..Len(n) : Ch(n, j) # "/"
                ELSE 1
Base(n) == SubSeq(n, BaseStart(n), Len(n))

(* ---- patterns --------------------------------------------------------- *)
Sfx(s) == [k |-> "suffix", s |-> s]
Rx(id) == [k |-> "regex", s |-> id]

\* The catalogue of compiled regexes (Python source in vf/c17.py REGEXES, same ids).
RegexIds == {"any", "js_dollar", "min_asset", "upper_ext", "test_part", "vendor_dir",
             "hidden", "py_anycase", "no_ext"}
RegexPred(id, n) ==
  CASE id = "any"        -> TRUE                                        \* .*
    [] id = "js_dollar"  -> EndsWith(n, ".js") \/ EndsWith(n, ".js\n")  \* \.js$   ($ also matches before a final newline)
    [] id = "min_asset"  -> EndsWith(n, ".min.js") \/ EndsWith(n, ".min.css")   \* \.min\.(js|css)\Z
    [] id = "upper_ext"  -> \E i \in 1..(Len(n) - 1) :                   \* \.[A-Z]+\Z
                               /\ Ch(n, i) = "."
                               /\ \A j \in (i+1)..Len(n) : Ch(n, j) \in Upper
    [] id = "test_part"  -> StartsWith(n, "test_") \/ Contains(n, "/test_")      \* (^|/)test_
    [] id = "vendor_dir" -> StartsWith(n, "vendor/") \/ Contains(n, "/vendor/")  \* (^|/)vendor/
    [] id = "hidden"     -> StartsWith(Base(n), ".")                              \* (^|/)\.[^/]*\Z
    [] id = "py_anycase" -> /\ Len(n) >= 3                                        \* (?i)\.py\Z
                            /\ Ch(n, Len(n) - 2) = "."
                            /\ Ch(n, Len(n) - 1) \in {"p", "P"}
                            /\ Ch(n, Len(n)) \in {"y", "Y"}
    [] id = "no_ext"     -> Len(Base(n)) > 0 /\ ~Contains(Base(n), ".")           \* (^|/)[^./]+\Z

Matches(p, n) == IF p.k = "suffix" THEN EndsWith(n, p.s) ELSE RegexPred(p.s, n)
\* A suffix without "/" never reaches across a directory separator: whether "the name" of the
\* property is the base name, the path relative to the component directory (what list() sees) or
\* the absolute path (what find() sees) makes no difference (theorem, checked by TLC on every case).
BaseNameSuffices(p, n) == p.k = "suffix" => (Matches(p, n) <=> EndsWith(Base(n), p.s))
\* What rewriting a plain suffix into an "extension" would change: prepending a dot only ever loses
\* matches, exactly the names where the suffix is not preceded by a dot (or is the whole name).
Dotted(p) == IF p.k = "suffix" /\ ~StartsWith(p.s, ".") THEN Sfx("." \o p.s) ELSE p
DotPrependNarrows(p, n) == Matches(Dotted(p), n) => Matches(p, n)
TellsDotted(p, n) == Matches(p, n) /\ ~Matches(Dotted(p), n)

(* ---- configurations --------------------------------------------------- *)
Unset == [set |-> FALSE, pats |-> <<>>]
Lst(q) == [set |-> TRUE, pats |-> q]
Cfg(a, f, fo) == [a |-> a, f |-> f, fo |-> fo]

DefaultAllowedS == <<".css", ".js", ".jsx", ".ts", ".tsx",
                     ".apng", ".png", ".avif", ".gif", ".jpg", ".jpeg", ".jfif", ".pjpeg", ".pjp", ".svg",
                     ".webp", ".bmp", ".ico", ".cur", ".tif", ".tiff",
                     ".eot", ".ttf", ".woff", ".otf", ".svg">>
DefaultForbiddenS == <<".html", ".django", ".dj", ".tpl", ".py", ".pyc">>
DefaultAllowed == {Sfx(DefaultAllowedS[i]) : i \in DOMAIN DefaultAllowedS}
DefaultForbidden == {Sfx(DefaultForbiddenS[i]) : i \in DOMAIN DefaultForbiddenS}

EffAllowed(c) == IF c.a.set THEN Range(c.a.pats) ELSE DefaultAllowed
\* the generator never sets f and fo together (which one wins is not documented)
EffForbidden(c) == IF c.f.set THEN Range(c.f.pats)
                   ELSE IF c.fo.set THEN Range(c.fo.pats) ELSE DefaultForbidden
WellFormedCfg(c) == ~(c.f.set /\ c.fo.set)

Exposed(n, c) == /\ \E p \in EffAllowed(c) : Matches(p, n)
                 /\ ~ \E p \in EffForbidden(c) : Matches(p, n)

\* "With default settings no Python or template file is ever exposed": whenever the forbidden
\* list is left at its default, whatever the allowed list says.
IsBackendFile(n) == \E i \in DOMAIN DefaultForbiddenS : EndsWith(n, DefaultForbiddenS[i])
DefaultsHideBackend(n, c) == (~c.f.set /\ ~c.fo.set /\ IsBackendFile(n)) => ~Exposed(n, c)
ForbidWins(n, c) == (\E p \in EffForbidden(c) : Matches(p, n)) => ~Exposed(n, c)
EmptyAllowedHidesAll(n, c) == (c.a.set /\ c.a.pats = <<>>) => ~Exposed(n, c)

(* ---- lookup paths ------------------------------------------------------ *)
\* Sandbox S: parts are relative to S.  The component directory is S/r0.
RootParts == <<"r0">>
RECURSIVE JoinParts(_)
JoinParts(ps) == IF ps = <<>> THEN ""
                 ELSE IF Len(ps) = 1 THEN ps[1]
                 ELSE ps[1] \o "/" \o JoinParts(Tail(ps))

Lookup(abs, parts) == [abs |-> abs, parts |-> parts]
Above == <<"<above-sandbox>">>
RECURSIVE NormR(_, _)
NormR(parts, stack) ==
  IF parts = <<>> THEN stack
  ELSE LET h == Head(parts) IN
       IF h = "." \/ h = "" THEN NormR(Tail(parts), stack)
       ELSE IF h = ".."
            THEN IF stack = <<>> THEN Above
                 ELSE NormR(Tail(parts), SubSeq(stack, 1, Len(stack) - 1))
            ELSE NormR(Tail(parts), Append(stack, h))
\* a relative lookup is joined to the component root, an absolute one is taken from S
Norm(l) == NormR(IF l.abs THEN l.parts ELSE RootParts \o l.parts, <<>>)
Inside(l) == LET s == Norm(l) IN
             /\ Len(s) > Len(RootParts)
             /\ SubSeq(s, 1, Len(RootParts)) = RootParts
RelOf(l) == LET s == Norm(l) IN JoinParts(SubSeq(s, Len(RootParts) + 1, Len(s)))
Canonical(l) == ~l.abs /\ \A i \in DOMAIN l.parts : l.parts[i] \notin {".", "..", ""}

\* What find(lookup) may answer, given the set `tree` of existing files (relative path strings):
\*   "hide"  - must not be answered (None, [] or SuspiciousFileOperation)
\*   "find"  - must return the file RelOf(l) (canonical relative path of an exposed file)
\*   "may"   - a non-canonical spelling of an exposed file under the root: the property does not
\*             say whether such spellings are served; if answered it must be with RelOf(l)
ExpectOn(l, tree, exposedThere) ==
  IF Inside(l) /\ RelOf(l) \in tree /\ exposedThere
  THEN IF Canonical(l) THEN "find" ELSE "may"
  ELSE "hide"
Expect(l, tree, c) == ExpectOn(l, tree, Inside(l) /\ Exposed(RelOf(l), c))
\* does an observed answer (got in {"miss", "sfo", "hit", ...}, rel = path of the returned file
\* relative to the root) comply with an expectation
Complies(expect, l, got, rel) ==
  CASE expect = "hide" -> got \in {"miss", "sfo"}
    [] expect = "find" -> got = "hit" /\ rel = RelOf(l)
    [] expect = "may"  -> got \in {"miss", "sfo"} \/ (got = "hit" /\ rel = RelOf(l))
\* NoEscape: whatever may be answered lies under the component directory and is exposed.
NoEscape(l, tree, c) == Expect(l, tree, c) # "hide" => Inside(l) /\ Exposed(RelOf(l), c)

(* ---- the known deviation: suffix interpolated into a regex ------------- *)
\* The implementation turns a suffix s into re.compile("\\" + s + "$"): the first character is
\* escaped, the others keep their regex meaning, and "$" also matches before a final newline.
\* Modelled for suffixes whose characters after the first are literals, "." (any character but
\* newline) and at most a trailing "++" (possessive repetition of the preceding literal).
\* The deviation is modelled for suffixes with a leading dot only (an escaped "." is a literal dot; an
\* escaped letter is a character class or an error).  A suffix without leading dot has no deviation
\* model: DevSuffixMatch = EndsWith, no key, every difference is a plain violation.
OpChars == {"+", "*", "?", "(", ")", "[", "]", "{", "}", "|", "^", "$", "\\"}
HasOp(s) == \E i \in 1..Len(s) : Ch(s, i) \in OpChars
PlusPlus(s) == /\ Len(s) >= 4 /\ EndsWith(s, "++") /\ ~HasOp(SubSeq(s, 1, Len(s) - 2))
               /\ Ch(s, Len(s) - 2) # "."
DevModelled(s) == Len(s) >= 1 /\ (~HasOp(s) \/ PlusPlus(s))
WildEnds(n, s) ==   \* n ends with s, inner dots of s being wildcards
  /\ Len(s) <= Len(n)
  /\ \A i \in 1..Len(s) :
       LET c == Ch(s, i)
           d == Ch(n, Len(n) - Len(s) + i) IN
       c = d \/ (i > 1 /\ c = "." /\ d # "\n")
WildEndsPP(n, s) == \* s = B ++ "++": n ends with B minus its last char, then that char once or more
  LET B == SubSeq(s, 1, Len(s) - 2)
      c == Ch(B, Len(B))
      pre == SubSeq(B, 1, Len(B) - 1) IN
  \E k \in 1..Len(n) :
     /\ \A j \in (Len(n) - k + 1)..Len(n) : Ch(n, j) = c
     /\ WildEnds(SubSeq(n, 1, Len(n) - k), pre)
WildEndsAny(n, s) == IF PlusPlus(s) THEN WildEndsPP(n, s) ELSE WildEnds(n, s)
DevSuffixMatch(n, s) ==
  IF ~StartsWith(s, ".") THEN EndsWith(n, s) ELSE
  \/ WildEndsAny(n, s)
  \/ EndsWith(n, "\n") /\ WildEndsAny(SubSeq(n, 1, Len(n) - 1), s)
\* The suffix strings the generators use: non-empty (whether "" is a suffix of everything is left out),
\* no "/" (see BaseNameSuffices) and no newline; with a leading dot they stay inside the deviation
\* model, without one any other character is allowed (regex metacharacters are literal).
SuffixInScope(s) == /\ Len(s) >= 1 /\ ~Contains(s, "/") /\ ~Contains(s, "\n")
                    /\ (StartsWith(s, ".") => DevModelled(s))
DevMatches(p, n) == IF p.k = "suffix" THEN DevSuffixMatch(n, p.s) ELSE RegexPred(p.s, n)
DevExposed(n, c) == /\ \E p \in EffAllowed(c) : DevMatches(p, n)
                    /\ ~ \E p \in EffForbidden(c) : DevMatches(p, n)
\* which input class makes pattern p behave differently on n
DevClass(p, n) ==
  IF HasOp(p.s) THEN "suffix-regex-operator"
  ELSE IF EndsWith(n, "\n") /\ EndsWith(SubSeq(n, 1, Len(n) - 1), p.s) THEN "suffix-trailing-newline"
  ELSE "suffix-inner-dot"
DevKeys(n, c) == {DevClass(p, n) : p \in {q \in EffAllowed(c) \cup EffForbidden(c) :
                                             q.k = "suffix" /\ Matches(q, n) # DevMatches(q, n)}}
DevExpect(l, tree, c) == ExpectOn(l, tree, Inside(l) /\ DevExposed(RelOf(l), c))
=============================================================================
