------------------------------ MODULE Trace_X04 ------------------------------
(***************************************************************************)
(* Trace validation (code -> spec) for the HTTP surface.  IOEnv.IN names an *)
(* ndjson file; every line is one recorded session on a real "site": real   *)
(* Component classes mounted with as_view() in a real URLconf, plain views   *)
(* returning responses of every kind, served by django's BaseHandler (sync   *)
(* or async) with a recorded MIDDLEWARE stack made of                        *)
(* ComponentDependencyMiddleware and CommonMiddleware in any order, with a   *)
(* recording tap between the layers.                                         *)
(*   trace = [id, assets (components with js/css), comps (per component:     *)
(*            vd, cd, names, child, on), events]                             *)
(*   event = [op "view": c, m, kw, ans (observed answer of the dispatch),    *)
(*            seen (what the handler saw) | op "page",                       *)
(*            r0 (projected response of the view),                           *)
(*            pipe: sequence of [layer, r (projection after the layer),      *)
(*                               same (body bytes identical to before)]]     *)
(* The walk follows HttpSurface: the answer must be Answer(..), the view's   *)
(* response must be what render_to_response promises, and every layer of the *)
(* pipe must be a step of the pipeline machine (Apply).  A step / answer     *)
(* that is exactly what a NAMED deviation predicts is printed as DEV (the    *)
(* harness maps it to a finding key), anything else is REJECT.  Verdicts     *)
(* are total: one ACCEPT/REJECT line per trace.                              *)
(***************************************************************************)
EXTENDS HttpSurface, TLC, Json, IOUtils

Traces == ndJsonDeserialize(IOEnv.IN)

VARIABLES tid, l, j, phase
trVars == <<init, resp, depth, last, pre, seenCdm, tid, l, j, phase>>

T == Traces[tid]
Events == T.events
Ev == Events[l]
Assets == Range(T.assets)
NCs == Len(T.comps)

Blank == [kind |-> "http", ct |-> "none", st |-> 0, hk |-> TRUE, cl |-> "absent",
          body |-> [shape |-> "text", txt |-> TRUE, marks |-> <<>>, css |-> <<>>, js |-> <<>>, core |-> 0]]

Reset == /\ init' = Blank /\ resp' = Blank /\ depth' = 0 /\ last' = "view" /\ pre' = Blank /\ seenCdm' = FALSE

TrInit == /\ init = Blank /\ resp = Blank /\ depth = 0 /\ last = "view" /\ pre = Blank /\ seenCdm = FALSE
          /\ tid = 1 /\ l = 1 /\ j = 0 /\ phase = "ans"

NextTrace == tid' = tid + 1 /\ l' = 1 /\ j' = 0 /\ phase' = "ans" /\ Reset

(* ---- the answer of the dispatch ------------------------------------------- *)
Comp(e) == T.comps[e.c]
Vd(e) == Range(Comp(e).vd)
Cd(e) == Range(Comp(e).cd)
Names(e) == Range(Comp(e).names)
ObsAns(e) == [res |-> e.ans.res, st |-> e.ans.st, who |-> e.ans.who, h |-> e.ans.h, allow |-> Range(e.ans.allow)]
Want(e) == Answer(Vd(e), Cd(e), Names(e), e.m)
Dev(e)  == DevAnswer(Vd(e), Cd(e), Names(e), e.m)
IsDevAns(e) == ObsAns(e) # Want(e) /\ DevKey(Vd(e), Cd(e), Names(e), e.m) # "" /\ ObsAns(e) = Dev(e)

\* what render_to_response of component c (whose template is a whole document that also renders
\* component `child`, 0 = none) must hand to the stack: a processed document, no markers, the
\* assets of exactly the rendered classes, each once (R1, R3)
Used(e) == {e.c} \cup (IF Comp(e).child = 0 THEN {} ELSE {Comp(e).child})
OnceFor(e) == [c \in 1..NCs |-> IF c \in Used(e) /\ c \in Assets THEN 1 ELSE 0]
RtrResp(e) == [kind |-> "http", ct |-> DefaultCT, st |-> 200, hk |-> TRUE, cl |-> "absent",
               body |-> [shape |-> "doc", txt |-> TRUE, marks |-> <<>>, css |-> OnceFor(e), js |-> OnceFor(e),
                         core |-> 1]]

FailingAns(e) ==
  IF e.op # "view" THEN {}
  ELSE {c \in {"answer", "seen", "view_response", "status"} :
     CASE c = "answer" -> ObsAns(e) # Want(e) /\ ~IsDevAns(e)
       [] c = "seen"   -> ObsAns(e).res = "handled" /\ ObsAns(e) = Want(e) /\ e.seen # Seen(e.m, e.kw, Comp(e).on)
       [] c = "view_response" -> ObsAns(e).res = "handled" /\ ObsAns(e) = Want(e) /\ e.r0 # RtrResp(e)
       [] c = "status" -> ObsAns(e).res \in {"405", "options"} /\ (e.r0.st # ObsAns(e).st \/ e.r0.body.marks # <<>>)}

StartEvent ==
  /\ tid <= Len(Traces) /\ phase = "ans" /\ l <= Len(Events)
  /\ IF FailingAns(Ev) = {}
     THEN /\ (IF Ev.op = "view" /\ IsDevAns(Ev)
              THEN PrintT(<<"DEV", T.id, l, DevKey(Vd(Ev), Cd(Ev), Names(Ev), Ev.m)>>) ELSE TRUE)
          /\ init' = Ev.r0 /\ resp' = Ev.r0 /\ pre' = Ev.r0 /\ depth' = 0 /\ last' = "view" /\ seenCdm' = FALSE
          /\ j' = 1 /\ phase' = "pipe" /\ UNCHANGED <<tid, l>>
     ELSE /\ PrintT(<<"REJECT", T.id, l, FailingAns(Ev)>>)
          /\ NextTrace

(* ---- one layer of the pipe: a step of the pipeline machine ---------------- *)
S == Ev.pipe[j]
Explains(o, s) == o.r = s.r /\ (o.ident => s.same)
Admitted(s) == \E o \in LayerOutcomes(s.layer, resp, Assets) : Explains(o, s)
Deviates(s) == \E o \in DevLayerOutcomes(s.layer, resp, Assets) : Explains(o, s)

PipeStep ==
  /\ tid <= Len(Traces) /\ phase = "pipe" /\ j <= Len(Ev.pipe)
  /\ IF Admitted(S) \/ Deviates(S)
     THEN /\ (IF ~Admitted(S) THEN PrintT(<<"DEV", T.id, l, DevClKey>>) ELSE TRUE)
          \* after a recorded deviation the tap repairs the header, as the specification would have it
          /\ resp' = (IF Admitted(S) THEN S.r ELSE [S.r EXCEPT !.cl = "ok"])
          /\ pre' = resp /\ last' = S.layer /\ depth' = depth + 1 /\ seenCdm' = (seenCdm \/ S.layer = "cdm")
          /\ j' = j + 1 /\ UNCHANGED <<init, tid, l, phase>>
     ELSE /\ PrintT(<<"REJECT", T.id, l, {"layer_" \o S.layer}>>)
          /\ NextTrace

EndEvent ==
  /\ tid <= Len(Traces) /\ phase = "pipe" /\ j > Len(Ev.pipe)
  /\ l' = l + 1 /\ j' = 0 /\ phase' = "ans" /\ Reset /\ UNCHANGED tid

Done == /\ tid <= Len(Traces) /\ phase = "ans" /\ l > Len(Events)
        /\ PrintT(<<"ACCEPT", T.id>>)
        /\ NextTrace

TrNext == StartEvent \/ PipeStep \/ EndEvent \/ Done
TrSpec == TrInit /\ [][TrNext]_trVars

(* ---- the machine's invariants must hold along every recorded pipeline ------ *)
InPipe == tid <= Len(Traces) /\ phase = "pipe"
TrKept == InPipe => (StatusAndHeadersKept /\ TextKept /\ OtherUntouched)
TrContentLength == InPipe => resp.cl # "stale"
TrNoMarkers == InPipe => NoMarkersAfterCdm
=============================================================================
