------------------------------- MODULE MC_C16 -------------------------------
(***************************************************************************)
(* Bounded instances of MediaInherit.                                      *)
(*  - AddClass builds every hierarchy of <= MaxN classes from the chosen   *)
(*    catalogues; Export writes each one as a JSON line together with what *)
(*    MediaInherit expects for its last class (spec -> code replay; the    *)
(*    earlier classes are on the lines of the prefixes).                   *)
(*  - With MaxAcc > 0 the Access actions of the memo machine run on every  *)
(*    hierarchy in every order; OrderIndependent / MemoSound / MemoClosed  *)
(*    are checked, and ImplRefines compares the implementation-shaped      *)
(*    model (MediaInheritImpl) with the abstract one.                      *)
(***************************************************************************)
EXTENDS MediaInheritImpl, Json, IOUtils

CONSTANTS MaxN,        \* classes per hierarchy
          MaxBases,    \* bases per class (1 or 2)
          MaxAcc,      \* accesses per behaviour (0: build and export only)
          Lists,       \* catalogue of own Media contents [js, all, print]
          Attrs,       \* catalogue of [template, js, css] kinds
          Kinds,       \* subset of {"none", "null", "def"}
          Exts,        \* subset of {"true", "false", "list"}
          RelFiles,    \* sequence of component-relative file ids
          AccAttrs,    \* what the machine may access: subset of {"media", "template", "js", "css"}
          AccVias,     \* subset of {"cls", "inst"}
          ImplD,       \* the deviation set ImplRefines is evaluated for
          Trim,        \* TRUE: drop near-duplicate choices (quick tier), see Trimmed
          Plains       \* TRUE: also build plain (non-Component) mixin classes with a nested Media

VARIABLES nacc, ist          \* number of accesses made; state of the implementation-shaped model
mcVars == <<kase, memo, ret, nacc, ist>>

L0 == [js |-> <<>>, all |-> <<>>, print |-> <<>>]
A0 == [template |-> "none", js |-> "none", css |-> "none"]

(* ---- catalogues (selected in the cfg with <-) ------------------------------- *)
\* one class choice exercises three independent channels (js, css/all, css/print) at once
ListsQuick == {L0,
               [js |-> <<1>>,    all |-> <<1>>,    print |-> <<>>],
               [js |-> <<1, 2>>, all |-> <<2, 1>>, print |-> <<1>>],
               [js |-> <<2>>,    all |-> <<1, 3>>, print |-> <<2>>]}
ListsThorough == ListsQuick \cup
              {[js |-> <<2, 1>>, all |-> <<3>>,    print |-> <<1, 2>>]}
ListsTiny == {L0, [js |-> <<1, 2>>, all |-> <<2>>, print |-> <<>>]}
\* marker: instead of a fixed catalogue, class number i declares its own file i and the shared
\* file 1 (four-class hierarchies: results must tell the classes apart)
ListsPos == {[js |-> <<0>>, all |-> <<0>>, print |-> <<0>>]}
ListsRel == {[js |-> <<1>>, all |-> <<>>, print |-> <<>>],
             [js |-> <<2, 1>>, all |-> <<1>>, print |-> <<>>]}
ListsNone == {L0}
AttrsNone == {A0}
AttrsAll == {A0,
             [template |-> "inline", js |-> "none",   css |-> "file"],
             [template |-> "file",   js |-> "inline", css |-> "none"],
             [template |-> "none",   js |-> "file",   css |-> "inline"],
             [template |-> "inline", js |-> "inline", css |-> "inline"],
             [template |-> "none",   js |-> "both",   css |-> "none"],
             [template |-> "both",   js |-> "none",   css |-> "inline"]}
AttrsFew == {A0, [template |-> "none", js |-> "inline", css |-> "none"],
                 [template |-> "inline", js |-> "none", css |-> "file"]}
\* blank definitions (empty string / whitespace only / empty file) at every level of a hierarchy, beside
\* ordinary ones they override or are overridden by, and a blank member beside the other member (rejected)
AttrsBlank == {A0,
               [template |-> "inline",       js |-> "inline",       css |-> "file"],
               [template |-> "none",         js |-> "inline-empty", css |-> "inline-ws"],
               [template |-> "inline-ws",    js |-> "inline-ws",    css |-> "file-empty"],
               [template |-> "file-empty",   js |-> "file-ws",      css |-> "inline-empty"],
               [template |-> "none",         js |-> "both-empty",   css |-> "none"]}
AttrsBlankFew == {A0,
                  [template |-> "inline", js |-> "inline",       css |-> "inline"],
                  [template |-> "none",   js |-> "inline-empty", css |-> "inline-ws"]}
KindsAll == {"none", "null", "def"}
KindsBasic == {"none", "def"}
KindsNone == {"none"}
ExtsAll == {"true", "false", "list"}
ExtsTF == {"true", "false"}
NoRel == <<>>
Rel1 == <<1>>
AccAll == {"media"} \cup Pairs
AccMedia == {"media"}
AccMediaJs == {"media", "js"}
AccRender == Pairs \cup {"render"}
ViasBoth == Vias
ViasCls == {"cls"}
NoDevs == {}
AllDevs == Devs
DevInherit == {"inherit"}
DevFlatten == {"flatten"}
DevLazy == {"lazy"}

(* ---- building hierarchies ---------------------------------------------------- *)
SeqsOver(n, k) == {<<>>} \cup {<<j>> : j \in 1..n} \cup
                  (IF k >= 2 THEN {<<i, j>> : i, j \in {x \in 1..n : TRUE}} \ {<<i, i>> : i \in 1..n} ELSE {})
BaseChoices(n) == SeqsOver(n, MaxBases)
ExtChoices(n) == {[ext |-> e, extl |-> <<>>] : e \in Exts \ {"list"}} \cup
                 (IF "list" \in Exts THEN {[ext |-> "list", extl |-> l] : l \in SeqsOver(n, 2) \ {<<>>}} ELSE {})

ListsFor(n) == IF Lists = ListsPos
               THEN {[js |-> <<n + 1>>, all |-> <<n + 1, 1>>, print |-> <<1>>]}
               ELSE Lists

ExtChoicesAll(n) == ExtChoices(n) \cup (IF "list" \in Exts /\ ~Trim THEN {[ext |-> "list", extl |-> <<>>]} ELSE {})

CompCands(n) ==
  {[plain |-> FALSE, bases |-> b, media |-> k, lists |-> L0, ext |-> "true", extl |-> <<>>, attr |-> a] :
      b \in BaseChoices(n), k \in Kinds \ {"def"}, a \in Attrs} \cup
  (IF "def" \in Kinds
   THEN {[plain |-> FALSE, bases |-> b, media |-> "def", lists |-> l, ext |-> e.ext, extl |-> e.extl, attr |-> a] :
           b \in BaseChoices(n), l \in ListsFor(n), e \in ExtChoicesAll(n), a \in Attrs}
   ELSE {})
\* a mixin: only plain bases, no assets
Cands(n) ==
  CompCands(n) \cup
  (IF Plains
   THEN {[r EXCEPT !.plain = TRUE] :
           r \in {x \in CompCands(n) : x.attr = A0 /\ \A i \in 1..Len(x.bases) : kase.cls[x.bases[i]].plain}}
   ELSE {})

\* Quick-tier reduction of the catalogue: a class without listed bases gets extend = False with
\* one Media content only (True / False select the same bases there), and of the two orders of
\* a two-class extend list only the descending one is kept.
Trimmed(r) ==
  Trim => /\ (r.bases = <<>> /\ r.ext = "false" /\ Lists # ListsPos) =>
               r.lists = (CHOOSE l \in Lists : l # L0 /\ \A m \in Lists \ {L0} : Len(l.js) >= Len(m.js))
          /\ (r.ext = "list" /\ Len(r.extl) = 2) => r.extl[1] > r.extl[2]

MCInit == /\ kase = [cls |-> <<>>, rel |-> RelFiles]
          /\ memo = <<>> /\ ret = NoRet /\ nacc = 0 /\ ist = ImplInit

AddClass == /\ N(kase) < MaxN /\ nacc = 0 /\ Valid(kase)
            /\ \E r \in Cands(N(kase)) : Trimmed(r) /\ kase' = [kase EXCEPT !.cls = Append(@, r)]
            /\ UNCHANGED <<memo, ret, nacc, ist>>

MCAccess == /\ nacc < MaxAcc /\ N(kase) >= 1 /\ Valid(kase)
            /\ \E c \in Accessible(kase), via \in AccVias, a \in AccAttrs :
                  IF a = "media" THEN AccessMedia(c, via)
                  ELSE IF a = "render" THEN AccessRender(c, via) ELSE AccessAttr(c, a, via)
            /\ nacc' = nacc + 1
            /\ ist' = ImplStep(kase, ImplD, ist, ret'.c, ret'.a)

MCNext == AddClass \/ MCAccess
MCSpec == MCInit /\ [][MCNext]_mcVars

(* ---- layer B against layer A -------------------------------------------------- *)
\* what the implementation-shaped model returns for the access just made satisfies the
\* abstract specification (must hold for ImplD = {}; TLC finds the design-level
\* counterexamples for the named deviations when ImplD contains them)
ImplRefines ==
  (ret # NoRet /\ ret.a = "media") =>
     \A t \in Types : MediaOK(ImplMedia(kase, ist, ret.c)[t], kase, ret.c, t)

\* a deviation changes the set of files only on its named shape
ImplSets(K, D, c) ==
  LET st == ImplFill(K, D, [memo |-> <<>>, resolved |-> 1..N(K)], c) IN
  [t \in Types |-> Range(ImplMedia(K, st, c)[t])]
InheritOnlyOnShape ==
  \A c \in Accessible(kase) \ {0} : (nacc = 0 /\ Valid(kase) /\ ImplSets(kase, {"inherit"}, c) # MediaVal(kase, c)) => InheritShape(kase, c)

\* the pairwise flattened merge contradicts the specification only on its named shape
ImplLists(K, D, c) ==
  LET st == ImplFill(K, D, [memo |-> <<>>, resolved |-> 1..N(K)], c) IN ImplMedia(K, st, c)
FlattenOnlyOnShape ==
  \A c \in Accessible(kase) \ {0}, t \in Types :
     (nacc = 0 /\ Valid(kase) /\ ~MediaOK(ImplLists(kase, {"flatten"}, c)[t], kase, c, t)) => FlattenShape(kase, c, t)

(* ---- export -------------------------------------------------------------------- *)
\* one line per hierarchy: the classes, and what MediaInherit expects for the LAST class (the
\* expectations for the earlier classes are on the lines of the prefixes, which are exported too)
ExpClass(K, c) ==
  LET mro  == Mro(K, c)
      cons == [t \in Types |-> Consistent(K, c, t)] IN
  [create |-> CreationIn(mro, K, c),
   files  |-> [t \in Types |-> Files(K, c, t)],
   cons   |-> cons,
   prec   |-> [t \in Types |-> IF cons[t] THEN Prec(K, c, t) ELSE {}],
   mro    |-> mro.seq,
   attr   |-> [p \in Pairs |-> Value(AttrIn(mro.seq, K, p))],
   \* rendered tags: is a render determined (a template is defined), does the document carry markers at all
   \* (the template text is not blank), and whose template / script / style it carries
   render |-> LET a == [p \in Pairs |-> AttrIn(mro.seq, K, p)] IN
              [determined |-> a["template"].src # 0, document |-> Content(a["template"].kind) = "text",
               template |-> Shipped(a["template"]), js |-> Shipped(a["js"]), css |-> Shipped(a["css"])]]

Export ==
  \/ N(kase) = 0 \/ nacc > 0
  \/ Serialize(ToJson([cls |-> kase.cls, rel |-> kase.rel, last |-> ExpClass(kase, N(kase))]) \o "\n",
               IOEnv.OUT, [format |-> "TXT", charset |-> "UTF-8",
                           openOptions |-> <<"WRITE", "CREATE", "APPEND">>]).exitValue = 0
=============================================================================
