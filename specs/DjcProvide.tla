----------------------------- MODULE DjcProvide -----------------------------
(***************************************************************************)
(* Implementation-shaped model (layer B) of the provide / inject reference *)
(* counting in django_components/perfutil/provide.py (C05, C06):           *)
(*   cache  ~ provide_cache       (provide id -> data; here: set of ids)   *)
(*   refs   ~ provide_references  (provide id -> set of referrer ids)      *)
(*   allIds ~ all_reference_ids                                            *)
(* One action per critical section of the code: managed_provide_cache      *)
(* enter / exit / error exit, register_provide_reference (with its         *)
(* `if not provide_cache: return` shortcut), inject,                       *)
(* unregister_provide_reference (each a critical section under the module  *)
(* lock), and the error-path cleanup of component.py.  The order of the calls is the one the     *)
(* deferred renderer produces: a consumer's get_context_data (register +   *)
(* inject) runs when its tag is reached; outside any component ("page") it *)
(* then renders to completion at once (with its children), inside a host    *)
(* component it completes after the provider body, in document order.       *)
(* A scenario is chosen nondeterministically: 1..N consumers in the body,   *)
(* each a leaf or a "mid" with an injecting child, at most one of them      *)
(* failing in get_context_data.                                             *)
(*                                                                         *)
(* SelfRef = TRUE models the current code (the provider references its own *)
(* data while its body renders); with SelfRef = FALSE (the code before the *)
(* fix recorded in KNOWN_FINDINGS.txt) TLC finds the counterexample        *)
(* Level = "page", two consumers: InjectSound is violated.                 *)
(*                                                                         *)
(* Lazy default content (host level only): a slot of the host's template   *)
(* sits inside the provider; the fill it receives uses `{{ default }}`      *)
(* inside the body of a component ("lazy" consumer) that is NOT registered  *)
(* to the provider (isolated mode: its context is the fill's lexical one).  *)
(* That body is rendered when the lazy consumer's deferred render runs -    *)
(* after {% endprovide %} - and creates a component under the context       *)
(* captured inside the provider body, which registers to P and injects.     *)
(* OwnerRef = TRUE models the current code (the component whose template    *)
(* contains {% provide %} references the data until it is completely        *)
(* rendered); with OwnerRef = FALSE (the code before the second recorded    *)
(* fix) TLC refutes InjectSound / RefsWellFormed with one lazy consumer.    *)
(***************************************************************************)
EXTENDS Naturals, Sequences, FiniteSets

CONSTANTS N, Level, SelfRef, OwnerRef, AllowFail

P == <<"p", 0>>                           \* the provider's id
Cid(i) == <<"c", i>>                   \* consumer i
Gid(i) == <<"g", i>>                   \* its injecting child
H == <<"h", 0>>                        \* the host component whose template contains the provider

VARIABLES cache, refs, allIds,         \* the three registries
          pc,                          \* "start" | "body" | "exited" | "done" | "raised"
          before,                      \* all_reference_ids.copy() taken at provider entry
          next,                        \* index of the next consumer tag in the body
          shape,                       \* shapes chosen so far: sequence of "leaf" | "mid"
          pending,                     \* consumers whose completion is deferred (host level)
          injects,                     \* history: <<who, found>> for every inject() call
          failed
vars == <<cache, refs, allIds, pc, before, next, shape, pending, injects, failed>>

Init == /\ cache = {} /\ refs = <<>> /\ allIds = {} /\ pc = "start" /\ before = {}
        /\ next = 1 /\ shape = <<>> /\ pending = <<>> /\ injects = <<>> /\ failed = FALSE

\* ---- the library's functions as state transformers -------------------------
St(c, r, a) == [cache |-> c, refs |-> r, allIds |-> a]
Cur == St(cache, refs, allIds)

\* register_provide_reference(context, id): the context holds the key of provider P
Register(s, id) ==
  IF s.cache = {} THEN s                                         \* `if not provide_cache: return`
  ELSE St(s.cache,
          IF P \in DOMAIN s.refs THEN [s.refs EXCEPT ![P] = @ \cup {id}]
          ELSE [q \in DOMAIN s.refs \cup {P} |-> IF q = P THEN {id} ELSE s.refs[q]],
          s.allIds \cup {id})

\* unregister_provide_reference(id)
Unregister(s, id) ==
  IF id \notin s.allIds THEN s
  ELSE LET r1 == [q \in DOMAIN s.refs |-> s.refs[q] \ {id}]
           dead == {q \in DOMAIN r1 : id \in s.refs[q] /\ r1[q] = {}} IN
       St(s.cache \ dead, [q \in DOMAIN r1 \ dead |-> r1[q]], s.allIds \ {id})

RECURSIVE UnregisterAll(_, _)
UnregisterAll(s, ids) ==
  IF ids = {} THEN s ELSE LET id == CHOOSE x \in ids : TRUE IN UnregisterAll(Unregister(s, id), ids \ {id})

\* cache_cleanup() of managed_provide_cache
Cleanup(s) ==
  IF P \in DOMAIN s.refs /\ s.refs[P] = {} THEN St(s.cache \ {P}, [q \in DOMAIN s.refs \ {P} |-> s.refs[q]], s.allIds)
  ELSE IF P \notin DOMAIN s.refs /\ P \in s.cache THEN St(s.cache \ {P}, s.refs, s.allIds)
  ELSE s

Becomes(s) == cache' = s.cache /\ refs' = s.refs /\ allIds' = s.allIds
Inject(s, who) == <<who, P \in s.cache>>                          \* provide_cache[cache_key]

\* a consumer (and, for a "mid", its child) renders to completion
Complete(s, i, sh) ==
  IF sh = "leaf" THEN [s |-> Unregister(s, Cid(i)), inj |-> <<>>]
  ELSE LET s1 == Register(s, Gid(i))        \* "mid": child tag in the consumer's template; "lazy": {{ default }}
           s2 == Unregister(s1, Gid(i)) IN
       [s |-> Unregister(s2, Cid(i)), inj |-> << Inject(s1, Gid(i)) >>]

\* ---- actions ------------------------------------------------------------------
\* {% provide %}: set_provided_context_var + managed_provide_cache entry
ProvideEnter ==
  /\ pc = "start" /\ pc' = "body"
  /\ before' = allIds
  /\ LET s0 == St(cache \cup {P}, refs, allIds)
         s1 == IF SelfRef
               THEN St(s0.cache, [q \in DOMAIN s0.refs \cup {P} |-> IF q = P THEN {P} ELSE s0.refs[q]],
                       s0.allIds \cup {P})
               ELSE s0 IN
     \* ProvideNode.render: register_provide_reference(context, <id of the enclosing component>)
     Becomes(IF OwnerRef /\ Level = "host" THEN Register(s1, H) ELSE s1)
  /\ UNCHANGED <<next, shape, pending, injects, failed>>

\* a {% component %} tag in the provider body: _render_impl up to get_context_data
ConsumerTag(sh, fails) ==
  /\ pc = "body" /\ next <= N
  /\ (sh = "lazy" => Level = "host" /\ ~fails)
  /\ LET i == next
         \* a lazy consumer's context does not hold P's key: it only enters all_reference_ids
         s1 == IF sh = "lazy" THEN St(cache, refs, allIds \cup {Cid(i)}) ELSE Register(Cur, Cid(i))
         inj == Inject(s1, Cid(i)) IN
     IF fails
     THEN \* get_context_data raises: the exception leaves the provider body
          /\ failed' = TRUE /\ pc' = "raised"
          /\ injects' = Append(injects, inj)
          /\ LET s2 == Unregister(s1, Cid(i))                            \* _cleanup_failed_render of the failing component
                 s3 == Cleanup(IF SelfRef THEN Unregister(s2, P) ELSE s2)  \* `finally` of managed_provide_cache
                 \* the host (render root) releases the components that will never be rendered
                 s4 == UnregisterAll(s3, {Cid(pending[j]) : j \in 1..Len(pending)} \cup {H}) IN
             Becomes(s4)
          /\ UNCHANGED <<next, shape, pending, before>>
     ELSE IF Level = "page"
     THEN LET c == Complete(s1, i, sh) IN
          /\ Becomes(c.s) /\ injects' = Append(injects, inj) \o c.inj
          /\ next' = next + 1 /\ shape' = Append(shape, sh)
          /\ UNCHANGED <<pc, pending, before, failed>>
     ELSE /\ Becomes(s1) /\ injects' = (IF sh = "lazy" THEN injects ELSE Append(injects, inj))
          /\ next' = next + 1 /\ shape' = Append(shape, sh) /\ pending' = Append(pending, i)
          /\ UNCHANGED <<pc, before, failed>>

\* {% endprovide %} reached without an exception
ProvideExit ==
  /\ pc = "body" /\ next > 1 /\ pc' = "exited"
  /\ Becomes(Cleanup(IF SelfRef THEN Unregister(Cur, P) ELSE Cur))
  /\ UNCHANGED <<before, next, shape, pending, injects, failed>>

\* the host's queue renders the deferred consumers, in document order
DeferredComplete ==
  /\ pc = "exited" /\ pending # <<>>
  /\ LET i == Head(pending)
         c == Complete(Cur, i, shape[i]) IN
     /\ Becomes(c.s) /\ injects' = injects \o c.inj /\ pending' = Tail(pending)
  /\ UNCHANGED <<pc, before, next, shape, failed>>

\* (the host itself is rendered completely: on_component_rendered -> unregister_provide_reference(host))
Finish == /\ pc = "exited" /\ pending = <<>> /\ pc' = "done"
          /\ Becomes(IF Level = "host" THEN Unregister(Cur, H) ELSE Cur)
          /\ UNCHANGED <<before, next, shape, pending, injects, failed>>

Next == \/ ProvideEnter
        \/ \E sh \in {"leaf", "mid", "lazy"} : ConsumerTag(sh, FALSE)
        \/ (AllowFail /\ \E sh \in {"leaf"} : ConsumerTag(sh, TRUE))
        \/ ProvideExit \/ DeferredComplete \/ Finish

Spec == Init /\ [][Next]_vars

\* ---- properties -----------------------------------------------------------------
\* C05: whenever a consumer inside the provider calls inject(), the provided data is there.
InjectSound == \A k \in 1..Len(injects) : injects[k][2]
\* C05/C06: when the render is over - normally or by an exception raised in the body before
\* anything was deferred - nothing is left in the registries.
Quiescent == (pc = "done" \/ (pc = "raised" /\ pending = <<>>)) => cache = {} /\ refs = <<>> /\ allIds = {}
\* The entry is deleted only when no consumer that still has to run can need it.
EntryDeletedOnlyWhenDone ==
  [][(P \in cache /\ P \notin cache') => (pc' \in {"exited", "done", "raised"} \/ pc \in {"exited"})]_vars
RefsWellFormed == \A q \in DOMAIN refs : q \in cache /\ refs[q] \subseteq allIds
=============================================================================
