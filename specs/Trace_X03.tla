------------------------------ MODULE Trace_X03 ------------------------------
(***************************************************************************)
(* Trace validation (code -> spec) for the resolution of COMPONENTS.       *)
(* IOEnv.IN names an ndjson file; every line is one recorded history on    *)
(* the real django_components.app_settings.app_settings object, driven     *)
(* through django.test.override_settings / direct mutation of              *)
(* django.conf.settings:                                                   *)
(*   set / unset / reform / drop / setbase / load   the Settings action of *)
(*             that name was applied to django.conf.settings (load = the   *)
(*             whole COMPONENTS value replaced: an override block left)    *)
(*   read      obs = what the accessor e.k returned (typed value; an       *)
(*             exception is [t |-> "error", s |-> class name])             *)
(*   regread   obs = <k> of ComponentRegistry(settings=RegistrySettings(    *)
(*             <k>=e.v, <K>=e.w)).settings  (Absent = omitted)             *)
(*   compdirs  obs = get_component_dirs(include_apps=e.inc) as a typed     *)
(*             value [t |-> "dirs", l |-> the paths] (or the error)        *)
(*   startup   a start-up of the app (AppConfig.ready() on pristine Django  *)
(*             template internals, empty registry, no template cache)      *)
(*             under the current settings: dyn = names under which the     *)
(*             dynamic component is registered, ml = "yes" iff             *)
(*             "{{ x <newline> }}" rendered as a variable ("no" = as text), *)
(*             stock = tag_re left untouched,                              *)
(*             n / cached = templates compiled / held, fresh = context     *)
(*             behaviour of a registry without own context_behavior,       *)
(*             watch = "yes" iff sending Django's file_changed signal for  *)
(*             a file below the directory wtarget triggered a reload,      *)
(*             autod = "yes" iff a python file kept in [app]/<d>, d in     *)
(*             probedirs, was imported, loaded = modules of the library    *)
(*             pool imported, failed = class of the exception raised       *)
(* Every observation must lie in the set Settings admits.  An observation  *)
(* outside it that equals what the named deviation predicts is reported    *)
(* as "dev:<class>".  One REJECT line per failing event, ACCEPT for a      *)
(* trace without any.                                                      *)
(***************************************************************************)
EXTENDS Settings, TLC, Json, IOUtils

Traces == ndJsonDeserialize(IOEnv.IN)

VARIABLES tid, l, phase, clean
trVars == <<user, form, base, ret, tid, l, phase, clean>>

Events == Traces[tid].events
\* the world of get_component_dirs (the same for every trace of a batch)
FS == {Traces[1].fs[i] : i \in DOMAIN Traces[1].fs}
Apps == {Traces[1].apps[i] : i \in DOMAIN Traces[1].apps}
ProbeDirs == {Traces[1].probedirs[i] : i \in DOMAIN Traces[1].probedirs}
Ev == Events[l]

TrInit == /\ tid = 1 /\ l = 1 /\ phase = "step" /\ clean = TRUE
          /\ user = Empty /\ form = "none" /\ ret = {}
          /\ base = IF Len(Traces) >= 1 THEN Traces[1].base ELSE ""

NextTrace == /\ tid' = tid + 1 /\ l' = 1 /\ phase' = "step" /\ clean' = TRUE
             /\ user' = Empty /\ form' = "none" /\ ret' = {}
             /\ base' = IF tid < Len(Traces) THEN Traces[tid + 1].base ELSE base

\* user settings from a list of [k, v] pairs (keys distinct)
FromGiven(g) == [k \in Keys |-> IF \E i \in DOMAIN g : g[i].k = k
                                THEN g[CHOOSE i \in DOMAIN g : g[i].k = k].v ELSE Absent]

\* the generator must respect the enabling conditions of the specification's actions
Pre(e) ==
  CASE e.op = "set"     -> e.k \in Keys /\ e.v.t \notin {"absent", "error", "unbounded"}
                           /\ (e.v.t = "none" => e.k \in NoneAllowed)
    [] e.op = "unset"   -> e.k \in Keys /\ Given(user, e.k)
    [] e.op = "reform"  -> e.s \in Forms /\ e.s # form /\ WellFormed(user, e.s)
    [] e.op = "setbase" -> e.s # base
    [] e.op = "load"    -> e.s \in Forms /\ WellFormed(FromGiven(e.given), e.s)
                           /\ \A i \in DOMAIN e.given : e.given[i].k \in Keys /\ e.given[i].v.t # "absent"
    [] e.op = "read"    -> e.k \in Accessors
    [] e.op = "regread" -> e.k \in RegKeys
    [] e.op \in {"drop", "startup", "compdirs"} -> TRUE
    [] OTHER -> FALSE

SpecAction(e) ==
  CASE e.op = "set"     -> Set(e.k, e.v)
    [] e.op = "unset"   -> Unset(e.k)
    [] e.op = "reform"  -> Reform(e.s)
    [] e.op = "drop"    -> Drop
    [] e.op = "setbase" -> SetBase(e.s)
    [] e.op = "load"    -> Load(FromGiven(e.given), e.s)
    [] e.op = "read"    -> Read(e.k)
    [] e.op = "regread" -> RegRead(e.k, e.v, e.w)
    [] e.op = "compdirs" -> CompDirs(FS, Apps, e.inc)
    [] e.op = "startup" -> UNCHANGED <<user, form, base, ret>>

Step == /\ tid <= Len(Traces) /\ phase = "step" /\ l <= Len(Events)
        /\ IF Pre(Ev)
           THEN SpecAction(Ev) /\ phase' = "cmp" /\ UNCHANGED <<tid, l, clean>>
           ELSE PrintT(<<"REJECT", Traces[tid].id, l, {"bad_case"}>>) /\ NextTrace

Dev(k) == {"dev:" \o k}

ReadFailing(e) ==
  IF e.obs \in ret THEN {}
  ELSE IF DevKey(user, form, e.k) # "" /\ e.obs \in DevAdm(user, form, base, e.k)
       THEN Dev(DevKey(user, form, e.k))
       ELSE {"read_" \o e.k}

\* a set of directories is compared as a set
SameResult(x, o) == x.t = o.t /\ x.s = o.s /\ ItemsOf(x) = ItemsOf(o)
DirsFailing(e) ==
  IF \E x \in ret : SameResult(x, e.obs) /\ Len(e.obs.l) = Cardinality(ItemsOf(e.obs)) THEN {}
  ELSE IF /\ DevDirsKey(user, form, base, FS) # ""
          /\ \E x \in DevComponentDirs(user, form, base, FS, Apps, e.inc) : SameResult(x, e.obs)
       THEN Dev(DevDirsKey(user, form, base, FS))
       ELSE {"component_dirs"}

RegFailing(e) == IF e.obs \in ret THEN {} ELSE {"regread_" \o e.k}

\* ---- start-up ---------------------------------------------------------------
MayFail == \/ \E k \in Accessors : \E x \in Adm(user, form, base, k) : x.t = "error"
           \/ DirsMayFail(user, form, base)
StartupFailing(e) ==
  IF e.failed # "" THEN (IF MayFail /\ e.failed = "ValueError" THEN {} ELSE {"startup_failed"})
  ELSE
  LET names == {e.dyn[i] : i \in DOMAIN e.dyn}
      dynOK == Len(e.dyn) = 1 /\ S(e.dyn[1]) \in DynamicNames(user, form, base)
      mlOK == \E m \in Multiline(user, form, base) : e.ml = (IF m.b THEN "yes" ELSE "no") /\ (~m.b => e.stock)
      want == CachedAfter(user, form, base, e.n)
      devwant == {CachedAfterOne(e.n, bd) : bd \in DevAdm(user, form, base, "template_cache_size")}
      dk == DevKey(user, form, "template_cache_size")
      freshOK == e.fresh \in FreshRegistryBehavior(user, form, base)
      watchOK == B(e.watch = "yes") \in ReloadsOnChangeIn(user, form, base, FS, Apps, e.wtarget)
      autodOK == B(e.autod = "yes") \in AutodiscoverImports(user, form, base, ProbeDirs)
      libsOK == \E x \in LibrariesLoaded(user, form, base) :
                   {x.l[i] : i \in DOMAIN x.l} = {e.loaded[i] : i \in DOMAIN e.loaded} IN
  (IF dynOK THEN {} ELSE {"startup_dynamic_name"})
  \cup (IF mlOK THEN {} ELSE {"startup_multiline"})
  \cup (IF e.cached \in want THEN {}
        ELSE IF dk # "" /\ e.cached \in devwant THEN Dev(dk) ELSE {"startup_cache_bound"})
  \cup (IF freshOK THEN {} ELSE {"startup_fresh_registry"})
  \cup (IF watchOK THEN {}
        ELSE IF DevReloadKey(user, form, base, FS, Apps, e.wtarget) # "" /\ e.watch = "no"
             THEN Dev(DevReloadKey(user, form, base, FS, Apps, e.wtarget)) ELSE {"startup_reload_watch"})
  \cup (IF autodOK THEN {} ELSE {"startup_autodiscover"})
  \cup (IF libsOK THEN {} ELSE {"startup_libraries"})

Failing(e) ==
  CASE e.op = "read"    -> ReadFailing(e)
    [] e.op = "regread" -> RegFailing(e)
    [] e.op = "compdirs" -> DirsFailing(e)
    [] e.op = "startup" -> StartupFailing(e)
    [] OTHER -> {}

Cmp == /\ tid <= Len(Traces) /\ phase = "cmp"
       /\ LET f == Failing(Ev) IN
          /\ f # {} => PrintT(<<"REJECT", Traces[tid].id, l, f>>)
          /\ clean' = (clean /\ f = {})
       /\ l' = l + 1 /\ phase' = "step" /\ UNCHANGED <<tid, user, form, base, ret>>

Done == /\ tid <= Len(Traces) /\ phase = "step" /\ l > Len(Events)
        /\ clean => PrintT(<<"ACCEPT", Traces[tid].id>>)
        /\ NextTrace

TrNext == Step \/ Cmp \/ Done
TrSpec == TrInit /\ [][TrNext]_trVars

\* the theorems of Settings on every settings state a trace went through (checked right after a change)
TraceTheorems == (tid <= Len(Traces) /\ phase = "cmp"
                  /\ Ev.op \in {"set", "unset", "reform", "drop", "setbase", "load"}) =>
   /\ WellFormed(user, form) /\ DirsTheorems(FS, Apps)
   /\ DefaultsWhenEmpty /\ FormIndependent /\ DeterminedUnlessAmbiguous /\ GivenWins
   /\ EmptyIsAValue /\ ContextBehaviorClosed /\ AliasEquivalent
=============================================================================
