------------------------------ MODULE HttpSurface ------------------------------
(***************************************************************************)
(* X04 - the HTTP surface of django-components: components as views         *)
(* (Component.as_view / Component.View / render_to_response) and            *)
(* ComponentDependencyMiddleware.  Written from the documentation only.      *)
(*                                                                           *)
(* Sentences relied upon (docs/concepts/fundamentals/components_as_views.md):*)
(*  V1 "Components define the Component.as_view() class method that can be   *)
(*      used the same as View.as_view()."                                    *)
(*  V2 "By default, you can define GET, POST or other HTTP handlers directly *)
(*      on the Component, same as you do with View."                         *)
(*  V3 "Component.as_view() is a shorthand for calling View.as_view() and    *)
(*      passing the component instance as one of the arguments."             *)
(*  V4 "the request is still handled by Component.View.get() or              *)
(*      Component.View.post() ... by default, Component.View.get() points to *)
(*      Component.get(), and so on."  "If you were to overwrite the          *)
(*      View.post() method, then Component.post() would be ignored."         *)
(*  Django (ref/class-based-views/base, the View that V1/V2 point to):       *)
(*  J1 dispatch(): "GET will be delegated to get(), a POST to post(), and so *)
(*      on. By default, a HEAD request will be delegated to get()."          *)
(*  J2 http_method_not_allowed(): "If the view was called with an HTTP       *)
(*      method it doesn't support, this method is called instead" -> 405     *)
(*      (HttpResponseNotAllowed, Allow = the permitted methods).             *)
(*  J3 options(): "Returns a response with the Allow header containing a     *)
(*      list of the view's allowed HTTP method names."                       *)
(*  J4 http_method_names: "The list of HTTP method names that this view will *)
(*      accept."                                                             *)
(* render_to_response (docstring + components_as_views.md):                  *)
(*  R1 "Render the component and wrap the content in the response class.     *)
(*      The response class is taken from Component.response_class. Defaults  *)
(*      to django.http.HttpResponse."                                        *)
(*  R2 "Any additional args and kwargs are passed to the response_class."    *)
(*  R3 rendering_js_css.md: "Component.render_to_response() (always renders  *)
(*      dependencies)"; inputs args/kwargs/slots/context/type/request mean   *)
(*      what they mean for render(); "request ... Unused if context is       *)
(*      already an instance of Context".                                     *)
(* Middleware (docs/concepts/advanced/rendering_js_css.md, installation.md,  *)
(* guides/devguides/dependency_mgmt.md):                                     *)
(*  M1 "The middleware searches the outgoing HTML for all components that    *)
(*      were rendered to generate the HTML, and adds the JS and CSS          *)
(*      associated with those components."  "scans all outgoing HTML"        *)
(*  M2 "the ComponentDependencyMiddleware middleware just calls              *)
(*      render_dependencies(), passing in the HTML content."                 *)
(*  M3 "It ensures that only the necessary stylesheets and scripts are       *)
(*      loaded in your HTML responses"                                       *)
(*  M4 MIDDLEWARE = [ # ... other middleware classes ...,                    *)
(*      'django_components.middleware.ComponentDependencyMiddleware',        *)
(*      # ... other middleware classes ... ]   (any position in the stack)   *)
(*  M5 "the template of CardActions contains no {% component_depedencies %}  *)
(*      tags, and nor <head> nor <body> HTML tags. So the component's JS and *)
(*      CSS will NOT be inserted, and will be lost."                         *)
(*  M6 Summary: ways to call render_dependencies(): the middleware,          *)
(*      Component.render(), Component.render_to_response(), directly - the   *)
(*      documented set-up (middleware installed + component views answering  *)
(*      with render_to_response) processes a page twice.                     *)
(*  Django (ref/middleware, CommonMiddleware): "Sets the Content-Length      *)
(*      header for non-streaming responses."  HTTP: a Content-Length header  *)
(*      states the length of the body that is sent.                          *)
(*                                                                           *)
(* Where the documentation is silent the specification admits a SET:         *)
(*  - content types that are "HTML" only under some reading (upper case,     *)
(*    application/xhtml+xml, text/html-sandboxed, no Content-Type header);   *)
(*  - streaming responses declared text/html (untouched or processed);       *)
(*  - whether a pass over a document without component markers adds the      *)
(*    component-independent client script block once more (core count).      *)
(***************************************************************************)
EXTENDS Naturals, Sequences, FiniteSets

Range(s) == {s[i] : i \in 1..Len(s)}

(* ======================================================================= *)
(* Part 1 - view dispatch                                                   *)
(* vd = handler names defined on the nested View class, cd = handler names  *)
(* defined on the Component, names = http_method_names in force (class      *)
(* attribute of the View or as_view(http_method_names=..)), m = method of   *)
(* the request, lower case (any string).                                    *)
(* ======================================================================= *)
AllMethods == {"get", "post", "put", "patch", "delete", "head", "options", "trace"}

Handles(vd, cd) == vd \cup cd                                        \* V2, V4
Eff(vd, cd) == Handles(vd, cd) \cup {"options"}                      \* J3: View answers OPTIONS itself
                 \cup (IF "get" \in Handles(vd, cd) THEN {"head"} ELSE {})   \* J1
Allowed(vd, cd, names) == Eff(vd, cd) \cap names                     \* J4
Owner(vd, cd, m) == IF m \in vd THEN "view" ELSE IF m \in cd THEN "comp" ELSE "none"   \* V4: View wins

Handled(who, h) == [res |-> "handled", st |-> 200, who |-> who, h |-> h, allow |-> {}]
AutoOptions(al) == [res |-> "options", st |-> 200, who |-> "auto", h |-> "", allow |-> al]
NotAllowed(al)  == [res |-> "405", st |-> 405, who |-> "none", h |-> "", allow |-> al]
Raises(x)       == [res |-> "raises", st |-> 0, who |-> x, h |-> "", allow |-> {}]

Answer(vd, cd, names, m) ==
  IF m \notin Allowed(vd, cd, names) THEN NotAllowed(Allowed(vd, cd, names))            \* J2
  ELSE IF m \in Handles(vd, cd) THEN Handled(Owner(vd, cd, m), m)                       \* J1
  ELSE IF m = "head" THEN Handled(Owner(vd, cd, "get"), "get")                          \* J1
  ELSE AutoOptions(Allowed(vd, cd, names))                                              \* J3

(* The handler is called with the request and the arguments captured from    *)
(* the URL (V1: "the same as View.as_view()"): what the handler sees.  on =   *)
(* "class" (Comp.as_view()) or "instance" (Comp(..).as_view(); CHANGELOG.md  *)
(* v0.98: "When you call as_view() on a component instance, that instance    *)
(* will be passed to View.as_view()"): inst = the handler runs on that very  *)
(* instance.                                                                 *)
Seen(m, kw, on) == [method |-> m, kw |-> kw, inst |-> (on = "instance")]

(* ---- named deviation of the current tree (KNOWN_FINDINGS.txt): the View    *)
(* class carries a generated handler for EVERY http method name that         *)
(* forwards to the attribute of that name on the component.                  *)
DevAnswer(vd, cd, names, m) ==
  IF m \notin names THEN NotAllowed(names)
  ELSE IF m \in Handles(vd, cd) THEN Handled(Owner(vd, cd, m), m)
  ELSE Raises("AttributeError")
DevKey(vd, cd, names, m) ==
  IF DevAnswer(vd, cd, names, m) = Answer(vd, cd, names, m) THEN ""
  ELSE IF m \notin names THEN "method-outside-http_method_names:allow-lists-methods-without-handler"
  ELSE IF m = "head" /\ "get" \in Handles(vd, cd) THEN "head-request-get-handler-only:AttributeError"
  ELSE IF m = "options" THEN "options-request-no-options-handler:AttributeError"
  ELSE "request-method-without-handler:AttributeError"

(* ---- theorems about Part 1 (checked by TLC for every case) ---------------- *)
\* 405 exactly for the methods the Allow header does not list; Allow lists exactly the
\* methods that are answered
AllowIsExact(vd, cd, names) ==
  \A m \in AllMethods \cup {"propfind"} :
     (Answer(vd, cd, names, m).st = 405) <=> (m \notin Allowed(vd, cd, names))
ViewWins(vd, cd, names, m) ==
  (m \in vd /\ m \in names) => Answer(vd, cd, names, m) = Handled("view", m)
HeadLikeGet(vd, cd, names) ==
  ("head" \in names /\ "head" \notin Handles(vd, cd) /\ "get" \in Handles(vd, cd)) =>
     Answer(vd, cd, names, "head") = Handled(Owner(vd, cd, "get"), "get")
\* the deviation never touches a request that has a handler of its own
DevIsNarrow(vd, cd, names, m) ==
  (m \in Handles(vd, cd) /\ m \in names) => DevKey(vd, cd, names, m) = ""

(* ======================================================================= *)
(* Part 2 - render_to_response                                              *)
(* i = [a, k, s : "none" | value,  cx : "none" | "dict" | "Context",         *)
(*      rq : BOOLEAN (request passed), ty : "document" | "fragment",         *)
(*      rc : "default" | "custom" (response_class), st : 0 | status,         *)
(*      hd : BOOLEAN (headers= passed), pos : BOOLEAN (extras positional)]   *)
(* The component's template echoes its inputs; Default is what it prints     *)
(* for an input that was not given.                                          *)
(* ======================================================================= *)
Default == "dflt"
Val(x) == IF x = "none" THEN Default ELSE x
PosCT == "application/xhtml+xml"          \* content type passed positionally when i.pos
DefaultCT == "text/html; charset=utf-8"   \* Django's default for HttpResponse

RtrExpected(i) ==
  [cls    |-> i.rc,                                              \* R1
   st     |-> IF i.st = 0 THEN 200 ELSE i.st,                    \* R2
   hd     |-> i.hd,                                              \* R2
   ct     |-> IF i.pos THEN PosCT ELSE DefaultCT,                \* R2
   a      |-> Val(i.a), k |-> Val(i.k), s |-> Val(i.s),          \* R3: same inputs as render()
   cx     |-> IF i.cx = "none" THEN "" ELSE "C1",
   csrf   |-> i.rq /\ i.cx # "Context",                          \* R3: RequestContext iff request is used
   marks  |-> 0,                                                 \* R3: always renders dependencies
   inlined  |-> IF i.ty = "document" THEN 1 ELSE 0,              \* own js/css inlined once (document)
   declared |-> IF i.ty = "fragment" THEN 1 ELSE 0,              \* or announced to the loader (fragment)
   sameAsRender |-> TRUE]                                        \* R1: content = render(same inputs)

(* ======================================================================= *)
(* Part 3 - the middleware as a machine over a response                     *)
(* resp = [kind : "http" | "template" | "stream" | "file",                   *)
(*         ct   : value of the Content-Type header ("none": no header),      *)
(*         st   : status, hk : BOOLEAN (every header other than              *)
(*                Content-Length, and every cookie, as the view set it),     *)
(*         cl   : "absent" | "ok" (= length of the body) | "stale",          *)
(*         body : [shape : "doc" (has </head> and </body>) | "frag" | "text", *)
(*                 txt : BOOLEAN (the view's text, in order, is all there),  *)
(*                 marks : sequence of component numbers (render markers),   *)
(*                 css, js : per component, how often its code is inlined,   *)
(*                 core : how many component-independent script blocks]]     *)
(* assets = the components that have JS and CSS of their own.                *)
(* ======================================================================= *)
HtmlCT   == {"text/html; charset=utf-8", "text/html", "text/html;charset=utf-8", "text/html; charset=iso-8859-1"}
OtherCT  == {"text/plain; charset=utf-8", "application/json", "text/xml", "text/css", "application/octet-stream",
             "image/svg+xml", "application/javascript"}
UnspecCT == {"TEXT/HTML; charset=utf-8", "Text/Html", "application/xhtml+xml", "text/html-sandboxed", "none"}
CtClass(ct) == IF ct \in HtmlCT THEN "html" ELSE IF ct \in OtherCT THEN "other" ELSE "unspec"

Streaming(r) == r.kind \in {"stream", "file"}

Bump(cnt, marks, assets) ==
  [c \in 1..Len(cnt) |-> cnt[c] + (IF c \in Range(marks) /\ c \in assets THEN 1 ELSE 0)]

\* render_dependencies in document mode on an abstract body: the set of admitted results
RD(b, assets) ==
  IF b.shape = "doc"
  THEN {[b EXCEPT !.marks = <<>>, !.css = Bump(b.css, b.marks, assets), !.js = Bump(b.js, b.marks, assets),
                  !.core = n] :
          n \in (IF b.marks # <<>> THEN {b.core + 1} ELSE {b.core, b.core + 1})}       \* M1, M3
  ELSE {[b EXCEPT !.marks = <<>>]}                                                     \* M5

\* a step outcome: the response afterwards, and whether the body must be byte-identical
Outcome(pre, r) == [r |-> r, ident |-> (r.body = pre.body)]

Processed(r, assets) ==
  {[r EXCEPT !.body = b2, !.cl = IF r.cl = "absent" THEN "absent" ELSE "ok"] : b2 \in RD(r.body, assets)}

\* what ComponentDependencyMiddleware may return for the response r of the inner layers
Cdm(r, assets) ==
  LET cls == CtClass(r.ct) IN
  IF cls = "other" THEN {r}                                    \* M1: only HTML
  ELSE IF cls = "html" /\ ~Streaming(r) THEN Processed(r, assets)   \* M1, M2
  ELSE {r} \cup Processed(r, assets)                           \* docs silent: either
CdmOutcomes(r, assets) == {Outcome(r, p) : p \in Cdm(r, assets)}

\* django.middleware.common.CommonMiddleware (environment, documented by Django)
Common(r) == IF ~Streaming(r) /\ r.cl = "absent" THEN [r EXCEPT !.cl = "ok"] ELSE r
CommonOutcomes(r) == {Outcome(r, Common(r))}

Layers == {"cdm", "common"}
LayerOutcomes(layer, r, assets) == IF layer = "cdm" THEN CdmOutcomes(r, assets) ELSE CommonOutcomes(r)

(* ---- named deviation of the current tree: the middleware assigns the new  *)
(* body and leaves an existing Content-Length header as it was.              *)
DevCdmOutcomes(r, assets) ==
  {[r |-> [o.r EXCEPT !.cl = IF r.cl = "ok" /\ ~o.ident THEN "stale" ELSE r.cl], ident |-> o.ident] :
     o \in CdmOutcomes(r, assets)}
DevClKey == "content-length-set-by-inner-layer-and-body-changed:content-length-left-stale"
DevLayerOutcomes(layer, r, assets) ==
  IF layer = "cdm" /\ r.cl = "ok" THEN DevCdmOutcomes(r, assets) \ CdmOutcomes(r, assets) ELSE {}

(* ---- the pipeline machine -------------------------------------------------- *)
VARIABLES init, resp, depth, last, pre, seenCdm
hsVars == <<init, resp, depth, last, pre, seenCdm>>

PipeInit(r0) == /\ init = r0 /\ resp = r0 /\ depth = 0 /\ last = "view" /\ pre = r0 /\ seenCdm = FALSE

Apply(layer, assets) ==
  \E o \in LayerOutcomes(layer, resp, assets) :
     /\ resp' = o.r /\ pre' = resp /\ last' = layer /\ depth' = depth + 1
     /\ seenCdm' = (seenCdm \/ layer = "cdm")
     /\ UNCHANGED init

(* ---- properties of the machine (checked by TLC on the bounded instance) ---- *)
HtmlPlain(r) == CtClass(r.ct) = "html" /\ ~Streaming(r)
StatusAndHeadersKept == resp.st = init.st /\ resp.hk /\ resp.kind = init.kind /\ resp.ct = init.ct
TextKept == resp.body.txt = init.body.txt /\ resp.body.shape = init.body.shape
OtherUntouched == CtClass(init.ct) = "other" => resp.body = init.body
ContentLengthConsistent == resp.cl # "stale" /\ (init.cl # "absent" => resp.cl = "ok")
NoMarkersAfterCdm == (seenCdm /\ HtmlPlain(init)) => resp.body.marks = <<>>
\* the assets of exactly the components marked in the view's document, each once - however many
\* times the middleware ran (M6: twice in the documented set-up)
Once(c, assets) == IF c \in Range(init.body.marks) /\ c \in assets /\ init.body.shape = "doc" THEN 1 ELSE 0
DeliveredExactlyOnce(assets) ==
  (seenCdm /\ HtmlPlain(init)) =>
     \A c \in 1..Len(init.body.css) :
        /\ resp.body.css[c] = init.body.css[c] + Once(c, assets)
        /\ resp.body.js[c] = init.body.js[c] + Once(c, assets)
\* a second pass changes nothing but (at most) one more component-independent block
SecondPassHarmless ==
  [][(seenCdm /\ last' = "cdm" /\ HtmlPlain(init)) =>
        /\ resp'.body.marks = resp.body.marks /\ resp'.body.css = resp.body.css /\ resp'.body.js = resp.body.js
        /\ resp'.body.core \in {resp.body.core, resp.body.core + 1}
        /\ resp'.cl = resp.cl /\ resp'.st = resp.st]_hsVars
\* the specification does not know how the middleware was driven: sync and async paths get the
\* same admitted set (the replay runs every exported step through both)
Vias == {"sync", "async"}
CdmVia(via, r, assets) == CdmOutcomes(r, assets)
ViaIndependent(assets) == \A v1, v2 \in Vias : CdmVia(v1, resp, assets) = CdmVia(v2, resp, assets)
=============================================================================
