SPECIFICATION SpecNoAssume
CONSTANTS
  Pid = {"p1", "p2"}
  Rid = {"r1", "r2"}
INVARIANT NoKeyError
CHECK_DEADLOCK FALSE
