------------------------------- MODULE MC_X06 -------------------------------
(***************************************************************************)
(* Bounded instances of TemplateSource (spec -> code replay).               *)
(*  - The initial states are every chain of Depths classes built from the   *)
(*    catalogues chosen in the cfg (BaseLv for the classes below the last   *)
(*    one, LeafLv for the last one, DirPlans for the directories of the     *)
(*    modules).  KaseOK is checked on each.                                 *)
(*  - With H > 0 the machine renders any class of the chain with any        *)
(*    selector and clears the template cache, in every order, H steps       *)
(*    (cache size MaxSize); NoLeak and the TemplateCache invariants hold.   *)
(*  - Export writes one JSON line per complete behaviour: the chain, the    *)
(*    history with the admitted outcome set of each render, and the whole   *)
(*    outcome table (class x selector).                                     *)
(***************************************************************************)
EXTENDS TemplateSource, Json, IOUtils

CONSTANTS Depths, BaseLv, LeafLv, DirPlans, H

NS == 3      \* selectors 0..2

(* ---- catalogues (selected in the cfg with <-) ------------------------------- *)
N3 == <<"None", "None", "None">>
Sk(s) == <<s, "-">>
F(n) == <<"file", n>>
\* every kind of static definition; "both" only for the last class of a chain (a class that
\* cannot be created has no subclasses)
StAllBase == {Sk("none"), Sk("inline"), Sk("obj"),
              F("near.html"), F("nearc.html"), F("neart.html"), F("c.html"), F("t.html"), F("ct.html"),
              F("d1/near.html"), F("d2/near.html"), F("none.html"), F("inc.html")}
StAllLeaf == StAllBase \cup {<<"both", "near.html">>}
StFew     == {Sk("none"), Sk("inline"), F("near.html")}
StFewLeaf == StFew \cup {<<"both", "near.html">>}
StMid     == {Sk("none"), Sk("inline"), F("near.html"), F("t.html"), F("none.html")}

GtnAll == {<<>>, N3,
           <<"mem.html", "mem.html", "mem.html">>,
           <<"None", "mem.html", "t.html">>,
           <<"c.html", "d1/near.html", "ct.html">>,
           <<"near.html", "none.html", "nearc.html">>}
GtnFew  == {<<>>, <<"None", "mem.html", "t.html">>}

GtAll == {<<>>, N3,
          <<"s:a", "s:a", "s:a">>,
          <<"None", "s:a", "s:b">>,
          <<"o:a", "s:x", "o:b">>}
GtFew  == {<<>>, <<"None", "s:a", "s:b">>}

PlansOne   == {<<1>>}
PlansSplit == {<<1, 2>>}
PlansBoth  == {<<1, 2>>, <<1, 1>>}
Plans3     == {<<1, 2, 1>>}

Levels(S, G, T) == {[st |-> s[1], fn |-> s[2], gtn |-> g, gt |-> t] : s \in S, g \in G, t \in T}
Lvl(s, g, t) == [st |-> s[1], fn |-> s[2], gtn |-> g, gt |-> t]
\* families: depth 1 complete; depth 2 with every static kind x few methods, and with few
\* static kinds x every method table (quick: pairwise, see LvGtn* / LvGt*); everything x
\* everything and depth 3 in the thorough tier
LvAllBase == Levels(StAllBase, GtnAll, GtAll)
LvAllLeaf == Levels(StAllLeaf, GtnAll, GtAll)
LvStatBase == Levels(StAllBase, GtnFew, GtFew)
LvStatLeaf == Levels(StAllLeaf, GtnFew, GtFew)
LvStatBase0 == Levels(StAllBase, {<<>>}, {<<>>})      \* quick: methods at one of the two levels only
LvStatLeaf0 == Levels(StAllLeaf, {<<>>}, {<<>>})
LvDynBase == Levels(StFew, GtnAll, GtAll)
LvDynLeaf == Levels(StFewLeaf, GtnAll, GtAll)
\* the same pairwise (quick tier): every get_template_name table at both levels x few get_template
\* tables, and the other way round (the two methods interact only through "how many are given")
LvGtnBase == Levels(StFew, GtnAll, GtFew)
LvGtnLeaf == Levels(StFewLeaf, GtnAll, GtFew)
LvGtBase == Levels(StFew, GtnFew, GtAll)
LvGtLeaf == Levels(StFewLeaf, GtnFew, GtAll)
\* the complete product, in four parts (four TLC runs side by side)
LvAllBaseP1 == Levels({Sk("none"), Sk("inline"), Sk("obj")}, GtnAll, GtAll)
LvAllBaseP2 == Levels({F("near.html"), F("nearc.html"), F("neart.html")}, GtnAll, GtAll)
LvAllBaseP3 == Levels({F("c.html"), F("t.html"), F("ct.html")}, GtnAll, GtAll)
LvAllBaseP4 == Levels({F("d1/near.html"), F("d2/near.html"), F("none.html"), F("inc.html")}, GtnAll, GtAll)
LvMidBase == Levels(StMid, GtnFew, GtFew)
LvMidLeaf == Levels(StMid \cup {<<"both", "near.html">>}, GtnFew, GtFew)
\* histories (H > 0): chains whose renders go through the template cache with texts shared
\* between classes ("s:x"), the same text at two places (inc.html), loader names, objects
LvHistBase == {Lvl(Sk("inline"), <<>>, <<>>),
               Lvl(Sk("none"), <<>>, <<"None", "s:a", "s:x">>),
               Lvl(F("inc.html"), <<>>, <<>>),
               Lvl(Sk("none"), <<"None", "mem.html", "mem2.html">>, <<>>)}
LvHistLeaf == {Lvl(Sk("none"), <<>>, <<>>),
               Lvl(Sk("inline"), <<>>, <<>>),
               Lvl(F("inc.html"), <<>>, <<>>),
               Lvl(Sk("none"), <<>>, <<"s:x", "o:a", "None">>)}
Base == BaseLv
Leaf == LeafLv

Chains(d) == IF d = 1 THEN {<<l>> : l \in Leaf}
             ELSE IF d = 2 THEN {<<b, l>> : b \in Base, l \in Leaf}
             ELSE {<<a, b, l>> : a \in Base, b \in Base, l \in Leaf}
Cases == UNION {{[lv |-> ch, dirs |-> p] : ch \in Chains(d), p \in {q \in DirPlans : Len(q) = d}} : d \in Depths}

MCInit == \E K \in Cases : TSInit(K)
MCNext == /\ Len(hist) < H
          /\ \/ \E c \in 1..Depth(kase), s \in 0..(NS - 1) : Render(c, s)
             \/ ClearTemplates
MCSpec == MCInit /\ [][MCNext]_tsVars

\* the statements about Outcome concern the chain only: evaluated once per chain
KaseOK0 == hist = <<>> => KaseOK

Table == [c \in 1..Depth(kase) |-> [s \in 1..NS |-> Outcome(kase, c, s - 1)]]

Export ==
  \/ Len(hist) < H
  \/ Serialize(ToJson([k |-> kase, max |-> MaxSize, hist |-> hist, table |-> Table]) \o "\n",
               IOEnv.OUT, [format |-> "TXT", charset |-> "UTF-8",
                           openOptions |-> <<"WRITE", "CREATE", "APPEND">>]).exitValue = 0
=============================================================================
