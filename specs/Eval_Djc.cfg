SPECIFICATION Spec
