------------------------------- MODULE MC_C18T -------------------------------
(* Bounded instances of TemplateCache.                                      *)
(*  MCTSpec : the abstract machine over Keys (plain cached_template calls).  *)
(*  CompSpec: component level - every sequence of MaxLen steps (render of   *)
(*            class c / clear) over the class table CT, in which several     *)
(*            classes share one import path (ClassPaths[c] = path of class   *)
(*            c; the template of class c is template number c).  Every      *)
(*            complete sequence is exported as one JSON line with, per step, *)
(*            the object the specification hands out, the template it was    *)
(*            compiled from and the LRU order (spec -> code replay).         *)
EXTENDS TemplateCache, TLC, Json, IOUtils
CONSTANTS MaxObjs, ClassPaths, MaxLen
VARIABLE hist
mctVars == <<order, val, ret, made, got, req, cls, hist>>

Limit == Len(made) <= MaxObjs

MCTSpec == (TCInit /\ hist = <<>>) /\ [][TCNext /\ UNCHANGED hist]_mctVars

\* class tables (a cfg file cannot hold a tuple): ClassPaths <- P1112 etc.
P11 == <<1, 1>>
P1112 == <<1, 1, 1, 2>>
P1122 == <<1, 1, 2, 2>>
P11122 == <<1, 1, 1, 2, 2>>

CT == [c \in 1..Len(ClassPaths) |-> [path |-> ClassPaths[c], src |-> c]]

CompNext ==
  /\ Len(hist) < MaxLen
  /\ \/ \E c \in 1..Len(CT) :
          /\ RenderClass(CT, c)
          /\ hist' = Append(hist, [op |-> "render", c |-> c, obj |-> got',
                                   fresh |-> (Len(made') > Len(made)),
                                   src |-> SrcOfKey(made'[got']),
                                   fwd |-> [i \in 1..Len(order') |-> SrcOfKey(order'[i])]])
     \/ /\ ClearCache
        /\ hist' = Append(hist, [op |-> "clear", c |-> 0, obj |-> 0, fresh |-> FALSE, src |-> 0, fwd |-> <<>>])

CompSpec == (TCInit /\ hist = <<>>) /\ [][CompNext]_mctVars

ClassOwn == OwnTemplate(CT)
ClassNoSharing == NoSharing(CT)

ExportComp ==
  \/ Len(hist) < MaxLen
  \/ Serialize(ToJson([max |-> MaxSize, classes |-> CT, steps |-> hist]) \o "\n",
               IOEnv.OUT, [format |-> "TXT", charset |-> "UTF-8",
                           openOptions |-> <<"WRITE", "CREATE", "APPEND">>]).exitValue = 0
=============================================================================
