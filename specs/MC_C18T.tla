------------------------------- MODULE MC_C18T -------------------------------
EXTENDS TemplateCache, TLC
CONSTANT MaxObjs
Limit == Len(made) <= MaxObjs
=============================================================================
