------------------------------- MODULE MC_C15B -------------------------------
(* RegistryImpl on the configurations of the ndjson file IOEnv.CFG.           *)
EXTENDS RegistryImpl, RegistryIO, TLC, Json, IOUtils
MCImplConfigs == {NormCfg(j) : j \in Rng(ndJsonDeserialize(IOEnv.CFG))}
=============================================================================
