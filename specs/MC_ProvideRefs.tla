---------------------------- MODULE MC_ProvideRefs ----------------------------
(***************************************************************************)
(* Bounded instances of ProvideRefs.tla for TLC.                           *)
(*  MC_ProvideRefs_reach.cfg : reachable states from Init (3 providers,    *)
(*                             3 components), all invariants + the action  *)
(*                             property.                                   *)
(*  MC_ProvideRefs_ind.cfg   : INDUCTIVENESS - the initial states are ALL  *)
(*                             states satisfying IndInv (2 providers,      *)
(*                             2 components); one Next step must preserve  *)
(*                             IndInv (checked as invariant over the       *)
(*                             states reachable from them, which contains  *)
(*                             every successor).                           *)
(*  MC_ProvideRefs_noassume.cfg : vacuity guard - without the environment  *)
(*                             assumption VisibleAlive TLC must find the   *)
(*                             KeyError (err = TRUE).                      *)
(***************************************************************************)
EXTENDS ProvideRefs, TLC

Phases == {"new", "set", "open", "closed"}

IndInit == /\ cache \in SUBSET Pid
           /\ refs \in UNION {[D -> SUBSET Ref] : D \in SUBSET Pid}
           /\ allIds \in SUBSET Ref
           /\ err = FALSE
           /\ phase \in [Pid -> Phases]
           /\ IndInv
IndSpec == IndInit /\ [][Next]_prVars

\* the same machine without the environment assumption
RegisterAnyAct(r, ps) == Becomes(Register(Cur, r, ps)) /\ UNCHANGED phase
NextNoAssume == Next \/ \E r \in Rid, ps \in SUBSET Pid : RegisterAnyAct(r, ps)
SpecNoAssume == Init /\ [][NextNoAssume]_prVars
=============================================================================
