------------------------------ MODULE MC_C09H ------------------------------
(***************************************************************************)
(* LexerHandover as a state machine: one step = one pass of the            *)
(* parse_template loop (Django pass + at most one hand-over).  Initial     *)
(* states: every source of at most MaxSegs atoms of AtomSet, at most       *)
(* FocusSegs atoms of FocusSet, at most 2 atoms of PairSet.                *)
(*                                                                         *)
(*   Devs = {}            : OffsetInv, ResumeInv and Refines must hold     *)
(*   Devs = {one defect}  : TLC must find a counterexample; the harness    *)
(*                          replays it on the real code (vf/c09.py)        *)
(***************************************************************************)
EXTENDS LexerAtoms, LexerHandover, TLC

CONSTANTS MaxSegs, AtomSet, FocusSegs, FocusSet, PairSet, Devs, ML
VARIABLES hids, hst
hvars == <<hids, hst>>

Sources == UNION {[1..n -> AtomSet] : n \in 0..MaxSegs}
           \cup UNION {[1..n -> FocusSet] : n \in 0..FocusSegs}
           \cup UNION {[1..n -> PairSet] : n \in 0..2}
Admissible(ids) == /\ \A i \in 1..(Len(ids) - 1) : ~IsLast(ids[i])
                   /\ ~Zone(Src(ids))

HInitial == hids \in {ids \in Sources : Admissible(ids)} /\ hst = HInit
HText == Flat(Src(hids))
HNext == ~hst.done /\ hst' = HStep(HText, hst, Devs, ML) /\ UNCHANGED hids
HSpec == HInitial /\ [][HNext]_hvars

\* lineno_offset is the number of newlines before index_start
OffsetInv == hst.off = NLs(SubSeq(HText, 1, hst.idx))
\* index_start is a token border of the abstract stream
ResumeInv == hst.idx = 0 \/ \E i \in 1..Len(Tokens(Src(hids))) : Tokens(Src(hids))[i].e = hst.idx
\* the finished run is exactly the abstract stream, without error
Refines == hst.done => (hst.err = "" /\ hst.toks = Tokens(Src(hids)))
\* tokens already emitted are never revised, and they are a prefix of the abstract stream
PrefixInv == hst.err = "" => /\ Len(hst.toks) <= Len(Tokens(Src(hids)))
                             /\ \A i \in 1..Len(hst.toks) :
                                  [hst.toks[i] EXCEPT !.l = 0] = [Tokens(Src(hids))[i] EXCEPT !.l = 0]
=============================================================================
