---------------------------- MODULE TemplateCache ----------------------------
(***************************************************************************)
(* cached_template() on top of the LRU cache (C18).  A compile request for *)
(* key k (template class, template string, engine class) is a cache get,    *)
(* and on a miss the construction of a fresh Template object followed by a  *)
(* cache set.  Objects are numbered in creation order; `made[i]` is the key *)
(* object i was compiled from.                                              *)
(***************************************************************************)
EXTENDS LRUCache

VARIABLES made, got, req      \* req: key of the last compile request (0: none)
tcVars == <<order, val, ret, made, got, req>>

TCInit == LRUInit /\ made = <<>> /\ got = 0 /\ req = 0

Compile(k) ==
  LET g == DoGet(order, val, k) IN
  /\ req' = k
  /\ IF g.ret # None
     THEN /\ Becomes(g) /\ got' = g.ret /\ UNCHANGED made
     ELSE LET fresh == Len(made) + 1
              s == DoSet(g.order, g.val, k, fresh) IN
          /\ Becomes(s) /\ got' = fresh /\ made' = Append(made, k)

ClearCache == Becomes(DoClear) /\ req' = 0 /\ UNCHANGED <<made, got>>

TCNext == (\E k \in Keys : Compile(k)) \/ ClearCache
TCSpec == TCInit /\ [][TCNext]_tcVars

\* Transparency: whatever object a key is mapped to was compiled from that key,
\* so rendering it equals rendering a fresh compilation.
Transparent == \A k \in DOMAIN val : made[val[k]] = k
GotIsRight == got # 0 => got \in 1..Len(made) /\ (req # 0 => made[got] = req)
\* Identity: while a key stays cached, a repeated request returns the identical object.
Identity == [][req' # 0 /\ req' \in DOMAIN val => got' = val[req'] /\ made' = made]_tcVars
\* A miss always yields an object that did not exist before.
MissIsFresh == [][req' # 0 /\ req' \notin DOMAIN val =>
                    got' = Len(made) + 1 /\ made' = Append(made, req')]_tcVars
=============================================================================
