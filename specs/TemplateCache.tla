---------------------------- MODULE TemplateCache ----------------------------
(***************************************************************************)
(* cached_template() on top of the LRU cache (C18).  A compile request for *)
(* key k (template class, template string, engine class) is a cache get,    *)
(* and on a miss the construction of a fresh Template object followed by a  *)
(* cache set.  Objects are numbered in creation order; `made[i]` is the key *)
(* object i was compiled from.                                              *)
(*                                                                         *)
(* Component level.  A component CLASS c (an identity: the class object)    *)
(* has an import path (module + qualname) and an inline template.  The     *)
(* import path does NOT identify the class: every class made by one        *)
(* factory function, and every re-execution of one class statement, has    *)
(* the same path.  Rendering class c is a compile request for the class'   *)
(* OWN template - key ClassKey(ct, c), built from the class table entry of *)
(* c itself, never from that of another class of the same path.  `cls` is  *)
(* the class of the last request (0: a plain cached_template() call).       *)
(***************************************************************************)
EXTENDS LRUCache

VARIABLES made, got, req,     \* req: key of the last compile request (0: none)
          cls                 \* class that made the last request (0: none / plain call)
tcVars == <<order, val, ret, made, got, req, cls>>

TCInit == LRUInit /\ made = <<>> /\ got = 0 /\ req = 0 /\ cls = 0

Request(k) ==
  LET g == DoGet(order, val, k) IN
  /\ req' = k
  /\ IF g.ret # None
     THEN /\ Becomes(g) /\ got' = g.ret /\ UNCHANGED made
     ELSE LET fresh == Len(made) + 1
              s == DoSet(g.order, g.val, k, fresh) IN
          /\ Becomes(s) /\ got' = fresh /\ made' = Append(made, k)

Compile(k) == Request(k) /\ cls' = 0

ClearCache == Becomes(DoClear) /\ req' = 0 /\ cls' = 0 /\ UNCHANGED <<made, got>>

\* ---- component level: ct is the class table, ct[c] = [path |-> import path, src |-> inline template] of
\* class c (both small positive numbers < KeyBase).  Keys stay numbers (TLC cannot compare a tuple with the
\* "no request" marker 0): path * KeyBase + src.
KeyBase == 1000
ClassKey(ct, c) == ct[c].path * KeyBase + ct[c].src
SrcOfKey(k) == k % KeyBase
PathOfKey(k) == k \div KeyBase
RenderClass(ct, c) == Request(ClassKey(ct, c)) /\ cls' = c

TCNext == (\E k \in Keys : Compile(k)) \/ ClearCache
TCSpec == TCInit /\ [][TCNext]_tcVars

\* Transparency: whatever object a key is mapped to was compiled from that key,
\* so rendering it equals rendering a fresh compilation.
Transparent == \A k \in DOMAIN val : made[val[k]] = k
GotIsRight == got # 0 => got \in 1..Len(made) /\ (req # 0 => made[got] = req)
\* Identity: while a key stays cached, a repeated request returns the identical object.
Identity == [][req' # 0 /\ req' \in DOMAIN val => got' = val[req'] /\ made' = made]_tcVars
\* A miss always yields an object that did not exist before.
MissIsFresh == [][req' # 0 /\ req' \notin DOMAIN val =>
                    got' = Len(made) + 1 /\ made' = Append(made, req')]_tcVars

\* Component-level transparency (GotIsRight with the class identity): the object handed to class c was
\* compiled from c's own template under c's own path - so rendering it equals compiling c's template afresh.
OwnTemplate(ct) == cls # 0 => /\ got \in 1..Len(made)
                              /\ made[got] = ClassKey(ct, cls)
                              /\ SrcOfKey(made[got]) = ct[cls].src
\* Classes with different templates never hold the same object, whether or not they share an import path.
NoSharing(ct) == \A c, d \in 1..Len(ct) :
                   (/\ ct[c].src # ct[d].src
                    /\ ClassKey(ct, c) \in DOMAIN val /\ ClassKey(ct, d) \in DOMAIN val)
                   => val[ClassKey(ct, c)] # val[ClassKey(ct, d)]
=============================================================================
