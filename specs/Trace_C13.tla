------------------------------ MODULE Trace_C13 ------------------------------
(***************************************************************************)
(* Trace validation (code -> spec) for C13.  IOEnv.IN names an ndjson file; *)
(* every line is one recorded run on the real library:                      *)
(*  kind "attrs": events = renders of ONE compiled {% html_attrs %} template *)
(*        with successive contexts; each event carries the abstract case    *)
(*        (defaults, attrs, kws) and the observation: exception class or    *)
(*        the attribute list html.parser read from the output, and the raw  *)
(*        output text;                                                      *)
(*  kind "slot":  origin, content, hops and the text rendered by the slot;  *)
(*  kind "guard": events = a history of renders in ONE process (the same     *)
(*        component class several times, possibly interleaved with another  *)
(*        one); each event carries the component kind, its js/css content,  *)
(*        the outcome of this render and the output from just after the     *)
(*        element's start tag.  Every render is judged by the content alone.*)
(* Every observation is judged with the operators of HtmlAttrs, SlotEscape, *)
(* EndTagGuard.  Verdicts are total: one ACCEPT/REJECT line per trace.  A   *)
(* REJECT whose only clause is "dev:<key>" is a result that equals the      *)
(* prediction of a named deviation (known finding).  "DRIFT" lines report   *)
(* that the tokenizer model of the specification read the real output text  *)
(* differently from html.parser (model fidelity, not a verdict).            *)
(***************************************************************************)
EXTENDS HtmlAttrs, SlotEscape, EndTagGuard, TLC, Json, IOUtils

Traces == ndJsonDeserialize(IOEnv.IN)

VARIABLE tid
TrInit == tid = 1

Case(e) == [defaults |-> e.defaults, attrs |-> e.attrs, kws |-> e.kws]
AttrsFailing(e) ==
  LET c == Case(e)
      its == Items(c) IN
  IF Conform(ExpectedI(its), e.obs) THEN {}
  ELSE LET k == DevKey(c, e.obs) IN
       IF k # "" THEN {"dev:" \o k}
       ELSE IF e.obs.err # "" THEN {"unexpected_exception"}
       ELSE IF e.obs.spill THEN {"left_the_tag"}
       ELSE {"attributes"}
\* the tokenizer model reads the real output as html.parser did
ModelReadsSame(e) == e.obs.err # "" \/ LET p == ParseAttrs(e.obs.out) IN
                                        (~Clean(p) /\ e.obs.spill) \/ (Clean(p) /\ ~e.obs.spill /\ p.attrs = e.obs.attrs)

SlotFailing(t) ==
  IF ~WellFormed(t.hops) THEN {"malformed_case"}
  ELSE IF t.err # "" THEN {"unexpected_exception"}
  ELSE IF SlotConform(t.origin, t.hops, t.content, t.out) THEN {}
  ELSE LET k == ObservedTimes(t.content, t.out) IN
       CASE k = 2 -> {"escaped_twice"}
         [] k = 1 -> {"escaped_although_exempt"}
         [] k = 0 -> {"not_escaped"}
         [] OTHER -> {"garbled"}

GuardFailing(t) ==
  IF t.outcome = "altered" THEN {"content_altered"}
  ELSE IF t.outcome \notin GuardAdmitted(t.gkind, t.s)
  THEN LET d == DevGuard(t.gkind, t.s) IN
       IF d.key # "" /\ d.outcome = t.outcome THEN {"dev:" \o d.key}
       ELSE IF t.outcome = "emitted" THEN {"terminating_content_emitted"} ELSE {"harmless_content_not_emitted"}
  ELSE IF t.outcome = "emitted" /\ ~EmittedIntact(t.gkind, t.s, t.rest) THEN {"element_cut_short"}
  ELSE {}

FirstBad(evs) == LET bad == {i \in 1..Len(evs) : AttrsFailing(evs[i]) # {}} IN
                 IF bad = {} THEN 0 ELSE CHOOSE i \in bad : \A j \in bad : i <= j
FirstBadRender(evs) == LET bad == {i \in 1..Len(evs) : GuardFailing(evs[i]) # {}} IN
                       IF bad = {} THEN 0 ELSE CHOOSE i \in bad : \A j \in bad : i <= j
Judge(t) ==
  CASE t.kind = "attrs" ->
         LET i == FirstBad(t.events)
             drift == {j \in 1..Len(t.events) : ~ModelReadsSame(t.events[j])} IN
         /\ (IF drift = {} THEN TRUE ELSE PrintT(<<"DRIFT", t.id, drift>>))
         /\ IF i = 0 THEN PrintT(<<"ACCEPT", t.id>>)
            ELSE PrintT(<<"REJECT", t.id, i, AttrsFailing(t.events[i])>>)
    [] t.kind = "slot" ->
         IF SlotFailing(t) = {} THEN PrintT(<<"ACCEPT", t.id>>) ELSE PrintT(<<"REJECT", t.id, 1, SlotFailing(t)>>)
    [] t.kind = "guard" ->
         LET i == FirstBadRender(t.events) IN
         /\ Assert((i = 0) = HistoryAdmitted(t.events) \/ \E j \in 1..Len(t.events) : GuardFailing(t.events[j]) \cap
                      {"content_altered", "element_cut_short"} # {}, "FirstBadRender and HistoryAdmitted disagree")
         /\ IF i = 0 THEN PrintT(<<"ACCEPT", t.id>>) ELSE PrintT(<<"REJECT", t.id, i, GuardFailing(t.events[i])>>)

TrNext == tid <= Len(Traces) /\ Judge(Traces[tid]) /\ tid' = tid + 1
TrSpec == TrInit /\ [][TrNext]_tid
=============================================================================
