------------------------------ MODULE Trace_C20 ------------------------------
(***************************************************************************)
(* Trace validation (code -> spec) for get_component_files / autodiscover. *)
(* IOEnv.IN names an ndjson file; each line is one recorded session over   *)
(* several roots at once (COMPONENTS.dirs / STATICFILES_DIRS entries and   *)
(* app directories), `roots` giving kind, prefix and the places where the  *)
(* configuration mentions each (src: list, form and SPELLING of the path - *)
(* trailing slash, "." / ".." segments, through a symbolic link; several   *)
(* mentions = listed several times), `cfg` whether COMPONENTS.dirs and     *)
(* app_dirs are given, the app_dirs entries as relative paths (segments +  *)
(* spelling) and how BASE_DIR is spelled (Autodiscover!Searched);          *)
(* directories that exist but                                              *)
(* are not searched are roots too, their files must not be returned:       *)
(*   mk / rm   an entry [k, kind, parts] was created / removed on disk     *)
(*   scan      got = entries returned by get_component_files(sfx), each    *)
(*             mapped back to (root k, parts) with its dot_path            *)
(*   load      importlib.import_module(dot) for a returned .py entry:      *)
(*             res = "same" (loaded exactly that file) / "other" / "fail"  *)
(*   auto      autodiscover(): returned module names and, for each, the    *)
(*             file it was loaded from                                     *)
(* The specification state is the sequence of trees.  A scan that differs  *)
(* from Expected but equals what the named deviations predict is reported  *)
(* as "dev:<key>".  One REJECT line per failing event, ACCEPT otherwise.   *)
(***************************************************************************)
EXTENDS Autodiscover, TLC, Json, IOUtils

Traces == ndJsonDeserialize(IOEnv.IN)

VARIABLES tid, l, phase, trees, clean
trVars == <<tid, l, phase, trees, clean>>

Events == Traces[tid].events
Ev == Events[l]
Roots == Traces[tid].roots
TCfg == Traces[tid].cfg
Empty(n) == [k \in 1..n |-> {}]

TrInit == tid = 1 /\ l = 1 /\ phase = "step" /\ trees = Empty(Len(Traces[1].roots)) /\ clean = TRUE

Ent(e) == [kind |-> e.kind, parts |-> e.parts]
Step == /\ tid <= Len(Traces) /\ phase = "step" /\ l <= Len(Events)
        /\ trees' = CASE Ev.op = "mk" -> [trees EXCEPT ![Ev.k] = @ \cup {Ent(Ev)}]
                      [] Ev.op = "rm" -> [trees EXCEPT ![Ev.k] = @ \ {Ent(Ev)}]
                      [] OTHER -> trees
        /\ phase' = "cmp" /\ UNCHANGED <<tid, l, clean>>

Dev(keys) == {"dev:" \o k : k \in keys}
KP(rows) == {<<r.k, r.parts>> : r \in rows}
Count(got, r) == Cardinality({i \in DOMAIN got : got[i].k = r.k /\ got[i].parts = r.parts})
\* observed rows agree with a set of specification rows: same (root, path) set, each as often as the row says
\* (the specification: once), and an admitted dotted path wherever the specification determines it
Agrees(got, rows) ==
  LET g == {got[i] : i \in DOMAIN got} IN
  /\ KP(g) = KP(rows)
  /\ \A r \in rows : Count(got, r) = r.n
  /\ \A x \in g : \A r \in rows : (x.k = r.k /\ x.parts = r.parts /\ r.cmpdot) => x.dot \in r.dots

ScanFailing(e) ==
  LET g == {e.got[i] : i \in DOMAIN e.got}
      exp == Expected(TCfg, Roots, trees, e.sfx)
      hit == {a \in DevAlternatives(TCfg, Roots, trees, e.sfx) : Agrees(e.got, a.rows)}
      dup == Cardinality(KP(g)) # Len(e.got) IN
  IF Agrees(e.got, exp) THEN {}
  ELSE IF hit # {}
       THEN Dev((CHOOSE a \in hit : \A b \in hit : Cardinality(a.keys) <= Cardinality(b.keys)).keys)
       ELSE (IF dup THEN {"returned_twice"} ELSE {})
            \* a file of a directory the configuration does not make a component directory
            \cup (IF \E x \in g : x.k \in DOMAIN Roots /\ x.k \notin Active(TCfg, Roots)
                  THEN {"directory_not_searched"} ELSE {})
            \cup (IF \E k \in Active(TCfg, Roots) : \E r \in exp : r.k = k /\ ~\E x \in g : x.k = k
                  THEN {"searched_directory_missing"} ELSE {})
            \cup (IF KP(g) # KP(exp) THEN {"selection"} ELSE {})
            \cup (IF KP(g) = KP(exp) /\ ~dup /\ ~Agrees(e.got, exp) THEN {"dot_path"} ELSE {})

LoadFailing(e) ==
  LET x == File(e.parts) IN
  IF e.k \in Active(TCfg, Roots) /\ x \in trees[e.k] /\ Selected(x, ".py") /\ Loadable(trees[e.k], x)
  THEN (IF e.dot \in DotPaths(Roots[e.k], x) THEN {} ELSE {"dot_path"})
       \cup (IF e.res = "same" THEN {} ELSE {"import_loads_other_or_fails"})
  ELSE {}

\* autodiscover() is demanded where every selected file is loadable, one dotted path is determined for each
\* (no directory listed through a link) and no named deviation is triggered
AutoOK == /\ DevsFor(TCfg, Roots, trees, ".py") = {}
          /\ \A k \in Active(TCfg, Roots) :
            /\ \A x \in trees[k] : Selected(x, ".py") => Loadable(trees[k], x)
            /\ ~Roots[k].globmeta
            /\ ~AliasListed(Roots[k])
            /\ AppMult(TCfg, Roots[k]) = 1
AutoFailing(e) ==
  LET act == Active(TCfg, Roots)
      want == UNION {{DotPath(Roots[k], x) : x \in {y \in trees[k] : Selected(y, ".py")}} : k \in act}
      wantN == Cardinality(UNION {{<<k, x>> : x \in {y \in trees[k] : Selected(y, ".py")}} : k \in act}) IN
  IF ~AutoOK THEN {"bad_case"} ELSE
  (IF {e.got[i] : i \in DOMAIN e.got} = want /\ Len(e.got) = wantN THEN {} ELSE {"autodiscover_modules"})
  \cup (IF \A i \in DOMAIN e.loaded :
             LET m == e.loaded[i] IN
             /\ m.k \in Active(TCfg, Roots)
             /\ File(m.parts) \in trees[m.k]
             /\ m.dot = DotPath(Roots[m.k], File(m.parts))
        THEN {} ELSE {"autodiscover_loaded_wrong_file"})

Failing(e) ==
  CASE e.op \in {"mk", "rm"} -> {}
    [] e.op = "scan" -> ScanFailing(e)
    [] e.op = "load" -> LoadFailing(e)
    [] e.op = "auto" -> AutoFailing(e)

Cmp == /\ tid <= Len(Traces) /\ phase = "cmp"
       /\ LET f == Failing(Ev) IN
          /\ f # {} => PrintT(<<"REJECT", Traces[tid].id, l, f>>)
          /\ clean' = (clean /\ f = {})
       /\ l' = l + 1 /\ phase' = "step" /\ UNCHANGED <<tid, trees>>

Done == /\ tid <= Len(Traces) /\ phase = "step" /\ l > Len(Events)
        /\ clean => PrintT(<<"ACCEPT", Traces[tid].id>>)
        /\ tid' = tid + 1 /\ l' = 1 /\ phase' = "step" /\ clean' = TRUE
        /\ trees' = IF tid + 1 <= Len(Traces) THEN Empty(Len(Traces[tid + 1].roots)) ELSE <<>>

TrNext == Step \/ Cmp \/ Done
TrSpec == TrInit /\ [][TrNext]_trVars

\* no entry inside a file, no file and directory of the same path (the recorder keeps this)
TreesWellFormed == tid <= Len(Traces) =>
  /\ \A k \in DOMAIN trees : \A a, b \in trees[k] :
       a # b => a.parts # b.parts /\ ~(a.kind = "file" /\ IsPrefix(a.parts, b.parts))
  /\ CfgWellFormed(TCfg, Roots)
=============================================================================
