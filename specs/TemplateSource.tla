---------------------------- MODULE TemplateSource ----------------------------
(***************************************************************************)
(* X06 - which template a component renders (template source resolution).  *)
(* Written from the documentation of django-components, not from the code: *)
(*                                                                         *)
(* [D1] docstrings of Component.template_file / template / get_template /  *)
(*      get_template_name (docs/reference/api.md): "Only one of            *)
(*      template_file, get_template_name, template or get_template must be *)
(*      defined."  CHANGELOG v0.97: "You now must use only one of          *)
(*      template, get_template, template_name, or get_template_name."      *)
(* [D2] concepts/fundamentals/defining_js_css_html_files.md: "You cannot   *)
(*      use both inlined code and separate file for a single language      *)
(*      type: You can only either set Component.template or                *)
(*      Component.template_file".                                          *)
(* [D3] concepts/fundamentals/subclassing_components.md: "If a child       *)
(*      component class defines either member of a pair (e.g., either      *)
(*      template or template_file), it takes precedence and the parent's   *)
(*      definition is ignored completely.  For example, if a child         *)
(*      component defines template_file, the parent's template or          *)
(*      template_file will be ignored." ... "All other attributes and      *)
(*      methods ... follow standard Python inheritance rules."             *)
(* [D4] docstring of template_file: "The filepath must be either:          *)
(*      Relative to the directory where the Component's Python file is     *)
(*      defined.  Relative to one of the component directories, as set by  *)
(*      COMPONENTS.dirs or COMPONENTS.app_dirs.  Relative to the template  *)
(*      directories, as set by Django's TEMPLATES setting."                *)
(*      defining_js_css_html_files.md: "At component class creation,       *)
(*      django-components checks all file paths defined on the component"; *)
(*      "If there's no such file, nothing happens"; "NOTE: In case of      *)
(*      ambiguity, the preference goes to resolving the files relative to  *)
(*      the component's directory."  `template_file = "calendar/t.html"`   *)
(*      (relative to COMPONENTS.dirs) "is the same as writing" the path    *)
(*      relative to the component's directory.                             *)
(* [D5] docstring of template_name: "Alias for template_file".  CHANGELOG  *)
(*      v0.97: get_template "supersedes get_template_string ... is the     *)
(*      same as get_template_string, except it allows to return either a   *)
(*      string or a Template instance."  (spellings, chosen by the harness)*)
(* [D6] docstring of template / get_template: "Inlined Django template     *)
(*      associated with this component.  Can be a plain string or a        *)
(*      Template instance."  get_template_name(context) -> Optional[str]:  *)
(*      "Filepath to the Django template associated with this component.   *)
(*      The filepath must be relative to either the file where the         *)
(*      component class was defined, or one of the roots of                *)
(*      STATIFILES_DIRS" (the legacy source of COMPONENTS.dirs);           *)
(*      overview/installation.md: the loaders of TEMPLATES, including      *)
(*      django_components.template_loader.Loader, "allow Django to load    *)
(*      component HTML files as Django templates".                         *)
(* [D7] settings.md template_cache_size: "Each time a Django template is   *)
(*      rendered, it is cached to a global in-memory cache ... This speeds *)
(*      up the next render of the component ... if you are overriding      *)
(*      Component.get_template() to render many dynamic templates, you can *)
(*      increase this number."  A cache only speeds up: the result equals  *)
(*      that of a fresh compilation (TemplateCache.tla: Transparent).      *)
(*                                                                         *)
(* A case K describes a chain of component classes K1 <- K2 <- ... (single *)
(* inheritance; class i derives from class i-1, class 1 from Component):   *)
(*   lv[i]   what class i defines itself:                                  *)
(*     st   "none" | "inline" (template = str) | "obj" (template =         *)
(*          Template instance) | "file" (template_file / template_name =   *)
(*          fn) | "both" (template and template_file in one class)         *)
(*     fn   the file name of st = "file" / "both" ("-" otherwise)          *)
(*     gtn  <<>> (get_template_name not overridden) or the table of its    *)
(*          return values, indexed by the selector the render passes in    *)
(*          (entry sel+1): "None" or a template name                       *)
(*     gt   <<>> (get_template not overridden) or the table of its return  *)
(*          values: "None" | "s:<x>" (a string) | "o:<x>" (a Template)     *)
(*   dirs[i] the directory d<dirs[i]> (below the COMPONENTS dir) in which   *)
(*          the module of class i lies                                     *)
(* "A source is given" in a render = the attribute pair has a value after   *)
(* inheritance / the method returns non-None for this render's input (the  *)
(* methods are Optional[...] and the defaults return None).                *)
(*                                                                         *)
(* The outcome of rendering class c with selector sel is a SET of admitted  *)
(* source tags (each template text prints its tag), {"error"} when the      *)
(* docs determine a refusal.  Where the docs leave the choice open the set  *)
(* has several members (see FileSources / NameSources).                    *)
(***************************************************************************)
EXTENDS TemplateCache, TLC

CONSTANT MaxLv                  \* classes per chain / component directories d1..d<MaxLv>

Max(S) == CHOOSE x \in S : \A y \in S : x >= y
Pos(s, x) == CHOOSE i \in 1..Len(s) : s[i] = x

(* ---- the world: where a file of a given name exists ---------------------- *)
\* (the harness lays the files out like this; every copy prints its own tag)
Near  == {"near.html", "nearc.html", "neart.html", "inc.html"}  \* next to the module, in EVERY d<i>
InC   == {"nearc.html", "c.html", "ct.html"}                    \* in the root of the COMPONENTS dir
InT   == {"neart.html", "t.html", "ct.html"}                    \* in the TEMPLATES DIRS directory
InMem == {"mem.html", "mem2.html"}                              \* only in the locmem loader
\* "none.html" exists nowhere.
Qual(d) == "d" \o ToString(d) \o "/near.html"    \* d<d>/near.html, written relative to the COMPONENTS dir
NearTag(d, n) == "near:" \o ToString(d) \o ":" \o n
IsQual(n) == \E q \in 1..MaxLv : n = Qual(q)
QualDir(n) == CHOOSE q \in 1..MaxLv : n = Qual(q)

\* [D4] template_file = n defined on a class whose module lies in d<d>.
\* The component's own directory is preferred; between a COMPONENTS dir and a TEMPLATES
\* dir the docs state no order: both admitted.  No file anywhere: {} (-> error).
FileSources(n, d) ==
  IF n \in Near THEN {NearTag(d, n)}
  ELSE IF IsQual(n) THEN {NearTag(QualDir(n), "near.html")}
  ELSE {"cdir:" \o n : x \in (IF n \in InC THEN {1} ELSE {})} \cup
       {"tdir:" \o n : x \in (IF n \in InT THEN {1} ELSE {})}

\* [D6] get_template_name returned n.  The name goes to the template loaders, which the
\* harness configures in the order locmem, filesystem (TEMPLATES DIRS), components loader
\* (COMPONENTS dirs); Django documents that the first loader that has the name wins.
LoaderSources(n) ==
  IF n \in InMem THEN {"mem:" \o n}
  ELSE IF n \in InT THEN {"tdir:" \o n}
  ELSE IF n \in InC THEN {"cdir:" \o n}
  ELSE IF IsQual(n) THEN {NearTag(QualDir(n), "near.html")}
  ELSE {}
\* ... and the docstring also admits a path relative to "the file where the component
\* class was defined" (g: the class that defines the method, c: the class rendered -
\* the docs do not say which of the two, and no order against the loaders).
NameSources(K, c, g, n) ==
  LoaderSources(n) \cup (IF n \in Near THEN {NearTag(K.dirs[g], n), NearTag(K.dirs[c], n)} ELSE {})

(* ---- which definitions reach class c -------------------------------------- *)
Depth(K) == Len(K.lv)
Nearest(K, c, P(_)) == LET S == {i \in 1..c : P(K.lv[i])} IN IF S = {} THEN 0 ELSE Max(S)
StaticLevel(K, c) == Nearest(K, c, LAMBDA l : l.st # "none")    \* [D3] the pair rule
GtnLevel(K, c)    == Nearest(K, c, LAMBDA l : l.gtn # <<>>)     \* [D3] Python inheritance
GtLevel(K, c)     == Nearest(K, c, LAMBDA l : l.gt # <<>>)

Rejected(K, c) == \E i \in 1..c : K.lv[i].st = "both"           \* [D2]

GtnRet(K, c, sel) == IF GtnLevel(K, c) = 0 THEN "None" ELSE K.lv[GtnLevel(K, c)].gtn[sel + 1]
GtRet(K, c, sel)  == IF GtLevel(K, c) = 0 THEN "None" ELSE K.lv[GtLevel(K, c)].gt[sel + 1]

Given(K, c, sel) ==
  (IF StaticLevel(K, c) # 0 THEN {"static"} ELSE {}) \cup
  (IF GtnRet(K, c, sel) # "None" THEN {"gtn"} ELSE {}) \cup
  (IF GtRet(K, c, sel) # "None" THEN {"gt"} ELSE {})

StrRets == {"s:a", "s:b", "s:x"}
\* "s:x" / "o:x" stand for one text shared by every class that returns it
GtTag(g, r) == IF r \in {"s:x", "o:x"} THEN "gt" \o r ELSE "gt" \o r \o ":" \o ToString(g)

StaticSources(K, c) ==
  LET s == StaticLevel(K, c) l == K.lv[s] IN
  CASE l.st = "inline" -> {"inl:" \o ToString(s)}
    [] l.st = "obj"    -> {"ino:" \o ToString(s)}
    [] l.st = "file"   -> FileSources(l.fn, K.dirs[s])

\* [D1] exactly one source must be given; it is the template that renders.
Outcome(K, c, sel) ==
  IF Rejected(K, c) THEN {"error"}
  ELSE LET G == Given(K, c, sel) IN
       IF Cardinality(G) # 1 THEN {"error"}
       ELSE LET S == CASE G = {"static"} -> StaticSources(K, c)
                       [] G = {"gtn"}    -> NameSources(K, c, GtnLevel(K, c), GtnRet(K, c, sel))
                       [] G = {"gt"}     -> {GtTag(GtLevel(K, c), GtRet(K, c, sel))}
            IN IF S = {} THEN {"error"} ELSE S

\* [D7] the sources that are strings compiled through the template cache
ViaCache(K, c, sel) ==
  LET G == Given(K, c, sel) IN
  \/ G = {"static"} /\ K.lv[StaticLevel(K, c)].st \in {"inline", "file"}
  \/ G = {"gt"} /\ GtRet(K, c, sel) \in StrRets

(* ---- what the documentation implies about Outcome (checked by TLC) --------- *)
NSel(K) == LET S == {Len(K.lv[i].gtn) : i \in 1..Depth(K)} \cup {Len(K.lv[i].gt) : i \in 1..Depth(K)}
           IN Max(S \cup {1})
Renders(K) == {<<c, s>> : c \in 1..Depth(K), s \in 0..(NSel(K) - 1)}

\* a render shows one admitted template or is refused, never both
Decided(K) == \A r \in Renders(K) : LET O == Outcome(K, r[1], r[2]) IN
                 O # {} /\ ("error" \in O => O = {"error"})
\* [D1] two given sources are refused, none as well
OnlyOne(K) == \A r \in Renders(K) : Cardinality(Given(K, r[1], r[2])) # 1 => Outcome(K, r[1], r[2]) = {"error"}
\* [D3] below the class that defines the pair, the pair definitions of the parents are irrelevant
Blank(K, j) == [K EXCEPT !.lv[j].st = "none", !.lv[j].fn = "-"]
ParentIgnored(K) ==
  \A r \in Renders(K) : \A j \in 1..(StaticLevel(K, r[1]) - 1) :
      K.lv[j].st # "both" => Outcome(Blank(K, j), r[1], r[2]) = Outcome(K, r[1], r[2])
\* [D3] a subclass that defines nothing (in the same directory) renders like its parent
Empty(l) == l.st = "none" /\ l.gtn = <<>> /\ l.gt = <<>>
EmptySubclassSame(K) ==
  \A r \in Renders(K) : (r[1] > 1 /\ Empty(K.lv[r[1]]) /\ K.dirs[r[1]] = K.dirs[r[1] - 1])
      => Outcome(K, r[1], r[2]) = Outcome(K, r[1] - 1, r[2])

(* ---- the machine: renders and cache clears in any order --------------------- *)
\* kase: the chain; hist: what was done, with the admitted outcomes; shown: the tag the last
\* render displayed - for a string source, the tag of the text the Template object that the
\* cache handed out was compiled from (keytab numbers the texts, made/got are TemplateCache's).
VARIABLES kase, hist, shown, keytab
tsVars == <<order, val, ret, made, got, req, cls, kase, hist, shown, keytab>>

TSInit(K) == TCInit /\ kase = K /\ hist = <<>> /\ shown = "-" /\ keytab = <<>>

RenderAs(c, sel, o) ==      \* o: the admitted outcome taken
  LET O == Outcome(kase, c, sel) IN
  /\ hist' = Append(hist, [op |-> "render", c |-> c, sel |-> sel, exp |-> O])
  /\ UNCHANGED kase
  /\ IF o # "error" /\ ViaCache(kase, c, sel)
     THEN LET kt == IF o \in Range(keytab) THEN keytab ELSE Append(keytab, o) IN
          /\ keytab' = kt
          /\ Compile(Pos(kt, o))
          /\ shown' = kt[made'[got']]
     ELSE /\ shown' = o
          /\ UNCHANGED <<order, val, ret, made, got, req, cls, keytab>>

Render(c, sel) == \E o \in Outcome(kase, c, sel) : RenderAs(c, sel, o)

ClearTemplates ==
  /\ ClearCache
  /\ hist' = Append(hist, [op |-> "clear", c |-> 0, sel |-> 0, exp |-> {}])
  /\ UNCHANGED <<kase, shown, keytab>>

\* Whatever was rendered or cleared before, with whatever cache size: a render shows a
\* template admitted for THIS class and THIS input (no leak from earlier renders, the
\* cache is transparent).
NoLeak == (hist # <<>> /\ hist[Len(hist)].op = "render") => shown \in hist[Len(hist)].exp
KaseOK == Decided(kase) /\ OnlyOne(kase) /\ ParentIgnored(kase) /\ EmptySubclassSame(kase)
=============================================================================
