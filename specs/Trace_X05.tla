------------------------------ MODULE Trace_X05 ------------------------------
(***************************************************************************)
(* Trace validation (code -> spec) for the management commands.  IOEnv.IN  *)
(* names an ndjson file; each line is one recorded session in a fresh      *)
(* world (see MgmtCommands): events                                        *)
(*   mkdir / write / rm  the user (harness) created a directory, wrote a   *)
(*            file (c = its template content as symbols) or removed one    *)
(*   start    `startcomponent` ran with invocation inv: res = "ok" |       *)
(*            "error" (CommandError) | "crash:<exception>"; afterwards     *)
(*            files = every file below the root with changed = its bytes   *)
(*            differ from before / it is new, and for changed files what   *)
(*            the harness read from them (reg, tpl, js, css of a python    *)
(*            module, tplok = compiles as a Django template); dirs = every *)
(*            directory                                                    *)
(*   upgrade  `upgradecomponent` ran with invocation u: files = every file *)
(*            with same = bytes unchanged and, for user files, c = the     *)
(*            symbols projected from its bytes                             *)
(* The specification state is the file system (fs, dirs).  Every event     *)
(* must be one of the outcomes MgmtCommands admits.  An event that is not  *)
(* admitted but equals what the named deviations predict is reported as    *)
(* "dev:<key>" and the session continues from the observed state; any      *)
(* other failing event ends the session.  One ACCEPT line per session      *)
(* without any failing event, REJECT lines otherwise.                      *)
(***************************************************************************)
EXTENDS MgmtCommands, TLC, Json, IOUtils

Traces == ndJsonDeserialize(IOEnv.IN)

VARIABLES tid, l, fs, dirs, clean
trVars == <<tid, l, fs, dirs, clean>>

Events == Traces[tid].events
Ev == Events[l]

TrInit == tid = 1 /\ l = 1 /\ fs = <<>> /\ dirs = PresetDirs /\ clean = TRUE

Rng(q) == {q[j] : j \in DOMAIN q}
ObsPaths(e) == {f.path : f \in Rng(e.files)}
ObsDirs(e) == Rng(e.dirs)
ObsFile(e, p) == CHOOSE f \in Rng(e.files) : f.path = p
Dev(keys) == {"dev:" \o k : k \in keys}
Parent(p) == SubSeq(p, 1, Len(p) - 1)

(* ---- startcomponent ---------------------------------------------------- *)
StartClauses(o, e) ==
  (IF e.res # o.res THEN {"result"} ELSE {})
  \cup (IF ObsPaths(e) # DOMAIN o.fs THEN {"file_set"} ELSE {})
  \cup (IF ObsDirs(e) # o.dirs THEN {"dir_set"} ELSE {})
  \cup (IF {f.path : f \in {g \in Rng(e.files) : g.changed}} # o.written THEN {"written_set"} ELSE {})
  \cup (IF \E f \in Rng(e.files) : /\ f.changed /\ f.path \in o.written
                                   /\ o.fs[f.path].role = "py"
                                   /\ <<f.reg, f.tpl, f.js, f.css>> #
                                      <<o.fs[f.path].reg, o.fs[f.path].tpl, o.fs[f.path].js, o.fs[f.path].css>>
        THEN {"py_module"} ELSE {})
  \cup (IF \E f \in Rng(e.files) : f.changed /\ f.path \in o.written /\ o.fs[f.path].role = "tpl" /\ ~f.tplok
        THEN {"template_invalid"} ELSE {})

StartGood(e) == {o \in Start(fs, dirs, e.inv) : StartClauses(o, e) = {}}
StartDevPairs(e) == UNION {{[keys |-> a.keys, o |-> o] : o \in a.admitted} : a \in StartDevAlts(fs, dirs, e.inv)}
StartDevOK(e) == {x \in StartDevPairs(e) : StartClauses(x.o, e) = {}}
StartFailing(e) ==
  IF StartGood(e) # {} THEN {}
  ELSE IF StartDevOK(e) # {} THEN UNION {Dev(x.keys) : x \in StartDevOK(e)}
  ELSE StartClauses(CHOOSE o \in Start(fs, dirs, e.inv) : TRUE, e)
StartAfter(e) == IF StartGood(e) # {} THEN CHOOSE o \in StartGood(e) : TRUE
                 ELSE (CHOOSE x \in StartDevOK(e) : TRUE).o

(* ---- upgradecomponent --------------------------------------------------- *)
Reach(p, u) == Searched(p, u) \/ MaybeSearched(p, u)
Matching(f, u) == {a \in AdmittedAfter(f.path, fs[f.path], u) :
                     IF a.by = "user" THEN Agrees(f.c, a.c) /\ (a.c = fs[f.path].c => f.same) ELSE f.same}
Unspecified(f, u) == fs[f.path].by = "user" /\ ~Determined(fs[f.path].c) /\ Reach(f.path, u)
FileDevs(f, u) == IF fs[f.path].by = "user" /\ Reach(f.path, u)
                  THEN {a \in DevAlts(fs[f.path].c) : Agrees(f.c, a.out)} ELSE {}
FileFailing(f, u) ==
  IF Unspecified(f, u) \/ Matching(f, u) # {} THEN {}
  ELSE IF FileDevs(f, u) # {}
       THEN Dev((CHOOSE a \in FileDevs(f, u) : \A b \in FileDevs(f, u) : Cardinality(a.keys) <= Cardinality(b.keys)).keys)
       ELSE {"content"}
UpgradeFailing(e) ==
  (IF e.res # "ok" THEN {"result"} ELSE {})
  \cup (IF ObsPaths(e) # DOMAIN fs THEN {"file_set"} ELSE {})
  \cup (IF ObsDirs(e) # dirs THEN {"dir_set"} ELSE {})
  \cup (IF ObsPaths(e) = DOMAIN fs THEN UNION {FileFailing(f, e.u) : f \in Rng(e.files)} ELSE {})
ContentAfter(f, u) == IF ~Unspecified(f, u) /\ Matching(f, u) # {}
                      THEN (CHOOSE a \in Matching(f, u) : TRUE).c ELSE f.c
UpgradeAfter(e) == [p \in DOMAIN fs |-> IF fs[p].by = "user"
                                        THEN [fs[p] EXCEPT !.c = ContentAfter(ObsFile(e, p), e.u)] ELSE fs[p]]

(* ---- the machine -------------------------------------------------------- *)
Failing(e) == CASE e.op = "start" -> StartFailing(e)
                [] e.op = "upgrade" -> UpgradeFailing(e)
                [] OTHER -> {}
OnlyDevs(F) == \A c \in F : SubSeq(c, 1, 4) = "dev:"

Apply(e) ==
  CASE e.op = "mkdir" -> fs' = fs /\ dirs' = dirs \cup Ancestors(e.path)
    [] e.op = "write" -> /\ fs' = [p \in DOMAIN fs \cup {e.path} |-> IF p = e.path THEN User(e.c) ELSE fs[p]]
                         /\ dirs' = dirs \cup Ancestors(Parent(e.path))
    [] e.op = "rm"    -> fs' = [p \in DOMAIN fs \ {e.path} |-> fs[p]] /\ dirs' = dirs
    [] e.op = "start" -> fs' = StartAfter(e).fs /\ dirs' = StartAfter(e).dirs
    [] e.op = "upgrade" -> fs' = UpgradeAfter(e) /\ dirs' = dirs

NextTrace == tid' = tid + 1 /\ l' = 1 /\ fs' = <<>> /\ dirs' = PresetDirs /\ clean' = TRUE

Step == /\ tid <= Len(Traces) /\ l <= Len(Events)
        /\ LET F == Failing(Ev) IN
           IF F = {} THEN Apply(Ev) /\ l' = l + 1 /\ UNCHANGED <<tid, clean>>
           ELSE /\ PrintT(<<"REJECT", Traces[tid].id, l, F>>)
                /\ IF OnlyDevs(F) THEN Apply(Ev) /\ l' = l + 1 /\ clean' = FALSE /\ UNCHANGED tid
                   ELSE NextTrace

Done == /\ tid <= Len(Traces) /\ l > Len(Events)
        /\ clean => PrintT(<<"ACCEPT", Traces[tid].id>>)
        /\ NextTrace

TrNext == Step \/ Done
TrSpec == TrInit /\ [][TrNext]_trVars

\* the recorder keeps the world well formed: files lie in directories, no path is both
WorldWellFormed == tid <= Len(Traces) =>
  /\ \A p \in DOMAIN fs : Ancestors(Parent(p)) \subseteq dirs
  /\ DOMAIN fs \cap dirs = {}
=============================================================================
