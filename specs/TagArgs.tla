------------------------------ MODULE TagArgs ------------------------------
(***************************************************************************)
(* Arguments of a django-components template tag (properties C02, C12).    *)
(*                                                                         *)
(* Written from the property text, docs/concepts/fundamentals/             *)
(* template_tag_syntax.md, the "Supported syntax / Invalid syntax" lists   *)
(* of parse_tag()'s docstring and the v0.125 changelog.  Defined here:      *)
(*   - the abstract syntax of an argument list (records, see constructors) *)
(*   - Denote(args): what the Python receiver must get (args, kwargs,      *)
(*     flags) - Python/JSON semantics of list/dict literals, splicing of   *)
(*     * / ** / ... spreads, aggregation of prefix:key=value.  Leaves      *)
(*     (variables, literals, filter chains) are NOT interpreted here:      *)
(*     they denote "whatever the canonical text means in a stock Django    *)
(*     {{ }} expression"; Denote returns that canonical text and the       *)
(*     harness evaluates it with django.template.base.FilterExpression.    *)
(*   - Text(args, style): the layout relation - the concrete symbol        *)
(*     sequence of `args` under a layout `style` (quote kind, whitespace   *)
(*     at each kind of point where it is insignificant, trailing commas,   *)
(*     self-closing slash).  Denote does not take a style: layout          *)
(*     invariance holds by construction; MC_C02!SkeletonInvariant states   *)
(*     that two layouts differ in insignificant symbols only.              *)
(*   - Invalid(args): the documented invalid combinations (expected        *)
(*     outcome: TemplateSyntaxError); Outcomes(args, style): the           *)
(*     admissible outcomes (a set where the documentation is silent).      *)
(*   - Paths / PathApplies: the receivers the values are observed at.      *)
(*   - Devs(args): named deviations of the code under test (known          *)
(*     findings): what it is known to do instead on specific shapes.       *)
(*   - Serial(args, style): canonical serialisation (C12 round trip);      *)
(*     TagAlphabet / TplAlphabet / ParseOutcomes / Mutated: the raw input  *)
(*     space of C12.                                                       *)
(* TLC cannot take Head/Tail of strings, so a text is a sequence of        *)
(* symbols (strings) that the harness joins.                               *)
(***************************************************************************)
EXTENDS Naturals, Sequences, FiniteSets, TLC

(* ------------------------------ abstract syntax ----------------------- *)
\* leaves
Var(n)      == [t |-> "var", n |-> n]                 \* context variable (dotted lookups allowed in n)
Num(n)      == [t |-> "num", n |-> n]                 \* numeric literal, n is its text
Str(id)     == [t |-> "str", id |-> id]               \* quoted string, content StrTab[id]
Trans(id)   == [t |-> "trans", id |-> id]             \* _("...") translation string
Tpl(id)     == [t |-> "tpl", id |-> id]               \* quoted string with nested {{ }} {% %} {# #}: TplTab[id]
Fl(name)    == [n |-> name, a |-> <<>>]               \* |name
FlA(name, arg) == [n |-> name, a |-> <<arg>>]         \* |name:arg
Filt(b, fs) == [t |-> "filt", b |-> b, fs |-> fs]     \* leaf b followed by the filters fs
BadFilt(b, tok, name) == [t |-> "badfilt", b |-> b, tok |-> tok, n |-> name]   \* val|...filter (invalid)
\* containers
List(items) == [t |-> "list", items |-> items]        \* items: values or Spread
Dict(items) == [t |-> "dict", items |-> items]        \* items: Pair or Spread
Spread(tok, v) == [t |-> "spread", tok |-> tok, v |-> v]   \* tok: "...", "*", "**"
Pair(k, v)  == [t |-> "pair", k |-> k, v |-> v]
\* arguments (a top-level spread is Spread("...", v))
Pos(v)      == [t |-> "pos", v |-> v]
Kw(key, v)  == [t |-> "kw", key |-> key, v |-> v]
Agg(pre, key, v) == [t |-> "agg", pre |-> pre, key |-> key, v |-> v]      \* pre:key=v
Flag(n)     == [t |-> "flag", n |-> n]
KwSpread(key, tok, v) == [t |-> "kwspread", key |-> key, tok |-> tok, v |-> v]   \* key=...v (invalid)

LeafKinds == {"var", "num", "str", "trans", "tpl", "filt", "badfilt"}
IsLeaf(v) == v.t \in LeafKinds

(* ------------------------------ string tables ------------------------- *)
\* Content of string literal id when written in double / single quotes (the quote of the
\* same kind inside is escaped with a backslash, as in a stock Django string literal).
StrTab == <<
  [dq |-> "ab c",                    sq |-> "ab c"],
  [dq |-> "a %} , : ] } | = 'q",     sq |-> "a %} , : ] } | = \\'q"],
  [dq |-> "it\\\"s [1, 2]",          sq |-> "it\"s [1, 2]"],
  [dq |-> "k",                       sq |-> "k"],
  [dq |-> "k 2",                     sq |-> "k 2"],
  [dq |-> "",                        sq |-> ""],
  [dq |-> "...x **y *z _(",          sq |-> "...x **y *z _("],
  [dq |-> "{ 'a': 1 }",              sq |-> "{ \\'a\\': 1 }"],
  [dq |-> ":1",                      sq |-> ":1"],
  [dq |-> "R&D <i>\\\"it's\\\"</i>",   sq |-> "R&D <i>\"it\\'s\"</i>"] >>

\* Strings with nested template syntax.  q: the quote they are written in (escapes inside
\* nested templates are not specified, so the quote kind is fixed per entry); c: content;
\* single: the content is exactly one {{ }} tag, whose expression is `inner` - then the value
\* keeps its type (docs: "Passing data as string vs original values"); otherwise the string
\* is rendered as a stock Django template and the value is that text.
TplTab == <<
  [q |-> "\"", c |-> "{{ x }}",                          single |-> TRUE,  inner |-> <<"x">>],
  [q |-> "'",  c |-> " {{ x }} ",                        single |-> FALSE, inner |-> <<>>],
  [q |-> "\"", c |-> "{{ x }} and {{ s|default:'z' }}",  single |-> FALSE, inner |-> <<>>],
  [q |-> "\"", c |-> "{% firstof s %}",                  single |-> FALSE, inner |-> <<>>],
  [q |-> "'",  c |-> "a {# c #}b",                       single |-> FALSE, inner |-> <<>>],
  [q |-> "'",  c |-> "{{ xs|first }}",                   single |-> TRUE,  inner |-> <<"xs|first">>],
  [q |-> "\"", c |-> "{{ s }}",                          single |-> TRUE,  inner |-> <<"s">>],
  [q |-> "\"", c |-> "{% if x %}[{{ x }}, 2]{% endif %}", single |-> FALSE, inner |-> <<>>],
  \* 9.. : over the value-sensitive part of Ctx (None / falsy values, HTML-special characters).
  \* A single {{ }} tag hands over the ORIGINAL value - no stringification, no escaping; anything
  \* else is the text a stock template renders (there autoescaping applies as in stock Django).
  [q |-> "\"", c |-> "{{ amp }}",                        single |-> TRUE,  inner |-> <<"amp">>],
  [q |-> "'",  c |-> "{{ h }}",                          single |-> TRUE,  inner |-> <<"h">>],
  [q |-> "\"", c |-> "{{ nn }}",                         single |-> TRUE,  inner |-> <<"nn">>],
  [q |-> "\"", c |-> "{{ h|upper }}",                    single |-> TRUE,  inner |-> <<"h|upper">>],
  [q |-> "'",  c |-> "{{ hs|first }}",                   single |-> TRUE,  inner |-> <<"hs|first">>],
  [q |-> "\"", c |-> "{{ amp }}!",                       single |-> FALSE, inner |-> <<>>],
  [q |-> "\"", c |-> "{{ sf }}",                         single |-> TRUE,  inner |-> <<"sf">>],
  [q |-> "\"", c |-> "{{ hs }}",                         single |-> TRUE,  inner |-> <<"hs">>],
  [q |-> "'",  c |-> "{{ dn }}",                         single |-> TRUE,  inner |-> <<"dn">>],
  [q |-> "\"", c |-> "{{ dh }}",                         single |-> TRUE,  inner |-> <<"dh">>],
  [q |-> "\"", c |-> "{{ nn }}{{ f }}",                  single |-> FALSE, inner |-> <<>>],
  [q |-> "'",  c |-> "{% firstof nn h %}",               single |-> FALSE, inner |-> <<>>],
  [q |-> "\"", c |-> "{{ z }}",                          single |-> TRUE,  inner |-> <<"z">>],
  [q |-> "\"", c |-> "{{ es }}",                         single |-> TRUE,  inner |-> <<"es">>],
  \* 23.. : filters and tags of the libraries in Loaded.  A nested string is a template at the place
  \* of the tag: what {% load %} made available there is available inside it, with the stock meaning.
  [q |-> "\"", c |-> "{{ amp|vfwrap }}",                 single |-> TRUE,  inner |-> <<"amp|vfwrap">>],
  [q |-> "'",  c |-> "{{ x|vfwrap:s }} {{ x|unlocalize }}", single |-> FALSE, inner |-> <<>>],
  [q |-> "\"", c |-> "{% vfjoin x 'a&b' s %}",           single |-> FALSE, inner |-> <<>>],
  [q |-> "\"", c |-> "{% trans 'k 2' %}",                single |-> FALSE, inner |-> <<>>],
  [q |-> "'",  c |-> "{{ x|unlocalize }}",               single |-> TRUE,  inner |-> <<"x|unlocalize">>],
  [q |-> "\"", c |-> "{% vfjoin it %}/{% trans 'k' %}",  single |-> FALSE, inner |-> <<>>],
  \* 29.. : single-tag strings whose value is a container that is no list / no dict (SeqKinds / MapKinds)
  [q |-> "\"", c |-> "{{ tp }}",                         single |-> TRUE,  inner |-> <<"tp">>],
  [q |-> "'",  c |-> "{{ mp }}",                         single |-> TRUE,  inner |-> <<"mp">>],
  \* 31.. : strings that hold a STATEFUL stock tag (StatefulTpl): what such a tag renders depends on how often
  \* THIS tag has been rendered before in the current render of the template ({% cycle %}: the next of its
  \* values, starting with the first in every render; {% ifchanged %}: its content the first time and whenever
  \* it changed since the last time).  The state belongs to the one tag that is written there.
  [q |-> "\"", c |-> "{% cycle 'odd' 'even' %}",         single |-> FALSE, inner |-> <<>>],
  [q |-> "\"", c |-> "{% cycle x s 'c' %}",              single |-> FALSE, inner |-> <<>>],
  [q |-> "\"", c |-> "{% ifchanged %}{{ s }}{% endifchanged %}", single |-> FALSE, inner |-> <<>>],
  [q |-> "\"", c |-> "<{% cycle 'a' 'b' 'c' %}>{% ifchanged x %}n{% else %}o{% endifchanged %}", single |-> FALSE, inner |-> <<>>] >>
\* Entries whose value depends on the number of the evaluation within one render.  Leaf gives them the
\* result [t |-> "nthrender", e |-> <<source>>]: in the j-th evaluation of the django-components tag that
\* holds the string (j-th iteration of the loop the tag stands in; j = 1 without a loop) in one render, the
\* text that the string - as a stock Django template at the place of the tag - renders the j-th time it is
\* rendered in one render ({% for %}<the string>{% endfor %} in a stock template).
StatefulTpl == 31..34

\* Template-tag libraries that a {% load %} in front of the tag has made available where every
\* generated tag stands (the harness registers "vf_c02_ext": filter vfwrap[:arg], simple tag vfjoin;
\* i18n and l10n are Django's).  Leaves and nested strings may use their filters and tags and mean
\* what they mean in a stock Django template after the same {% load %}.
Loaded == <<"vf_c02_ext", "i18n", "l10n">>

(* ------------------------------ context ------------------------------- *)
\* Values are tagged: int i, str s, none, bool b, safe s (a str marked safe for HTML output - top
\* level of Ctx only), list items, dict items (sequence of [k, v] in insertion order).
I(n)  == [t |-> "int", i |-> n]
St(s) == [t |-> "str", s |-> s]
Nil   == [t |-> "none"]
B(b)  == [t |-> "bool", b |-> b]
Sf(s) == [t |-> "safe", s |-> s]
L(xs) == [t |-> "list", items |-> xs]
D(es) == [t |-> "dict", items |-> es]
E(k, v) == [k |-> k, v |-> v]
\* Python TYPES of container values.  What a spread does with its operand is decided by what the
\* value IS in Python terms, never by its concrete class (Python: f(*it), f(**m), [*it], {**m}; the
\* v0.125 changelog: "Spreading args and kwargs with `...`: {% my_tag ...args ...kwargs / %}"):
\*   a MAPPING (collections.abc.Mapping - dict, subclasses of dict such as OrderedDict, and the
\*   mappings that are no dict: types.MappingProxyType, collections.ChainMap, collections.UserDict)
\*   gives its entries: keyword arguments for a top-level `...m`, entries of the literal for `{**m}`;
\*   any OTHER ITERABLE (list, tuple, range, the keys() view of a dict) gives its items: positional
\*   arguments for a top-level `...it`, items of the literal for `[*it]`.
\* A value of kind k is [t |-> k, items |-> ..]: the items in iteration order, or the entries E(k, v).
\* Not spread, such a value is handed over as the object it is (a leaf like any other).
SeqKinds == {"list", "tuple", "range", "keys"}                      \* iterables that are no mapping
MapKinds == {"dict", "odict", "mproxy", "chainmap", "userdict"}     \* mappings
Tup(xs) == [t |-> "tuple", items |-> xs]       \* tuple(xs)
Rng(xs) == [t |-> "range", items |-> xs]       \* range(a, b): xs are the consecutive ints a .. b-1
Kys(xs) == [t |-> "keys", items |-> xs]        \* {x: .. for x in xs}.keys()
OD(es)  == [t |-> "odict", items |-> es]       \* collections.OrderedDict (a dict subclass)
MP(es)  == [t |-> "mproxy", items |-> es]      \* types.MappingProxyType({..})
CM(es)  == [t |-> "chainmap", items |-> es]    \* collections.ChainMap({first entry}, {the others})
UD(es)  == [t |-> "userdict", items |-> es]    \* collections.UserDict({..})

\* The context every generated tag is rendered with (exported to the harness, which builds
\* the Python context from it).
Ctx == [x    |-> I(7),
        s    |-> St("he llo"),
        xs   |-> L(<<I(1), St("b")>>),
        ys   |-> L(<<L(<<I(3)>>), St("c d")>>),
        e0   |-> L(<<>>),
        d    |-> D(<<E(St("k1"), I(1)), E(St("k-2"), St("v"))>>),
        d2   |-> D(<<E(St("@m.n"), L(<<I(2)>>)), E(St("z"), I(0))>>),
        only |-> I(5),
        o    |-> D(<<E(St("p"), D(<<E(St("q"), I(9))>>))>>),
        \* The property quantifies over ALL context values: the part below makes the values that
        \* code likes to confuse with "nothing" (None, False, 0, "", missing) and text holding the
        \* HTML-special characters & < > ' " available in every argument position - as a value,
        \* as a dict key, as an item / key / value that comes out of a spread.
        nn   |-> Nil,
        f    |-> B(FALSE),
        z    |-> I(0),
        es   |-> St(""),
        amp  |-> St("Tom & Jerry"),
        h    |-> St("<b class=\"x\">it's</b>"),
        sf   |-> Sf("<i>R&amp;D</i>"),
        hs   |-> L(<<St("x&y"), Nil, St("<"), I(0)>>),
        dn   |-> D(<<E(Nil, St("a&b")), E(St("<k>"), Nil), E(I(0), B(FALSE)), E(St(""), St("'"))>>),
        dh   |-> D(<<E(St("t"), St("R&D")), E(St("u"), Nil), E(St("a&b"), St("")), E(St("<w>"), I(0)),
                     E(St("it's"), B(FALSE))>>),
        \* Containers by Python type (SeqKinds / MapKinds): iterables that are no list, mappings that
        \* are no dict - as a value, and as the operand of every spread.  tp rg ks et: iterables;
        \* mp cm ud od em: mappings whose keys are str (may become keyword arguments); mn: a mapping
        \* with None / 0 / "" / text keys (operand of ** in a dict literal only).
        tp   |-> Tup(<<I(1), St("t&u"), Nil>>),
        rg   |-> Rng(<<I(2), I(3), I(4)>>),
        ks   |-> Kys(<<St("ka"), I(0), Nil>>),
        et   |-> Tup(<<>>),
        mp   |-> MP(<<E(St("m1"), I(1)), E(St("m-2"), St("v&w"))>>),
        cm   |-> CM(<<E(St("c1"), Nil), E(St("@c.2"), I(0))>>),
        ud   |-> UD(<<E(St("u1"), St("")), E(St("u_2"), L(<<I(2)>>))>>),
        od   |-> OD(<<E(St("o1"), I(3)), E(St("o-2"), B(FALSE))>>),
        em   |-> MP(<<>>),
        mn   |-> MP(<<E(Nil, St("a")), E(I(0), Nil), E(St(""), St("<"))>>),
        \* loop variable and the sequence it runs over (see LoopCtx)
        it   |-> St("0"),
        its  |-> L(<<St("1"), St("2")>>)]
\* A compiled template is rendered many times: the same tag must hand over what its arguments
\* denote in EACH context it is rendered with.  Ctx2 is a second context for the same templates:
\* every variable has another value (of the same kind: int/str/.. may change, an iterable stays an
\* iterable and a mapping a mapping - the Python type may be another one of SeqKinds / MapKinds -, the
\* str-keyed mappings stay str-keyed), None and the falsy values sit elsewhere.
Ctx2 == [x    |-> I(8),
         s    |-> St("wo rld"),
         xs   |-> L(<<St("c"), I(2), I(3)>>),
         ys   |-> L(<<L(<<I(4)>>), St("e f"), I(5)>>),
         e0   |-> L(<<I(6)>>),
         d    |-> D(<<E(St("k1"), I(2)), E(St("k3"), St("w"))>>),
         d2   |-> D(<<E(St("@m.n"), L(<<I(3)>>)), E(St("y"), I(1))>>),
         only |-> I(6),
         o    |-> D(<<E(St("p"), D(<<E(St("q"), I(10))>>))>>),
         nn   |-> St("not none"),
         f    |-> B(TRUE),
         z    |-> I(5),
         es   |-> St("e"),
         amp  |-> St("Q&A <2>"),
         h    |-> St("<i>'x'</i>"),
         sf   |-> Sf("<u>&lt;</u>"),
         hs   |-> L(<<St(">"), I(1), Nil>>),
         dn   |-> D(<<E(St("n"), Nil), E(Nil, St("<")), E(I(1), B(TRUE))>>),
         dh   |-> D(<<E(St("t"), St("x<y")), E(St("u"), I(0)), E(St("a&b"), Nil), E(St("v&w"), St("'"))>>),
         tp   |-> Kys(<<St("c"), I(2)>>),
         rg   |-> Tup(<<St("r")>>),
         ks   |-> Rng(<<I(0), I(1)>>),
         et   |-> Rng(<<I(6)>>),
         mp   |-> UD(<<E(St("m1"), I(2)), E(St("m3"), Nil)>>),
         cm   |-> OD(<<E(St("c1"), St("x<y")), E(St("c3"), I(0)), E(St("c-4"), I(4))>>),
         ud   |-> MP(<<E(St("u1"), I(0))>>),
         od   |-> CM(<<E(St("o1"), Nil), E(St("o3"), St("'")), E(St("o-4"), I(4))>>),
         em   |-> UD(<<E(St("e1"), I(1))>>),
         mn   |-> CM(<<E(St("n"), Nil), E(Nil, St("<")), E(I(1), B(TRUE))>>),
         it   |-> St("9"),
         its  |-> L(<<St("3"), St("4")>>)]
Ctxs == <<Ctx, Ctx2>>
\* {% for it in its %} TAG {% endfor %}: the tag is evaluated once per item, in the context where
\* the loop variable is bound to that item.
LoopVar == "it"
LoopOver == "its"
LoopCtx(c, i) == [c EXCEPT !.it = c.its.items[i]]
LoopCtxs == [k \in 1..Len(Ctxs) |-> [i \in 1..Len(Ctxs[k].its.items) |-> LoopCtx(Ctxs[k], i)]]
CtxsOK == /\ DOMAIN Ctx2 = DOMAIN Ctx
          /\ SeqKinds \cap MapKinds = {}
          /\ \A n \in DOMAIN Ctx : /\ Ctx2[n] # Ctx[n]
                                   /\ (Ctx[n].t \in SeqKinds) = (Ctx2[n].t \in SeqKinds)
                                   /\ (Ctx[n].t \in MapKinds) = (Ctx2[n].t \in MapKinds)
                                   \* the plain ones keep their class (the finding keys are stated for them)
                                   /\ Ctx[n].t \in {"list", "dict"} => Ctx2[n].t = Ctx[n].t
          \* a range holds consecutive ints
          /\ \A c \in {Ctx, Ctx2} : \A n \in DOMAIN c :
                c[n].t = "range" => \A i \in 1..Len(c[n].items) : c[n].items[i] = I(c[n].items[1].i + i - 1)
\* `None`, `True` and `False` are written like variables and mean the Python constants in a stock
\* Django expression (as every leaf they are valued by stock Django): Var("None"), Var("False").

(* ------------------------------ layout -------------------------------- *)
\* A style fixes the insignificant choices.  Whitespace fields are "" or a non-empty
\* whitespace string; sep is non-empty.
\*   sep   between arguments               padl/padr  extra whitespace at the tag's ends
\*   wo    after [ {        wc  before ] }     wbc before ,      wac after ,
\*   wbk   before dict :    wak after dict :   wbp before |      wap after |
\*   wbf   before filter :  waf after filter : wst after * / ** (in containers)
\*   wtr   inside _( )      trail: trailing comma   q: "dq"/"sq"   slash: self-closing
W(x) == IF x = "" THEN <<>> ELSE <<x>>
Q(st) == IF st.q = "dq" THEN "\"" ELSE "'"
StrSyms(id, st) == <<Q(st), IF st.q = "dq" THEN StrTab[id].dq ELSE StrTab[id].sq, Q(st)>>

RECURSIVE LeafText(_, _), FiltsText(_, _, _)
LeafText(l, st) ==
  CASE l.t = "var"   -> <<l.n>>
    [] l.t = "num"   -> <<l.n>>
    [] l.t = "str"   -> StrSyms(l.id, st)
    [] l.t = "trans" -> <<"_(">> \o W(st.wtr) \o StrSyms(l.id, st) \o W(st.wtr) \o <<")">>
    [] l.t = "tpl"   -> <<TplTab[l.id].q, TplTab[l.id].c, TplTab[l.id].q>>
    [] l.t = "filt"  -> LeafText(l.b, st) \o FiltsText(l.fs, 1, st)
    [] l.t = "badfilt" -> LeafText(l.b, st) \o <<"|", l.tok, l.n>>
FiltsText(fs, i, st) ==
  IF i > Len(fs) THEN <<>>
  ELSE W(st.wbp) \o <<"|">> \o W(st.wap) \o <<fs[i].n>>
       \o (IF Len(fs[i].a) = 0 THEN <<>>
           ELSE W(st.wbf) \o <<":">> \o W(st.waf) \o LeafText(fs[i].a[1], st))
       \o FiltsText(fs, i + 1, st)

RECURSIVE VText(_, _), Joined(_, _, _)
Body(items, st) ==
  IF Len(items) = 0 THEN W(st.wo)
  ELSE W(st.wo) \o Joined(items, 1, st)
       \o (IF st.trail THEN W(st.wbc) \o <<",">> ELSE <<>>) \o W(st.wc)
VText(v, st) ==
  CASE v.t = "list"   -> <<"[">> \o Body(v.items, st) \o <<"]">>
    [] v.t = "dict"   -> <<"{">> \o Body(v.items, st) \o <<"}">>
    [] v.t = "spread" -> <<v.tok>> \o (IF v.tok = "..." THEN <<>> ELSE W(st.wst)) \o VText(v.v, st)
    [] v.t = "pair"   -> VText(v.k, st) \o W(st.wbk) \o <<":">> \o W(st.wak) \o VText(v.v, st)
    [] OTHER          -> LeafText(v, st)
Joined(items, i, st) ==
  VText(items[i], st)
  \o (IF i = Len(items) THEN <<>> ELSE W(st.wbc) \o <<",">> \o W(st.wac) \o Joined(items, i + 1, st))

ArgText(a, st) ==
  CASE a.t = "pos"      -> VText(a.v, st)
    [] a.t = "kw"       -> <<a.key, "=">> \o VText(a.v, st)
    [] a.t = "agg"      -> <<a.pre, ":", a.key, "=">> \o VText(a.v, st)
    [] a.t = "spread"   -> VText(a, st)
    [] a.t = "kwspread" -> <<a.key, "=">> \o VText(Spread(a.tok, a.v), st)
    [] a.t = "flag"     -> <<a.n>>

RECURSIVE ArgsText(_, _, _)
ArgsText(args, i, st) ==
  IF i > Len(args) THEN <<>>
  ELSE ArgText(args[i], st) \o (IF i = Len(args) THEN <<>> ELSE <<st.sep>> \o ArgsText(args, i + 1, st))

\* The text between the tag name and %} (the harness adds "{% name " and " %}").
Text(args, st) ==
  W(st.padl) \o ArgsText(args, 1, st)
  \o (IF st.slash THEN (IF Len(args) = 0 THEN <<"/">> ELSE <<st.sep, "/">>) ELSE <<>>)
  \o W(st.padr)

\* The canonical style: no optional whitespace, double quotes, single blanks.
Canon == [sep |-> " ", padl |-> "", padr |-> "", wo |-> "", wc |-> "", wbc |-> "", wac |-> "",
          wbk |-> "", wak |-> "", wbp |-> "", wap |-> "", wbf |-> "", waf |-> "", wst |-> "",
          wtr |-> "", trail |-> FALSE, q |-> "dq", slash |-> FALSE]
\* Canonical serialisation (C12 round trip): keeps the quote kind and the slash of the
\* original, ", " and ": " inside containers, nothing else.
SerStyle(st) == [Canon EXCEPT !.wac = " ", !.wak = " ", !.q = st.q, !.slash = st.slash]
Serial(args, st) == Text(args, SerStyle(st))

\* Significant skeleton of a text: whitespace symbols dropped, a comma directly before a
\* closing bracket dropped, quote kinds and the two spellings of a string content unified.
WsSyms == {" ", "  ", "\n", "\t", "\n  ", " \n", "\r\n", "\f"}
StrCanonSym(s) ==
  IF \E i \in 1..Len(StrTab) : StrTab[i].sq = s
  THEN StrTab[CHOOSE i \in 1..Len(StrTab) : StrTab[i].sq = s].dq ELSE s
RECURSIVE Skel(_, _, _)
Skel(txt, i, inq) ==     \* inq: inside a quoted string (its content symbol is kept verbatim)
  IF i > Len(txt) THEN <<>>
  ELSE LET c == txt[i] IN
       IF inq = 1 THEN <<StrCanonSym(c)>> \o Skel(txt, i + 1, 2)
       ELSE IF inq = 2 THEN <<"Q">> \o Skel(txt, i + 1, 0)
       ELSE IF c \in {"\"", "'"} THEN <<"Q">> \o Skel(txt, i + 1, 1)
       ELSE IF c \in WsSyms THEN Skel(txt, i + 1, 0)
       ELSE IF c = "/" THEN Skel(txt, i + 1, 0)
       ELSE IF c = "," /\ \E j \in (i + 1)..Len(txt) :
                  /\ txt[j] \in {"]", "}"}
                  /\ \A m \in (i + 1)..(j - 1) : txt[m] \in WsSyms
            THEN Skel(txt, i + 1, 0)
       ELSE <<c>> \o Skel(txt, i + 1, 0)
Skeleton(txt) == Skel(txt, 1, 0)

(* ------------------------------ validity ------------------------------ *)
\* c: where the construct stands - "top" (argument), "list", "dict" (entry), "dictkey",
\* "dictval", "kwval" (after key=), "operand" (of a spread).
RECURSIVE BadV(_, _)
BadV(v, c) ==
  CASE v.t = "list"    -> \E i \in 1..Len(v.items) : BadV(v.items[i], "list")
    [] v.t = "dict"    -> \E i \in 1..Len(v.items) : BadV(v.items[i], "dict")
    [] v.t = "spread"  -> \/ c = "list" /\ v.tok # "*"          \* wrong token for the container
                          \/ c = "dict" /\ v.tok # "**"
                          \/ c = "top"  /\ v.tok # "..."
                          \/ c \in {"dictkey", "dictval", "kwval", "operand"}
                          \/ BadV(v.v, "operand")
    [] v.t = "pair"    -> c # "dict" \/ BadV(v.k, "dictkey") \/ BadV(v.v, "dictval")
    [] v.t = "badfilt" -> TRUE                                   \* spread inside a filter
    [] OTHER           -> FALSE
BadArg(a) ==
  CASE a.t = "pos"      -> BadV(a.v, "kwval")      \* a bare spread record is an argument of kind "spread"
    [] a.t = "kw"       -> BadV(a.v, "kwval")
    [] a.t = "agg"      -> BadV(a.v, "kwval")
    [] a.t = "spread"   -> BadV(a, "top")
    [] a.t = "kwspread" -> TRUE                                  \* key=...value
    [] a.t = "flag"     -> FALSE
Invalid(args) == \E i \in 1..Len(args) : BadArg(args[i])

(* ------------------------------ denotation ---------------------------- *)
\* Result values: typed literals (from Ctx), [t |-> "leaf", e |-> canonical symbols] (value of
\* that text as a stock Django filter expression), [t |-> "render", e |-> <<template source>>]
\* (text rendered by a stock Django template), list, dict (entries inserted in order - a later
\* equal key replaces the value, as in a Python dict display).
Leaf(l) == IF l.t = "tpl"
           THEN (IF TplTab[l.id].single THEN [t |-> "leaf", e |-> TplTab[l.id].inner]
                 ELSE IF l.id \in StatefulTpl THEN [t |-> "nthrender", e |-> <<TplTab[l.id].c>>]
                 ELSE [t |-> "render", e |-> <<TplTab[l.id].c>>])
           ELSE [t |-> "leaf", e |-> LeafText(l, Canon)]

\* The denotation is per context c (a record like Ctx): Denote(args) is the one in Ctx.
RECURSIVE DV(_, _), DItems(_, _, _), DEntries(_, _, _)
\* Operand of a spread: a literal (its items), a context variable (the items of its value) or
\* a filter chain - opaque here: [t |-> "splice", of |-> leaf] stands for "the items of that value".
Splice(v) == [t |-> "splice", of |-> Leaf(v)]
ListOperand(c, v) == CASE v.t = "list" -> DItems(c, v.items, 1)
                       [] v.t = "var"  -> c[v.n].items
                       [] OTHER        -> <<Splice(v)>>
DictOperand(c, v) == CASE v.t = "dict" -> DEntries(c, v.items, 1)
                       [] v.t = "var"  -> c[v.n].items
                       [] OTHER        -> <<Splice(v)>>
DV(c, v) ==
  CASE v.t = "list" -> L(DItems(c, v.items, 1))
    [] v.t = "dict" -> D(DEntries(c, v.items, 1))
    [] OTHER        -> Leaf(v)
DItems(c, items, i) ==
  IF i > Len(items) THEN <<>>
  ELSE (IF items[i].t = "spread" THEN ListOperand(c, items[i].v) ELSE <<DV(c, items[i])>>)
       \o DItems(c, items, i + 1)
DEntries(c, items, i) ==
  IF i > Len(items) THEN <<>>
  ELSE (IF items[i].t = "spread" THEN DictOperand(c, items[i].v)
        ELSE <<E(DV(c, items[i].k), DV(c, items[i].v))>>)
       \o DEntries(c, items, i + 1)

\* Does a top-level spread operand yield positional values (list) or keyword values (dict)?
\* the filters used on spread operands keep the kind; a string that is a single {{ var }} tag
\* stands for the value of var itself
TplVar(v) == v.t = "tpl" /\ TplTab[v.id].single /\ Len(TplTab[v.id].inner) = 1
             /\ TplTab[v.id].inner[1] \in DOMAIN Ctx
SpreadBase(v) == IF v.t = "filt" THEN v.b ELSE IF TplVar(v) THEN Var(TplTab[v.id].inner[1]) ELSE v
\* (the rule is about the Python kind of the value: a mapping -> keywords, another iterable -> positionals)
IsListy(v) == v.t = "list" \/ (SpreadBase(v).t = "var" /\ Ctx[SpreadBase(v).n].t \in SeqKinds)
\* every key of the dict variable n is a str (only such a dict can become keyword arguments)
\* (in every context the templates are rendered with)
StrKeyed(n) == \A k \in 1..Len(Ctxs) : /\ Ctxs[k][n].t \in MapKinds
                                        /\ \A i \in 1..Len(Ctxs[k][n].items) : Ctxs[k][n].items[i].k.t = "str"
Name(s) == [t |-> "name", s |-> s]

RECURSIVE DPos(_, _, _), DKws(_, _, _), AggOf(_, _, _, _), Prefixes(_, _, _)
DPos(c, args, i) ==
  IF i > Len(args) THEN <<>>
  ELSE LET a == args[i] IN
       (CASE a.t = "pos" -> <<DV(c, a.v)>>
          [] a.t = "spread" /\ IsListy(a.v) -> ListOperand(c, a.v)
          [] OTHER -> <<>>) \o DPos(c, args, i + 1)
DKws(c, args, i) ==         \* plain keywords and spread dictionaries, in order
  IF i > Len(args) THEN <<>>
  ELSE LET a == args[i] IN
       (CASE a.t = "kw" -> <<E(Name(a.key), DV(c, a.v))>>
          [] a.t = "spread" /\ ~IsListy(a.v) -> DictOperand(c, a.v)
          [] OTHER -> <<>>) \o DKws(c, args, i + 1)
Prefixes(args, i, seen) ==   \* aggregate prefixes in order of first appearance
  IF i > Len(args) THEN <<>>
  ELSE IF args[i].t = "agg" /\ args[i].pre \notin seen
       THEN <<args[i].pre>> \o Prefixes(args, i + 1, seen \cup {args[i].pre})
       ELSE Prefixes(args, i + 1, seen)
AggOf(c, args, i, pre) ==
  IF i > Len(args) THEN <<>>
  ELSE (IF args[i].t = "agg" /\ args[i].pre = pre THEN <<E(St(args[i].key), DV(c, args[i].v))>> ELSE <<>>)
       \o AggOf(c, args, i + 1, pre)

DenoteIn(c, args) ==
  LET ps == Prefixes(args, 1, {}) IN
  [args   |-> DPos(c, args, 1),
   kwargs |-> DKws(c, args, 1) \o [j \in 1..Len(ps) |-> E(Name(ps[j]), D(AggOf(c, args, 1, ps[j])))],
   flags  |-> {args[i].n : i \in {j \in 1..Len(args) : args[j].t = "flag"}}]
Denote(args) == DenoteIn(Ctx, args)
\* The loop variable is never the operand of a spread, so an iteration denotes what its context does.
\* (checked by MC_C02!LoopDenotes)

\* Several tags in ONE template.  Every tag of a template is a tag of its own: its arguments denote what they
\* denote when the tag stands alone, whatever else the template holds - in particular other tags written with
\* the SAME argument text (two striped tables on one page: each starts with 'odd').  TogetherForms: the
\* templates the harness builds from one argument list - n copies of the tag one after the other, each
\* inside its own {% for it in its %} (loop) or bare.  DenoteTogether: what copy i hands over in evaluation j
\* of a render with context c - exactly what the single tag does (for a "nthrender" value: the j-th rendering
\* of ITS string, the count starts again with every copy).
TogetherForms == << [n |-> 2, loop |-> TRUE], [n |-> 3, loop |-> FALSE], [n |-> 3, loop |-> TRUE], [n |-> 2, loop |-> FALSE] >>
DenoteTogether(c, args, form) == [i \in 1..form.n |-> DenoteIn(c, args)]

(* ------------------------------ admissible outcomes ------------------- *)
\* Whitespace after * / ** is documented for a *variable* operand (`[ * spread ]`); before a
\* literal operand (`[* [1]]`, `{** {"a": 1}}`) nothing is said.  There the tag may also be
\* refused with TemplateSyntaxError; if it is accepted it must denote the same values.
RECURSIVE HasLitSpread(_)
HasLitSpread(v) ==
  CASE v.t \in {"list", "dict"} -> \E i \in 1..Len(v.items) : HasLitSpread(v.items[i])
    [] v.t = "spread" -> (v.tok \in {"*", "**"} /\ v.v.t \in {"list", "dict"}) \/ HasLitSpread(v.v)
    [] v.t = "pair"   -> HasLitSpread(v.k) \/ HasLitSpread(v.v)
    [] OTHER          -> FALSE
WsBeforeLiteralOperand(args, st) ==
  st.wst # "" /\ \E i \in 1..Len(args) : args[i].t # "flag" /\ HasLitSpread(args[i].v)
Outcomes(args, st) ==
  IF Invalid(args) THEN {"tse"}
  ELSE IF WsBeforeLiteralOperand(args, st) THEN {"values", "tse"} ELSE {"values"}

\* Receivers.  "probe": a tag made with @template_tag (args, kwargs, flags); "comp": {% component
\* "name" .. %} and "short": the same component through the shorthand tag formatter ({% name .. %})
\* - get_context_data(*args, **kwargs); "slot": {% slot "s" .. %}, whose keyword arguments reach
\* the fill as the slot data - applicable to keyword-only argument lists.
Paths == {"probe", "comp", "short", "slot"}
DictishOperand(v) ==
  LET b == SpreadBase(v) IN b.t = "dict" \/ (b.t = "var" /\ b.n \in DOMAIN Ctx /\ Ctx[b.n].t \in MapKinds)
SlotArg(a) == \/ a.t \in {"kw", "agg", "kwspread"}
              \/ (a.t = "spread" /\ a.tok = "..." /\ DictishOperand(a.v))
SlotApplies(args) == \A i \in 1..Len(args) : SlotArg(args[i])
PathApplies(args, path) == path # "slot" \/ SlotApplies(args)

(* ------------------------------ named deviations ---------------------- *)
\* What the code under test is known to do instead of Denote on specific shapes (see
\* /verif/KNOWN_FINDINGS.txt).  A deviation never makes a case pass: an observed outcome that
\* equals a deviation's prediction is reported under the deviation's name (a finding key),
\* anything else as a plain violation.  outcomes: the set of predicted outcomes - "values"
\* (expect holds the received values), "tse" (TemplateSyntaxError) or "exc:<ExceptionClass>";
\* paths: the receivers it concerns.
FlagNames == {"only"}
NoValues == [args |-> <<>>, kwargs |-> <<>>, flags |-> {}]
IsKwish(a) == a.t \in {"kw", "agg"} \/ (a.t = "spread" /\ ~IsListy(a.v))
IsPosish(a) == a.t = "pos" \/ (a.t = "spread" /\ IsListy(a.v))
PosAfterKw(as) == \E i \in 1..Len(as), j \in 1..Len(as) : i < j /\ IsKwish(as[i]) /\ IsPosish(as[j])

\* key=flagname (or pre:key=flagname): the keyword is taken for the flag and the keyword argument is dropped
FlagKw(a) == a.t \in {"kw", "agg"} /\ a.v.t = "var" /\ a.v.n \in FlagNames
DevFlagApplies(args) == \E i \in 1..Len(args) : FlagKw(args[i])
DevFlagArgs(args) == [i \in 1..Len(args) |-> IF FlagKw(args[i]) THEN Flag(args[i].v.n) ELSE args[i]]
DevFlag(args) ==
  LET as == DevFlagArgs(args)
      twice == \E i \in 1..Len(as), j \in 1..Len(as) : i < j /\ as[i].t = "flag" /\ as[j] = as[i] IN
  [name |-> "kw-value-named-like-flag:taken-as-flag", paths |-> {"probe", "comp", "short"},
   outcomes |-> IF twice THEN {"tse"} ELSE {"values"},
   expect |-> IF twice THEN NoValues ELSE Denote(as)]

\* ...value|filter at top level: the filter chain's value is passed whole as one positional argument
SpreadFilt(a) == a.t = "spread" /\ a.tok = "..." /\ a.v.t = "filt"
DevSpreadApplies(args) == \E i \in 1..Len(args) : SpreadFilt(args[i])
DevSpreadArgs(args) == [i \in 1..Len(args) |-> IF SpreadFilt(args[i]) THEN Pos(args[i].v) ELSE args[i]]
DevSpread(args) ==
  LET as == DevSpreadArgs(args)
      \* (aggregated keywords are moved behind everything else before the order is checked,
      \*  and a spread dictionary without entries contributes no keyword)
      strict(a) == a.t = "kw" \/ (a.t = "spread" /\ ~IsListy(a.v) /\ Len(DictOperand(Ctx, a.v)) > 0)
      pk == \E i \in 1..Len(as), j \in 1..Len(as) : i < j /\ strict(as[i]) /\ IsPosish(as[j]) IN
  [name |-> "top-level-spread-with-filter:passed-unspread", paths |-> {"probe", "comp", "short"},
   \* a positional after a keyword is refused: TypeError, or SyntaxError after a non-identifier key
   outcomes |-> IF pk THEN {"exc:TypeError", "exc:SyntaxError"} ELSE {"values"},
   expect |-> IF pk THEN NoValues ELSE Denote(as)]

\* ... in {% slot "s" .. %} any positional argument beyond the name is refused
DevSpreadSlot(args) ==
  [name |-> "top-level-spread-with-filter:passed-unspread", paths |-> {"slot"},
   outcomes |-> {"exc:TypeError", "exc:SyntaxError"}, expect |-> NoValues]

\* {% component %} only: a translation string that is not a whitespace-delimited word of its own
RECURSIVE HasTrans(_)
HasTrans(v) ==
  CASE v.t \in {"list", "dict"} -> \E i \in 1..Len(v.items) : HasTrans(v.items[i])
    [] v.t = "spread" -> HasTrans(v.v)
    [] v.t = "pair"   -> HasTrans(v.k) \/ HasTrans(v.v)
    [] v.t = "trans"  -> TRUE
    [] v.t = "filt"   -> HasTrans(v.b) \/ \E i \in 1..Len(v.fs) : Len(v.fs[i].a) = 1 /\ HasTrans(v.fs[i].a[1])
    [] OTHER          -> FALSE
DevTransApplies(args) == \E i \in 1..Len(args) : args[i].t # "flag" /\ HasTrans(args[i].v)
DevTrans(args) == [name |-> "component-tag:translation-string-glued-to-other-syntax:StopIteration", paths |-> {"comp", "short"},
                   outcomes |-> {"exc:StopIteration"}, expect |-> NoValues]

\* both of the above in one argument list
DevBoth(args) ==
  LET d == DevSpread(DevFlagArgs(args))  f == DevFlag(args) IN
  [name |-> f.name \o "+" \o d.name, paths |-> {"probe", "comp", "short"},
   outcomes |-> IF f.outcomes = {"tse"} THEN {"tse"} ELSE d.outcomes,
   expect |-> IF f.outcomes = {"tse"} THEN NoValues ELSE d.expect]

\* deviations that can also hit an argument list that must be refused
DevsInvalid(args) == IF \E i \in 1..Len(args) : args[i].t # "flag" /\ HasTrans(args[i].v) THEN <<DevTrans(args)>> ELSE <<>>
Devs(args) == IF Invalid(args) THEN DevsInvalid(args) ELSE
              (IF DevFlagApplies(args) THEN <<DevFlag(args)>> ELSE <<>>)
              \o (IF DevSpreadApplies(args) THEN <<DevSpread(args), DevSpreadSlot(args)>> ELSE <<>>)
              \o (IF DevFlagApplies(args) /\ DevSpreadApplies(args) THEN <<DevBoth(args)>> ELSE <<>>)
              \o (IF DevTransApplies(args) THEN <<DevTrans(args)>> ELSE <<>>)

(* ------------------------------ raw input space (C12) ----------------- *)
\* Syntax-relevant symbols of a tag's content: quotes, brackets, braces, colon, comma, pipe,
\* equals, spread tokens (** is * twice), _( and ), backslash, whitespace, the closing tag
\* delimiter and a letter.  C12 quantifies over all strings of these.
TagAlphabet == {"'", "\"", "[", "]", "{", "}", ":", ",", "|", "=", "...", "*", "_(", ")", "\\", " ", "%}", "a"}
\* Symbols of a template source: every tag delimiter, openers of django-components tags,
\* quotes, backslash, newline, percent, a word.
TplAlphabet == {"{% vfprobe ", "{% endvfprobe %}", "{% component 'vf_probe_c12' ", "%}", "{{", "}}", "{#", "#}",
                "\"", "'", "\\", "\n", "%", "a "}
\* The only admissible outcomes of parsing any string (termination itself is observed on the
\* real code, not modelled).
ParseOutcomes == {"ok", "tse"}
\* One-symbol mutations of a text (position p; symbol c)
MutIns(txt, p, c) == SubSeq(txt, 1, p - 1) \o <<c>> \o SubSeq(txt, p, Len(txt))     \* p \in 1..Len(txt)+1
MutDel(txt, p)    == SubSeq(txt, 1, p - 1) \o SubSeq(txt, p + 1, Len(txt))           \* p \in 1..Len(txt)
MutRep(txt, p, c) == [txt EXCEPT ![p] = c]                                            \* p \in 1..Len(txt)
Mutated(txt, m) == CASE m.kind = "ins" -> MutIns(txt, m.p, m.c)
                     [] m.kind = "del" -> MutDel(txt, m.p)
                     [] m.kind = "rep" -> MutRep(txt, m.p, m.c)
                     [] OTHER          -> txt

(* ------------------------------ documented examples ------------------- *)
\* parse_tag docstring, "Invalid syntax" (and tests/test_tag_parser.py test_spread_onto_key).
DocInvalid == {
  <<Pos(BadFilt(Var("val"), "...", "filter"))>>,                                   \* val|...filter
  <<Kw("attr", Dict(<<Pair(Spread("...", Var("attrs")), Str(1))>>))>>,             \* attr={...attrs: "value"}
  <<Kw("attr", Dict(<<Pair(Spread("**", Var("attrs")), Str(1))>>))>>,
  <<Kw("attr", Dict(<<Pair(Str(4), Spread("...", Var("val")))>>))>>,               \* attr={"key": ...val}
  <<Kw("attr", Dict(<<Pair(Str(4), Spread("**", Var("val")))>>))>>,
  <<Kw("attr", List(<<Spread("...", Var("val"))>>))>>,                             \* attr=[...val]
  <<Kw("attr", Dict(<<Spread("...", Var("val"))>>))>>,                             \* attr={...val}
  <<Kw("attr", List(<<Spread("**", Var("val"))>>))>>,                              \* attr=[**val]
  <<Kw("attr", Dict(<<Spread("*", Var("val"))>>))>>,                               \* attr={*val}
  <<KwSpread("key", "...", Var("attrs"))>> }                                       \* key=...attrs
\* "Supported syntax"
DocValid == {
  <<Pos(Var("val")), Kw("key", Var("val")), Kw("key2", Str(1))>>,
  <<Pos(Trans(1)), Pos(Filt(Var("val"), <<Fl("filter")>>)), Pos(Filt(Var("val"), <<FlA("filter", Var("arg"))>>))>>,
  <<Pos(List(<<Var("value1"), Var("value2")>>)), Kw("key", List(<<Var("value1"), List(<<Num("1"), Num("2")>>)>>))>>,
  <<Kw("key", Dict(<<Pair(Str(4), Var("value1")), Pair(Str(5), Dict(<<Pair(Str(4), Str(1))>>))>>))>>,
  <<Kw("key", List(<<Num("1"), Spread("*", Var("val")), Num("3")>>))>>,
  <<Kw("key", Dict(<<Pair(Str(4), Var("val")), Spread("**", Var("kwargs")), Pair(Str(5), Num("3"))>>))>>,
  <<Pos(Dict(<<Spread("**", Dict(<<Pair(Str(4), Var("val2"))>>)), Pair(Str(4), Var("val1"))>>))>>,
  <<Spread("...", List(<<Var("val1")>>)), Spread("...", Dict(<<Pair(Str(4), Var("val1"))>>)), Spread("...", Var("attrs"))>> }
DocExamplesOK == (\A e \in DocInvalid : Invalid(e)) /\ (\A e \in DocValid : ~Invalid(e))
=============================================================================
