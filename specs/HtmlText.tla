------------------------------ MODULE HtmlText ------------------------------
(***************************************************************************)
(* Texts as TLA+ strings with character access, HTML escaping as Django's  *)
(* conditional_escape / html.escape perform it, and the decoding of         *)
(* character references an HTML parser performs.  Shared by HtmlAttrs,      *)
(* SlotEscape and EndTagGuard (C13).                                        *)
(***************************************************************************)
EXTENDS Naturals, Sequences, FiniteSets

(* ------------------------------------------------------------- texts --- *)
Ch(s, i) == SubSeq(s, i, i)
Chars(s) == [i \in 1..Len(s) |-> Ch(s, i)]
HasAny(s, cs) == \E i \in 1..Len(s) : Ch(s, i) \in cs
RECURSIVE Cat(_)
Cat(ss) == IF ss = <<>> THEN "" ELSE ss[1] \o Cat(Tail(ss))
RECURSIVE JoinSp(_)
JoinSp(ss) == IF ss = <<>> THEN "" ELSE IF Len(ss) = 1 THEN ss[1] ELSE ss[1] \o " " \o JoinSp(Tail(ss))
SeqRange(q) == {q[i] : i \in 1..Len(q)}

(* ---------------------------------------------------------- escaping --- *)
Special == {"&", "<", ">", "\"", "'"}
EscChar(c) == CASE c = "&"  -> "&amp;"
                [] c = "<"  -> "&lt;"
                [] c = ">"  -> "&gt;"
                [] c = "\"" -> "&quot;"
                [] c = "'"  -> "&#x27;"
                [] OTHER    -> c
Escape(s) == Cat([i \in 1..Len(s) |-> EscChar(Ch(s, i))])

\* character references a parser decodes (the five above, both spellings of the apostrophe)
Entities == << <<"&amp;", "&">>, <<"&lt;", "<">>, <<"&gt;", ">">>, <<"&quot;", "\"">>,
               <<"&#x27;", "'">>, <<"&#39;", "'">> >>
MatchAt(s, i, e) == i + Len(e) - 1 <= Len(s) /\ SubSeq(s, i, i + Len(e) - 1) = e
EntAt(s, i) == {k \in 1..Len(Entities) : MatchAt(s, i, Entities[k][1])}
RECURSIVE Dec(_, _)
Dec(s, i) == IF i > Len(s) THEN ""
             ELSE IF Ch(s, i) = "&" /\ EntAt(s, i) # {}
             THEN LET k == CHOOSE k \in EntAt(s, i) : TRUE IN
                  Entities[k][2] \o Dec(s, i + Len(Entities[k][1]))
             ELSE Ch(s, i) \o Dec(s, i + 1)
Decode(s) == IF \A i \in 1..Len(s) : Ch(s, i) # "&" THEN s ELSE Dec(s, 1)

\* Escaping is exactly invertible by a parser and leaves nothing that could end a quoted value or a tag.
EscapeIsSafe(s) == ~HasAny(Escape(s), {"<", ">", "\"", "'"}) /\ Decode(Escape(s)) = s

WS == {" ", "\t", "\n", "\r", "\f"}
=============================================================================
