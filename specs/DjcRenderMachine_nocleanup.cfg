SPECIFICATION Spec
CONSTANTS
  MaxNodes = 6
  MaxDepth = 2
  Cleanup = FALSE
  AllowFail = TRUE
INVARIANT Quiescent
INVARIANT WellFormed
PROPERTY Ordered
