------------------------------ MODULE Trace_C06 ------------------------------
(***************************************************************************)
(* Trace validation (code -> spec) for the deferred renderer.  Every line  *)
(* of IOEnv.IN is one top-level render recorded from the real library: the *)
(* ordered user-code events (gcd with root-ness, before, tpl, after; the   *)
(* last one failed iff `failed`), and the sizes of component_context_cache *)
(* and component_renderer_cache after the call.  Every event must be an    *)
(* enabled action of DjcRenderMachine and the final registry sizes must    *)
(* equal the machine's.                                                    *)
(***************************************************************************)
EXTENDS DjcRenderMachine, TLC, Json, IOUtils

Traces == ndJsonDeserialize(IOEnv.IN)

VARIABLES tid, l
trVars == <<pc, ctx, rend, sess, n, last, tid, l>>

Events == Traces[tid].events
Ev == Events[l]
IsLast == l = Len(Events)
OkOf == ~(IsLast /\ Traces[tid].failed)

TrInit == Init /\ tid = 1 /\ l = 1

Reset == pc' = "idle" /\ ctx' = {} /\ rend' = {} /\ sess' = <<>> /\ n' = 0 /\ last' = <<"init">>
NextTrace == tid' = tid + 1 /\ l' = 1 /\ Reset

Act(e, ok) ==
  CASE e.e = "gcd"    -> Gcd(e.c, e.p = 0, ok)
    [] e.e = "before" -> Before(e.c, ok)
    [] e.e = "tpl"    -> (IF sess # <<>> /\ Top(sess).cur = e.c /\ Top(sess).stage = "kids"
                          THEN UNCHANGED <<pc, ctx, rend, sess, n>> /\ last' = <<"tpl-again", e.c>>   \* a later tag of the same template
                          ELSE Tpl(e.c, ok))
    [] e.e = "after"  -> After(e.c, ok)

Step == /\ tid <= Len(Traces) /\ l <= Len(Events)
        /\ Act(Ev, OkOf) /\ l' = l + 1 /\ UNCHANGED tid

Stuck == /\ tid <= Len(Traces) /\ l <= Len(Events) /\ ~ENABLED Step
         /\ PrintT(<<"REJECT", Traces[tid].id, l, "event-not-enabled">>) /\ NextTrace

Done == /\ tid <= Len(Traces) /\ l > Len(Events)
        /\ LET t == Traces[tid]
               bad == {c \in {"context-cache-size", "renderer-cache-size", "not-finished"} :
                         CASE c = "context-cache-size"  -> Cardinality(ctx) # t.ctx
                           [] c = "renderer-cache-size" -> Cardinality(rend) # t.rend
                           [] c = "not-finished"        -> ~(pc \in {"done", "raised"} \/ Len(Events) = 0)} IN
           IF bad = {} THEN PrintT(<<"ACCEPT", t.id>>) ELSE PrintT(<<"REJECT", t.id, l, bad>>)
        /\ NextTrace

TrNext == Step \/ Stuck \/ Done
TrSpec == TrInit /\ [][TrNext]_trVars
=============================================================================
