------------------------------- MODULE MC_C12T ------------------------------
(***************************************************************************)
(* Input space of C12, part (vi): every tag of the library followed by every *)
(* sequence of <= MaxWords words of LeadWords (AdversarialInputs.tla, family *)
(* 2): the required leading arguments present, missing, or replaced by       *)
(* keywords, flags, spreads, literals, garbage - in every form (self-closing,*)
(* block, left open) at top level and inside a component body.  The cases    *)
(* are the states with form # "none"; `src` is the template source as a      *)
(* sequence of pieces (the harness joins them and calls Template(src)).      *)
(* Admissible outcomes: ParseOutcomes, within CpuBudgetMs(characters).       *)
(***************************************************************************)
EXTENDS TagArgs, AdversarialInputs

CONSTANTS MaxWords
VARIABLES tag, words, form, wrap, src
vars == <<tag, words, form, wrap, src>>

Init == tag \in LibTags /\ words = <<>> /\ form = "none" /\ wrap = "none" /\ src = <<>>
AppendWord(w) == form = "none" /\ Len(words) < MaxWords
                 /\ words' = words \o <<w>> /\ UNCHANGED <<tag, form, wrap, src>>
Close(f, wr) == form = "none" /\ form' = f /\ wrap' = wr /\ src' = LibSource(tag, words, f, wr)
                /\ UNCHANGED <<tag, words>>
Next == \/ \E w \in LeadWords : AppendWord(w)
        \/ \E f \in Forms, wr \in Wraps : Close(f, wr)
Spec == Init /\ [][Next]_vars

\* the source is the tag, its words in order, nothing else
Shape ==
  /\ tag \in LibTags /\ \A i \in 1..Len(words) : words[i] \in LeadWords
  /\ form # "none" =>
       /\ src = LibSource(tag, words, form, wrap)
       /\ LET inner == TagSource(tag, words, form) IN
          /\ inner[1] = "{% " /\ inner[2] = tag
          /\ \A i \in 1..Len(words) : inner[2 + 2 * i] = words[i]
          /\ (form = "block") = (inner[Len(inner) - 1] = EndOf(tag))
       /\ CpuBudgetMs(Chars(src)) >= BudgetBaseMs
=============================================================================
