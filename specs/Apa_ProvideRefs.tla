---------------------------- MODULE Apa_ProvideRefs ----------------------------
(***************************************************************************)
(* Apalache instance of ProvideRefs.tla: symbolic check that IndInv is an  *)
(* inductive invariant for 3 providers and 4 components (beyond what TLC   *)
(* can enumerate from all IndInv states), and that IndInv implies the      *)
(* properties.  Run by vf/provrefs.py:                                     *)
(*   apalache-mc check --init=Init    --inv=IndInv --length=0              *)
(*   apalache-mc check --init=IndInit --inv=IndInv --length=1              *)
(*   apalache-mc check --init=IndInit --inv=Props  --length=0              *)
(*   apalache-mc check --init=WeakInit --inv=WeakInv --length=1 (refuted)  *)
(***************************************************************************)
EXTENDS Naturals, FiniteSets

Pid == {"p1", "p2", "p3"}
Rid == {"r1", "r2", "r3", "r4"}

VARIABLES
  \* @type: Set(Str);
  cache,
  \* @type: Str -> Set(Str);
  refs,
  \* @type: Set(Str);
  allIds,
  \* @type: Bool;
  err,
  \* @type: Str -> Str;
  phase

INSTANCE ProvideRefs

IndInit == /\ cache \in SUBSET Pid
           /\ \E D \in SUBSET Pid : refs \in [D -> SUBSET (Pid \cup Rid)]
           /\ allIds \in SUBSET (Pid \cup Rid)
           /\ err = FALSE
           /\ phase \in [Pid -> {"new", "set", "open", "closed"}]
           /\ IndInv

\* negative control: without SetIsCached the invariant is not inductive (Apalache must refute it)
WeakInv == TypeOK /\ ~err /\ RefsWellFormed /\ Unreferenced /\ NothingBeforeSet /\ SelfRefIffOpen /\ OnlySelf
WeakInit == /\ cache \in SUBSET Pid
            /\ \E D \in SUBSET Pid : refs \in [D -> SUBSET (Pid \cup Rid)]
            /\ allIds \in SUBSET (Pid \cup Rid)
            /\ err = FALSE
            /\ phase \in [Pid -> {"new", "set", "open", "closed"}]
            /\ WeakInv

Props == NoKeyError /\ OpenAlive /\ InjectSound /\ Quiescent
=============================================================================
