---------------------------- MODULE RegistryImpl ----------------------------
(***************************************************************************)
(* Implementation-shaped model of component_registry.py (layer B of C15):  *)
(* the three tables the code keeps, updated in the order the code updates  *)
(* them.                                                                   *)
(*   registry[r] : name -> [cls, tag]          ComponentRegistry._registry *)
(*   tagrefs[r]  : tag -> set of names         ComponentRegistry._tags     *)
(*   libtags[l]  : tag -> owner                Library.tags                *)
(* TLC checks that every step of this machine is a step the abstract       *)
(* specification (RegistryOps!Promised) admits - StepRefines - and the     *)
(* bookkeeping invariant RefsExact the code relies on.  With Fix = TRUE    *)
(* the model is the current code: since commit 57c7c8f (the repair of      *)
(* fmt-switch-reregister:old-tag-orphaned) register() releases the tag a   *)
(* re-registered component used so far when the formatter gives it another *)
(* one.  Fix = FALSE is the code before that commit; it is kept as a       *)
(* control: TLC must find the old deviation as a counterexample (the       *)
(* refinement check sees this class of defect) and the real code must NOT  *)
(* reproduce it.  Queries are not modelled (they read `registry` only).    *)
(***************************************************************************)
EXTENDS RegistryOps

CONSTANTS ImplConfigs, Fix

VARIABLES cfg, registry, tagrefs, libtags, fmt, last, res
implVars == <<cfg, registry, tagrefs, libtags, fmt, last, res>>

Abs == [reg |-> registry, lib |-> libtags, fmt |-> fmt, stale |-> {}]

ImplInit == /\ cfg \in ImplConfigs
            /\ registry = [r \in cfg.regs |-> NoEntries]
            /\ tagrefs = [r \in cfg.regs |-> NoEntries]
            /\ libtags = cfg.pre /\ fmt = cfg.fmt0
            /\ last = [op |-> "init", r |-> "-", n |-> "-", c |-> "-"] /\ res = "init"

\* the tag bookkeeping of unregister(): unlink the name from the tag; drop the tag from the
\* Library when no name is left and the tag is not protected.  Returns [refs, lt].
Release(refs, lt, prot, n, t) ==
  LET left == refs[t] \ {n}
      refs2 == IF left = {} THEN Drop(refs, t) ELSE Put(refs, t, left)
      lt2 == IF left = {} /\ t \notin prot /\ t \in DOMAIN lt THEN Drop(lt, t) ELSE lt
  IN [refs |-> refs2, lt |-> lt2]

RECURSIVE ReleaseAll(_, _, _, _, _)
ReleaseAll(refs, lt, prot, ents, names) ==      \* clear(): unregister(name) for every name
  IF names = {} THEN [refs |-> refs, lt |-> lt]
  ELSE LET n == CHOOSE x \in names : TRUE
           s == Release(refs, lt, prot, n, ents[n].tag)
       IN ReleaseAll(s.refs, s.lt, prot, ents, names \ {n})

IRegister(r, n, c) ==
  LET l == cfg.libof[r]
      ents == registry[r]
      exists == n \in DOMAIN ents
      t == TagOf(fmt[r], n)
  IN
  IF exists /\ ents[n].cls # c
  THEN res' = "AlreadyRegistered" /\ UNCHANGED <<registry, tagrefs, libtags>>
  ELSE IF t \in cfg.prot[l]                                   \* register_tag() raises first
  THEN res' = "TagProtected" /\ UNCHANGED <<registry, tagrefs, libtags>>
  ELSE LET lt1 == Put(libtags[l], t, "comp")                  \* library.tag(tag, tag_fn)
           rel == IF Fix /\ exists /\ ents[n].tag # t          \* _release_tag(name, existing.tag)
                  THEN Release(tagrefs[r], lt1, cfg.prot[l], n, ents[n].tag)
                  ELSE [refs |-> tagrefs[r], lt |-> lt1]
           had == IF t \in DOMAIN rel.refs THEN rel.refs[t] ELSE {}
       IN /\ res' = "ok"
          /\ libtags' = [libtags EXCEPT ![l] = rel.lt]
          /\ tagrefs' = [tagrefs EXCEPT ![r] = Put(rel.refs, t, had \cup {n})]   \* _tags[tag].add(name)
          /\ registry' = [registry EXCEPT ![r] = Put(ents, n, [cls |-> c, tag |-> t])]

IUnregister(r, n) ==
  LET l == cfg.libof[r]  ents == registry[r] IN
  IF n \notin DOMAIN ents
  THEN res' = "NotRegistered" /\ UNCHANGED <<registry, tagrefs, libtags>>
  ELSE LET s == Release(tagrefs[r], libtags[l], cfg.prot[l], n, ents[n].tag) IN
       /\ res' = "ok"
       /\ tagrefs' = [tagrefs EXCEPT ![r] = s.refs]
       /\ libtags' = [libtags EXCEPT ![l] = s.lt]
       /\ registry' = [registry EXCEPT ![r] = Drop(ents, n)]

IClear(r) ==
  LET l == cfg.libof[r]  ents == registry[r]
      s == ReleaseAll(tagrefs[r], libtags[l], cfg.prot[l], ents, DOMAIN ents) IN
  /\ res' = "ok"
  /\ libtags' = [libtags EXCEPT ![l] = s.lt]
  /\ tagrefs' = [tagrefs EXCEPT ![r] = NoEntries]             \* self._tags = {}
  /\ registry' = [registry EXCEPT ![r] = NoEntries]           \* self._registry = {}

ISetFmt(r, f) == f # fmt[r] /\ fmt' = [fmt EXCEPT ![r] = f] /\ res' = "ok"
                 /\ UNCHANGED <<registry, tagrefs, libtags>>

CallRec(op, r, n, c) == [op |-> op, r |-> r, n |-> n, c |-> c]

ImplNext ==
  \E r \in cfg.regs :
    \/ \E n \in cfg.names, c \in cfg.classes :
         IRegister(r, n, c) /\ last' = CallRec("register", r, n, c) /\ UNCHANGED <<cfg, fmt>>
    \/ \E n \in cfg.names :
         IUnregister(r, n) /\ last' = CallRec("unregister", r, n, "-") /\ UNCHANGED <<cfg, fmt>>
    \/ IClear(r) /\ last' = CallRec("clear", r, "-", "-") /\ UNCHANGED <<cfg, fmt>>
    \/ \E f \in cfg.fmts[r] : ISetFmt(r, f) /\ last' = CallRec("setfmt", r, f, "-") /\ UNCHANGED cfg

ImplSpec == ImplInit /\ [][ImplNext]_implVars
implView == <<cfg, registry, tagrefs, libtags, fmt>>

(* ---- what TLC checks ---------------------------------------------------- *)
\* every step of the implementation is a step the specification admits
StepRefines ==
  [][\E o \in Promised(cfg, Abs, last') :
        /\ o.res = res'
        /\ o.reg = registry' /\ o.lib = libtags' /\ o.fmt = fmt']_implVars

\* the reference sets are exactly the users of each tag
RefsExact ==
  \A r \in cfg.regs :
    /\ \A t \in DOMAIN tagrefs[r] : tagrefs[r][t] = {n \in DOMAIN registry[r] : registry[r][n].tag = t}
                                    /\ tagrefs[r][t] # {}
    /\ \A n \in DOMAIN registry[r] : registry[r][n].tag \in DOMAIN tagrefs[r]

ImplTagIffUsed == TagIffUsedP(cfg, Abs)
ImplProtectedUntouched == ProtectedUntouchedP(cfg, Abs)
=============================================================================
