------------------------------ MODULE Settings ------------------------------
(***************************************************************************)
(* X03 - resolution of the COMPONENTS Django setting of django_components. *)
(*                                                                         *)
(* The contract, from the documentation only (docs/reference/settings.md = *)
(* the docstrings of django_components.app_settings.ComponentsSettings;    *)
(* docs/concepts/advanced/component_registry.md; CHANGELOG.md):            *)
(*                                                                         *)
(*  D1 "You can configure django_components with a global `COMPONENTS`     *)
(*      variable in your Django settings file [...] By default you don't   *)
(*      need it set, there are resonable defaults."                        *)
(*  D2 "To configure the settings you can instantiate `ComponentsSettings` *)
(*      for validation and type hints. Or, for backwards compatibility,    *)
(*      you can also use plain dictionary"                                 *)
(*  D3 "Here's overview of all available settings and their defaults:" +   *)
(*      the table (autodiscover=True, cache=None, context_behavior=        *)
(*      "django", dirs=[Path(settings.BASE_DIR) / "components"],           *)
(*      app_dirs=["components"], debug_highlight_..=False,                 *)
(*      dynamic_component_name="dynamic", libraries=[],                    *)
(*      multiline_tags=True, reload_on_file_change=False,                  *)
(*      static_files_allowed=[...], static_files_forbidden=[...],          *)
(*      tag_formatter="django_components.component_formatter",             *)
(*      template_cache_size=128) and "Defaults to ..." in every docstring. *)
(*  D4 dirs / app_dirs: "Set to empty list to disable ..." (an empty list  *)
(*      is a value, not "unset").                                          *)
(*  D5 context_behavior: the options are "django" | "isolated"; the        *)
(*      repository's own tests pin ValueError for anything else            *)
(*      (tests/test_settings.py test_raises_on_invalid_context_behavior).  *)
(*  D6 reload_on_template_change / forbidden_static_files: "Deprecated.    *)
(*      Use COMPONENTS.reload_on_file_change / static_files_forbidden      *)
(*      instead."; CHANGELOG: "The setting `forbidden_static_files` was    *)
(*      renamed to `static_files_forbidden` [...] The old name [...] is    *)
(*      deprecated and will be removed in v1." (same for reload_on_..):    *)
(*      the old name still works.  Which one wins when both are given is   *)
(*      not documented -> both values are admitted.                        *)
(*  D7 template_cache_size: "To remove the cache limit altogether and      *)
(*      cache everything, set `template_cache_size` to `None`."  The       *)
(*      documented signature `template_cache_size: Optional[int] = None`   *)
(*      makes ComponentsSettings(template_cache_size=None) the same object *)
(*      as ComponentsSettings(), for which D3 says 128: in the instance    *)
(*      form the two sentences conflict and both outcomes are admitted; in *)
(*      the dict form {"template_cache_size": None} is distinguishable     *)
(*      from {} and D7 determines "no limit".                              *)
(*  D8 cache: "If `None`, a LocMemCache is used [...] Defaults to `None`." *)
(*  D9 RegistrySettings.context_behavior / tag_formatter: "Same as the     *)
(*      global COMPONENTS.<k> setting, but for this registry. If omitted,  *)
(*      defaults to the global COMPONENTS.<k> setting."; upper-case        *)
(*      CONTEXT_BEHAVIOR / TAG_FORMATTER: "Deprecated. Use `<k>` instead." *)
(*      (both given: not documented -> both admitted).                     *)
(*  D10 dynamic_component_name: "By default, the dynamic component is      *)
(*      registered under the name "dynamic". [...] you can use this        *)
(*      setting to change the component name used for the dynamic          *)
(*      components."                                                       *)
(*  D11 multiline_tags: "If `True`, template tags like `{% component %}`   *)
(*      or `{{ my_var }}` can span multiple lines. Defaults to `True`.     *)
(*      Disable this setting if you are making custom modifications to     *)
(*      [...] `django.template.base.tag_re`."                              *)
(*  D12 template_cache_size: "Configure the maximum amount of Django       *)
(*      templates to be cached."                                           *)
(*  D13 settings are looked up when needed, not frozen at import: the      *)
(*      repository's tests switch COMPONENTS with override_settings and    *)
(*      read `app_settings` afterwards; component_registry.py: "we always  *)
(*      take the latest value from Django's settings".                     *)
(*                                                                         *)
(*  D14 django_components.get_component_dirs (docs/reference/api.md):      *)
(*      "get_component_dirs() searches for dirs set in COMPONENTS.dirs     *)
(*      settings. If none set, defaults to searching for a "components"    *)
(*      app. In addition to that, also all installed Django apps are       *)
(*      checked whether they contain directories as set in                 *)
(*      COMPONENTS.app_dirs (e.g. [app]/components). Notes: - Paths that   *)
(*      do not point to directories are ignored. [...] - The paths in      *)
(*      COMPONENTS.dirs must be absolute paths."; `include_apps`: "Include *)
(*      directories from installed Django apps."; dirs entries may be      *)
(*      (prefix, path) tuples "same as with STATICFILES_DIRS"; a relative  *)
(*      path is a ValueError (tests/test_loader.py                         *)
(*      test_get_dirs__componenents_dirs__raises_on_relative_path_1/2).    *)
(*                                                                         *)
(* Values are typed records of one uniform shape (TLC must never compare   *)
(* an int with a string):  [t, b, i, s, l]  with t the tag.  List items    *)
(* are strings; the harness maps the prefixes "path:" (a pathlib.Path)     *)
(* and "re:" (a compiled regex of its catalogue) to Python objects.        *)
(*                                                                         *)
(* Not determined by the documentation, therefore never generated          *)
(* (WellFormed) or admitted as a set:                                      *)
(*   - an explicit None for a key other than `cache`/`template_cache_size` *)
(*   - keys that are not documented settings (the dict form raises)        *)
(*   - values of the wrong type (a string for a bool, ...)                 *)
(*   - which of a deprecated / current name wins when both are given       *)
(*   - whether an invalid global context_behavior is reported to a         *)
(*     registry that has its own context_behavior                          *)
(*   - get_component_dirs: the legacy fallback to STATICFILES_DIRS (code   *)
(*     only), dirs entries that are neither a string, a Path nor a pair,   *)
(*     the order of the answer (it is compared as a set)                   *)
(***************************************************************************)
EXTENDS Integers, Sequences, FiniteSets, SequencesExt

(* ---- typed values ------------------------------------------------------ *)
V(t, b, i, s, l) == [t |-> t, b |-> b, i |-> i, s |-> s, l |-> l]
B(x) == V("bool", x, 0, "", <<>>)
I(n) == V("int", FALSE, n, "", <<>>)
S(x) == V("str", FALSE, 0, x, <<>>)
L(q) == V("list", FALSE, 0, "", q)
NoneV     == V("none", FALSE, 0, "", <<>>)       \* Python None, given explicitly / returned
Absent    == V("absent", FALSE, 0, "", <<>>)     \* the key is not given
Unbounded == V("unbounded", FALSE, 0, "", <<>>)  \* effective cache size "no limit"
Err(x)    == V("error", FALSE, 0, x, <<>>)       \* the access raises exception class x

(* ---- the documented settings ------------------------------------------- *)
Keys == {"autodiscover", "dirs", "app_dirs", "cache", "context_behavior",
         "debug_highlight_components", "debug_highlight_slots", "dynamic_component_name",
         "libraries", "multiline_tags", "reload_on_template_change", "reload_on_file_change",
         "static_files_allowed", "forbidden_static_files", "static_files_forbidden",
         "tag_formatter", "template_cache_size"}
Deprecated == {"reload_on_template_change", "forbidden_static_files"}
\* an effective setting ("accessor") is named by the current name of its key
Accessors == Keys \ Deprecated
OldNameOf(k) == CASE k = "reload_on_file_change"  -> "reload_on_template_change"
                  [] k = "static_files_forbidden" -> "forbidden_static_files"
                  [] OTHER -> ""
NewNameOf(k) == CASE k = "reload_on_template_change" -> "reload_on_file_change"
                  [] k = "forbidden_static_files"    -> "static_files_forbidden"
                  [] OTHER -> k
\* the accessors a change of key k may influence
Affects(k) == {NewNameOf(k)}

DefaultAllowedS == <<".css", ".js", ".jsx", ".ts", ".tsx",
                     ".apng", ".png", ".avif", ".gif", ".jpg", ".jpeg", ".jfif", ".pjpeg", ".pjp", ".svg",
                     ".webp", ".bmp", ".ico", ".cur", ".tif", ".tiff",
                     ".eot", ".ttf", ".woff", ".otf", ".svg">>
DefaultForbiddenS == <<".html", ".django", ".dj", ".tpl", ".py", ".pyc">>

\* D3.  `base` is Django's BASE_DIR (a string; str and Path spellings resolve identically)
Default(k, base) ==
  CASE k = "autodiscover"               -> B(TRUE)
    [] k = "cache"                      -> NoneV
    [] k = "context_behavior"           -> S("django")
    [] k = "dirs"                       -> L(<<"path:" \o base \o "/components">>)
    [] k = "app_dirs"                   -> L(<<"components">>)
    [] k = "debug_highlight_components" -> B(FALSE)
    [] k = "debug_highlight_slots"      -> B(FALSE)
    [] k = "dynamic_component_name"     -> S("dynamic")
    [] k = "libraries"                  -> L(<<>>)
    [] k = "multiline_tags"             -> B(TRUE)
    [] k = "reload_on_file_change"      -> B(FALSE)
    [] k = "static_files_allowed"       -> L(DefaultAllowedS)
    [] k = "static_files_forbidden"     -> L(DefaultForbiddenS)
    [] k = "tag_formatter"              -> S("django_components.component_formatter")
    [] k = "template_cache_size"        -> I(128)

ContextBehaviors == {"django", "isolated"}

(* ---- user settings ------------------------------------------------------ *)
\* u : Keys -> value (Absent = not given);  form = how COMPONENTS is given:
\*   "dict" a plain dict, "inst" a ComponentsSettings(...) instance, "none" no COMPONENTS setting at all
Forms == {"dict", "inst", "none"}
Empty == [k \in Keys |-> Absent]
Given(u, k) == u[k].t # "absent"
NoneAllowed == {"cache", "template_cache_size"}
WellFormed(u, form) == /\ \A k \in Keys : u[k].t = "none" => k \in NoneAllowed
                       /\ form = "none" => u = Empty

\* the value(s) the user gave for accessor k (D6: the deprecated name still works)
UserValues(u, k) ==
  LET old == OldNameOf(k) IN
  IF old # "" /\ Given(u, k) /\ Given(u, old) THEN {u[k], u[old]}
  ELSE IF Given(u, k) THEN {u[k]}
  ELSE IF old # "" /\ Given(u, old) THEN {u[old]}
  ELSE {}

\* documented normalisation of one given value: the set of admissible effective values
Norm(k, v, form, base) ==
  IF v.t = "none"
  THEN IF k = "template_cache_size"
       THEN (IF form = "dict" THEN {Unbounded} ELSE {Unbounded, Default(k, base)})      \* D7
       ELSE {Default(k, base)}                                                          \* D8 (cache)
  ELSE IF k = "context_behavior"
       THEN (IF v.t = "str" /\ v.s \in ContextBehaviors THEN {v} ELSE {Err("ValueError")})   \* D5
       ELSE {v}

\* Resolve: the admissible results of reading accessor k under user settings u
Adm(u, form, base, k) ==
  IF UserValues(u, k) = {} THEN {Default(k, base)}
  ELSE UNION {Norm(k, v, form, base) : v \in UserValues(u, k)}

Determined(u, form, base, k) == Cardinality(Adm(u, form, base, k)) = 1
\* the only sources of a non-singleton answer
Ambiguous(u, form, k) ==
  \/ OldNameOf(k) # "" /\ Given(u, k) /\ Given(u, OldNameOf(k)) /\ u[k] # u[OldNameOf(k)]
  \/ k = "template_cache_size" /\ form = "inst" /\ u[k].t = "none"

(* ---- registry-level settings (D9) -------------------------------------- *)
RegKeys == {"context_behavior", "tag_formatter"}
\* own = RegistrySettings.<k>, old = RegistrySettings.<K upper-case, deprecated>; Absent = omitted
\* `registry.settings` is read as a whole: where the global context_behavior is invalid and the
\* registry has none of its own, the docs do not say whether reading the other field fails too.
RegAdm(u, form, base, k, own, old) ==
  LET mine == {own, old} \ {Absent}
      global == Adm(u, form, base, k)
      errors == {e \in global \cup Adm(u, form, base, "context_behavior") : e.t = "error"} IN
  IF mine = {} THEN global \cup errors
  ELSE mine \cup errors

(* ---- downstream effects of a start-up under (u, form) ------------------ *)
\* D10: the names under which the dynamic component is registered
DynamicNames(u, form, base) == Adm(u, form, base, "dynamic_component_name")
\* D11: TRUE -> "{{ x <newline> }}" is a variable tag; FALSE -> django.template.base.tag_re is left alone
Multiline(u, form, base) == Adm(u, form, base, "multiline_tags")
\* libraries: "Configure extra python modules that should be loaded. [...] This would be the equivalent of
\* importing these modules from within Django's AppConfig.ready()"
LibrariesLoaded(u, form, base) == Adm(u, form, base, "libraries")
\* D12: number of templates held after n distinct templates were compiled through the cache
CachedAfterOne(n, bound) == IF bound.t = "unbounded" THEN n
                            ELSE IF bound.i < n THEN (IF bound.i < 0 THEN 0 ELSE bound.i) ELSE n
CachedAfter(u, form, base, n) == {CachedAfterOne(n, bd) : bd \in Adm(u, form, base, "template_cache_size")}
\* D9: context behaviour of a registry created without own context_behavior
FreshRegistryBehavior(u, form, base) == RegAdm(u, form, base, "context_behavior", Absent, Absent)

(* ---- component directories: get_component_dirs() (D14) ------------------ *)
\* The world: fs = the set of existing DIRECTORIES (absolute path strings), apps = the root
\* directories of the installed apps.  A dirs item is a path string, "path:<p>" (a pathlib.Path)
\* or "tuple:<prefix>:<p>"; paths contain no colon.
Ch(s, i) == SubSeq(s, i, i)
PathOf(item) ==
  IF \E i \in 1..Len(item) : Ch(item, i) = ":"
  THEN LET c == CHOOSE i \in 1..Len(item) : Ch(item, i) = ":" /\ \A j \in (i+1)..Len(item) : Ch(item, j) # ":"
       IN SubSeq(item, c + 1, Len(item))
  ELSE item
IsAbs(p) == Len(p) > 0 /\ Ch(p, 1) = "/"
ItemsOf(v) == {v.l[i] : i \in DOMAIN v.l}
DirsVal(ps) == V("dirs", FALSE, 0, "", SetToSeq(ps))      \* a result: a SET of directories
HasRelative(d) == \E it \in ItemsOf(d) : ~IsAbs(PathOf(it))
AppDirsIn(ad, fs, apps) == {a \o "/" \o x : a \in apps, x \in ItemsOf(ad)} \cap fs
DirsOne(d, ad, fs, apps, inc) ==
  IF HasRelative(d) THEN Err("ValueError")
  ELSE DirsVal(({PathOf(it) : it \in ItemsOf(d)} \cap fs)              \* "not directories are ignored"
               \cup (IF inc THEN AppDirsIn(ad, fs, apps) ELSE {}))
ComponentDirs(u, form, base, fs, apps, inc) ==
  {DirsOne(d, ad, fs, apps, inc) : d \in Adm(u, form, base, "dirs"), ad \in Adm(u, form, base, "app_dirs")}
\* a start-up that looks for component files may report a relative path
DirsMayFail(u, form, base) == \E d \in Adm(u, form, base, "dirs") : HasRelative(d)

\* autodiscover: "Toggle whether to run autodiscovery at the Django server startup" + autodiscover():
\* "Search for all python files in COMPONENTS.dirs and COMPONENTS.app_dirs and import them."
\* The harness keeps an importable python file in [app]/<d> of one installed app for every d of
\* probeDirs (and none elsewhere): is one of them imported by the start-up?
AutodiscoverImports(u, form, base, probeDirs) ==
  {B(a.b /\ (ItemsOf(ad) \cap probeDirs # {})) :
     a \in Adm(u, form, base, "autodiscover"), ad \in Adm(u, form, base, "app_dirs")}
\* reload_on_file_change: "If `True`, django_components configures Django to reload when files inside
\* COMPONENTS.dirs or COMPONENTS.app_dirs change."  After the start-up, Django's file_changed signal
\* is sent for a file below the existing directory `target`: is a reload triggered?
ReloadsOnChangeIn(u, form, base, fs, apps, target) ==
  {B(w.b /\ r.t = "dirs" /\ target \in ItemsOf(r)) :
     w \in Adm(u, form, base, "reload_on_file_change"), r \in ComponentDirs(u, form, base, fs, apps, TRUE)}

\* Known deviation (classification only): the receiver installed by the start-up is a local function
\* connected with a weak reference; it is gone when the start-up returns, no reload is ever triggered.
DevReloadKey(u, form, base, fs, apps, target) ==
  IF B(TRUE) \in ReloadsOnChangeIn(u, form, base, fs, apps, target) THEN "reload-on-file-change-true" ELSE ""

\* Known deviation (classification only): entries of COMPONENTS.dirs are returned whether they
\* exist or not (only the app-level directories are checked).
DevDirsOne(d, ad, fs, apps, inc) ==
  IF HasRelative(d) THEN Err("ValueError")
  ELSE DirsVal({PathOf(it) : it \in ItemsOf(d)} \cup (IF inc THEN AppDirsIn(ad, fs, apps) ELSE {}))
DevComponentDirs(u, form, base, fs, apps, inc) ==
  {DevDirsOne(d, ad, fs, apps, inc) : d \in Adm(u, form, base, "dirs"), ad \in Adm(u, form, base, "app_dirs")}
DevDirsKey(u, form, base, fs) ==
  IF \E d \in Adm(u, form, base, "dirs") : ~HasRelative(d) /\ \E it \in ItemsOf(d) : PathOf(it) \notin fs
  THEN "dirs-entry-not-a-directory" ELSE ""

(* ---- the known deviation: an explicit None is taken for "not given" ---- *)
\* The implementation resolves every key as `value if value is not None else default`, so
\* {"template_cache_size": None} yields the default limit instead of "no limit" (D7).  This part
\* only classifies a failing case as that known finding; it never influences an expected value.
DevNorm(k, v, form, base) == IF v.t = "none" THEN {Default(k, base)} ELSE Norm(k, v, form, base)
DevAdm(u, form, base, k) ==
  IF UserValues(u, k) = {} THEN {Default(k, base)}
  ELSE UNION {DevNorm(k, v, form, base) : v \in UserValues(u, k)}
\* the input class on which the deviation shows ("" = none)
DevKey(u, form, k) ==
  IF k = "template_cache_size" /\ form = "dict" /\ u[k].t = "none" THEN "explicit-none-cache-size-in-dict"
  ELSE ""

(* ---- the state machine: settings change at run time (D13) -------------- *)
VARIABLES user, form, base, ret
setVars == <<user, form, base, ret>>

SInit == user = Empty /\ form = "none" /\ ret = {}

Set(k, v)  == /\ user' = [user EXCEPT ![k] = v]
              /\ form' = IF form = "none" THEN "dict" ELSE form
              /\ ret' = {} /\ UNCHANGED base
Unset(k)   == /\ Given(user, k)
              /\ user' = [user EXCEPT ![k] = Absent]
              /\ ret' = {} /\ UNCHANGED <<form, base>>
\* the same settings given in the other form (or COMPONENTS removed when nothing is set)
Reform(f)  == /\ f # form /\ WellFormed(user, f)
              /\ form' = f /\ ret' = {} /\ UNCHANGED <<user, base>>
Drop       == /\ user' = Empty /\ form' = "none" /\ ret' = {} /\ UNCHANGED base
SetBase(b) == /\ b # base /\ base' = b /\ ret' = {} /\ UNCHANGED <<user, form>>
\* COMPONENTS replaced as a whole (e.g. leaving an override_settings block restores an earlier value)
Load(u, f) == /\ WellFormed(u, f) /\ user' = u /\ form' = f /\ ret' = {} /\ UNCHANGED base
Read(k)    == /\ ret' = Adm(user, form, base, k) /\ UNCHANGED <<user, form, base>>
RegRead(k, own, old) ==
              /\ ret' = RegAdm(user, form, base, k, own, old) /\ UNCHANGED <<user, form, base>>
CompDirs(fs, apps, inc) ==
              /\ ret' = ComponentDirs(user, form, base, fs, apps, inc) /\ UNCHANGED <<user, form, base>>

(* ---- theorems (checked by TLC on every reachable state) ---------------- *)
\* D1/D3: nothing given -> every accessor is exactly its documented default
DefaultsWhenEmpty == user = Empty => \A k \in Accessors : Adm(user, form, base, k) = {Default(k, base)}
\* D2: a dict and an instance resolve identically (up to the documented conflict D7)
FormIndependent == \A k \in Accessors :
   \/ Adm(user, "dict", base, k) = Adm(user, "inst", base, k)
   \/ k = "template_cache_size" /\ user[k].t = "none"
      /\ Adm(user, "dict", base, k) \subseteq Adm(user, "inst", base, k)
\* one answer, except in the two undocumented situations
DeterminedUnlessAmbiguous == \A k \in Accessors : Determined(user, form, base, k) \/ Ambiguous(user, form, k)
\* a given, valid value under the current name, and no deprecated twin: that value is the answer
GivenWins == \A k \in Accessors :
   (Given(user, k) /\ user[k].t # "none" /\ k # "context_behavior"
    /\ (OldNameOf(k) = "" \/ ~Given(user, OldNameOf(k)))) => Adm(user, form, base, k) = {user[k]}
\* D4: falsy values (False, 0, empty list) are values
EmptyIsAValue == \A k \in Accessors :
   (Given(user, k) /\ user[k] \in {B(FALSE), I(0), L(<<>>)} /\ (OldNameOf(k) = "" \/ ~Given(user, OldNameOf(k))))
     => Adm(user, form, base, k) = {user[k]}
\* D5: CONTEXT_BEHAVIOR is one of the two documented options or an error - never anything else
ContextBehaviorClosed == \A x \in Adm(user, form, base, "context_behavior") :
   (x.t = "str" /\ x.s \in ContextBehaviors) \/ x = Err("ValueError")
\* D6: the deprecated name alone behaves exactly like the current name alone
AliasEquivalent == \A k \in Accessors : LET old == OldNameOf(k) IN
   (old # "" /\ Given(user, old) /\ ~Given(user, k)) =>
      Adm(user, form, base, k) = Adm([user EXCEPT ![k] = user[old], ![old] = Absent], form, base, k)
\* D14: only existing directories are answered; without apps only COMPONENTS.dirs counts; an empty
\* dirs list with include_apps = FALSE answers nothing
DirsTheorems(fs, apps) ==
  /\ \A inc \in BOOLEAN : \A r \in ComponentDirs(user, form, base, fs, apps, inc) :
        r.t = "dirs" => ItemsOf(r) \subseteq fs
  /\ \A r \in ComponentDirs(user, form, base, fs, apps, FALSE) : \A d \in Adm(user, form, base, "dirs") :
        (r.t = "dirs" /\ Determined(user, form, base, "dirs")) => ItemsOf(r) \subseteq {PathOf(it) : it \in ItemsOf(d)}
  /\ (Adm(user, form, base, "dirs") = {L(<<>>)}) => ComponentDirs(user, form, base, fs, apps, FALSE) = {DirsVal({})}
  /\ \A r \in ComponentDirs(user, form, base, fs, apps, FALSE) :
        \A r2 \in ComponentDirs(user, form, base, fs, apps, TRUE) :
          (r.t = "dirs" /\ r2.t = "dirs" /\ Determined(user, form, base, "dirs")) => ItemsOf(r) \subseteq ItemsOf(r2)
\* a change of key k is visible only through the accessor of k (action property)
Locality(k) == \A a \in Accessors \ Affects(k) : Adm(user', form', base', a) = Adm(user, form, base, a)
=============================================================================
